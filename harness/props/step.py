"""Composition C - the whole physics time step of `UWG.simulate` as one Lean function.

Tie (exact): the REAL loop body of `UWG.simulate` - executed by calling the real `simulate()` of the
fractionised package (`fracexec.load()`: exact `Fraction`s, libm replaced by the shared rational
stubs) with `simTime.nt` set so that exactly one (or two) passes of the `for it` loop run - on a real
`UWG` object built by the fractionised `generate()` (Singapore parameter file and EPW, a short
`z_meso` column) whose buildings / schedules / elements are replaced by small fractionised ones
(1-3 buildings, 1-4 layers per element) and whose state is randomised and steered into every branch,
against `Uwg.Step.step` (lean/UwgVerif/Model/Step.lean) run through `Sim.runSteps (Step.phys stubQ C)`:
the COMPLETE post-state (every attribute a step assigns, incl. the write-only ones) and the records are
compared exactly, or the exception class.

Beside the tie, oracles on the implementation's own results:
  * frame: nothing a step is supposed to only read (parameters, geometry, schedules, grid) changes;
  * footprint: the post-state is identical when every other row of the forcing table is replaced;
  * `UCM.canHum` = humidity ratio of the current row; recorded wind = max(row wind, windMin);
  * never both heating and cooling in any building; no vegetation heat off season.
"""
import copy
import importlib
import os
import sys
import time
from fractions import Fraction as F

import core
import fracexec
from fracexec import frac_str, frac_list

MODULE = 'UwgVerif.Props.Step'
THEOREMS = [
    'Uwg.StepProps.step_causal', 'Uwg.StepProps.step_extend_days',
    'Uwg.StepProps.step_outside_window_irrelevant', 'Uwg.StepProps.step_unmodelled_columns_irrelevant',
    'Uwg.StepProps.step_nsoil_lt3_only_via_mean', 'Uwg.StepProps.step_records_complete',
    'Uwg.StepProps.step_return_or_exception', 'Uwg.StepProps.step_bounds_on_return',
    'Uwg.StepProps.step_phys', 'Uwg.StepProps.step_footprint', 'Uwg.StepProps.step_run_footprint',
    'Uwg.StepProps.step_stale_forcing_dead',
    'Uwg.StepProps.step_forcing_selected', 'Uwg.StepProps.step_canHum_is_rural',
    'Uwg.StepProps.step_record_defined', 'Uwg.StepProps.step_record_is_recordHumidity',
    'Uwg.StepProps.step_wind_recorded', 'Uwg.StepProps.step_canTemp_bounds',
    'Uwg.StepProps.step_offseason_formula', 'Uwg.StepProps.step_offseason_bare_normal',
    'Uwg.StepProps.step_offseason_bare', 'Uwg.StepProps.step_hvac_never_both',
    'Uwg.StepProps.step_blds_length', 'Uwg.StepProps.step_zero_load_defined',
    'Uwg.StepProps.step_schedule_lookups',
]

PARAM = 'resources/initialize_singapore.uwg'
EPW = 'resources/SGP_Singapore.486980_IWEC.epw'
K0 = F('273.15')
if hasattr(sys, 'set_int_max_str_digits'):
    sys.set_int_max_str_digits(0)      # exact rationals of a whole step have thousands of digits


def mod(pkg, name):
    return importlib.import_module(pkg.__name__ + '.' + name)


def load_pkg():
    """The fractionised package, with CPython's `math.pow` domain error restored in psychrometrics
    (negative base, non-integral exponent -> ValueError; the shared stub table has no such guard, the
    Lean model `Uwg.psychro` has it) - the same guard as the C09 tie installs."""
    from props import c09
    pkg = fracexec.load()
    c09.guard_pow(mod(pkg, 'psychrometrics'))
    return pkg


def rq(rng, lo, hi, den=None):
    den = den or rng.choice([1, 2, 4, 5, 10, 20, 100])
    return F(rng.randint(int(round(lo * den)), int(round(hi * den))), den)


# ------------------------------------------------------------------------------ serialisation
def opt(x):
    return 'none' if x is None else frac_str(x)


def table(t):
    return '[' + '|'.join(';'.join(frac_str(x) for x in row) for row in t) + ']'


def g0(o, name):
    """Write-only attribute that may not exist yet (or be None) before the first step."""
    v = getattr(o, name, None)
    return F(0) if v is None else v


ELEM_ATTRS = ['albedo', 'emissivity', 'vegcoverage', 'solRec', 'infra', 'aeroCond', 'solAbs', 'lat',
              'sens', 'flux', 'T_ext', 'T_int']


def ser_elem(p, e):
    n = len(e.layerTemp)
    if not (len(e.layer_thickness_lst) == len(e.layerThermalCond) == len(e.layerVolHeat) == n):
        raise core.Infra('element %s: parallel lists of unequal length (outside the model)' % p)
    cover = 'none'
    if hasattr(e, 'grasscoverage') and hasattr(e, 'treecoverage'):
        cover = frac_list([e.grasscoverage, e.treecoverage])
    return '%sc=%s %sh=%d %scover=%s %sd=%s %sk=%s %scv=%s %st=%s' % (
        p, frac_list([getattr(e, a) for a in ELEM_ATTRS]), p, 1 if e.horizontal else 0, p, cover,
        p, frac_list(e.layer_thickness_lst), p, frac_list(e.layerThermalCond), p,
        frac_list(e.layerVolHeat), p, frac_list(e.layerTemp))


BLD_C = ['floor_height', 'infil', 'glazing_ratio', 'u_value', 'shgc', 'cop_adj', 'coolcap', 'heateff',
         'heat_cap']
BEM_S = ['elec', 'light', 'Nocc', 'Qocc', 'swh', 'gas', 'T_wallex', 'T_wallin', 'T_roofex', 'T_roofin',
         'ElecTotal']
BLD_S = ['cool_setpoint_day', 'cool_setpoint_night', 'heat_setpoint_day', 'heat_setpoint_night', 'vent',
         'int_heat_day', 'int_heat_night', 'int_heat_f_rad', 'int_heat_flat', 'indoor_temp', 'indoor_hum']
BLD_OUT = ['nFloor', 'int_heat', 'sensCoolDemand', 'sensHeatDemand', 'dehumDemand', 'Qhvac', 'Qheat',
           'coolConsump', 'heatConsump', 'sensWaste', 'latWaste', 'indoor_temp', 'indoor_hum',
           'indoorRhum', 'fluxWall', 'fluxRoof', 'fluxMass', 'fluxSolar', 'fluxWindow', 'fluxInterior',
           'fluxInfil', 'fluxVent', 'ElecTotal', 'GasTotal']


def ser_bld(i, bem):
    b = bem.building
    p = 'b%d' % i
    out = 'none'
    if hasattr(b, 'nFloor'):
        out = frac_list([g0(b, a) for a in BLD_OUT])
    return ' '.join([
        '%sc=%s' % (p, frac_list([bem.frac, bem.fl_area] + [getattr(b, a) for a in BLD_C])),
        '%scond=%s' % (p, b.condtype),
        '%ss=%s' % (p, frac_list([getattr(bem, a) for a in BEM_S] + [g0(b, a) for a in BLD_S])),
        '%slw=%s' % (p, opt(getattr(b, 'latWaste', None))),
        '%sout=%s' % (p, out),
        ser_elem(p + 'mass', bem.mass), ser_elem(p + 'wall', bem.wall), ser_elem(p + 'roof', bem.roof)])


UCM_S = ['canTemp', 'roadTemp', 'canHum', 'canWind', 'ustar', 'ustarMod', 'uExch', 'turbU', 'turbV',
         'turbW', 'sensHeat', 'sensAnthrop', 'treeSensHeat', 'treeLatHeat', 'SolRecRoof', 'SolRecRoad',
         'SolRecWall', 'Q_roof', 'Q_wall', 'Q_window', 'Q_road', 'Q_hvac', 'Q_traffic', 'Q_ubl', 'Q_vent',
         'ElecTotal', 'GasTotal', 'roofTemp', 'wallTemp']
FORC = ['deepTemp', 'waterTemp', 'infra', 'wind', 'uDir', 'hum', 'pres', 'temp', 'rHum', 'prec', 'dif',
        'dir']
ROW = ['infra', 'wind', 'uDir', 'hum', 'pres', 'temp', 'rHum', 'prec', 'dif', 'dir']
RSM_L = ['tempProf', 'presProf', 'tempRealProf', 'densityProfC', 'densityProfS', 'windProf']


def ser_state(m):
    u, ubl, r = m.UCM, m.UBL, m.RSM
    parts = ['forc=' + frac_list([g0(m.forc, a) for a in FORC]),
             'ucm=' + frac_list([g0(u, a) for a in UCM_S]),
             'latHeat=' + opt(u.latHeat), 'uwp=' + frac_list(u.windProf),
             'canRHum=' + opt(u.canRHum), 'tdp=' + opt(u.Tdp),
             ser_elem('road', u.road), ser_elem('rural', m.rural), 'nb=%d' % len(m.BEM)]
    parts += [ser_bld(i, b) for i, b in enumerate(m.BEM)]
    parts += ['ubl=' + frac_list([ubl.ublTemp, g0(ubl, 'advHeat'), g0(ubl, 'sensHeat')]),
              'cells=' + frac_list(ubl.ublTempdx)]
    parts += ['%s=%s' % (a, frac_list(getattr(r, a))) for a in RSM_L]
    parts += ['ublPres=' + frac_str(g0(r, 'ublPres')), 'dlu=' + frac_list(getattr(r, 'dlu', [])),
              'dld=' + frac_list(getattr(r, 'dld', []))]
    return ' '.join(parts)


PAR = ['dayBLHeight', 'windHeight', 'circCoeff', 'dayThreshold', 'treeFLat', 'grassFLat', 'vegAlbedo',
       'nightSetStart', 'nightSetEnd', 'windMin', 'exCoeff', 'g', 'cp', 'vk', 'r', 'lv', 'waterDens']
UCM_C = ['bldHeight', 'bldDensity', 'verToHor', 'treeCoverage', 'vegcover', 'roadShad', 'canAspect',
         'roadConf', 'wallConf', 'facArea', 'roadArea', 'roofArea', 'z0u', 'l_disp', 'alb_wall', 'h_mix']
UBL_C = ['dayBLHeight', 'nightBLHeight', 'orthLength', 'urbArea', 'perimeter', 'paralLength', 'charLength']
SCH_S = ['q_elec', 'q_gas', 'q_light', 'n_occ', 'vent', 'v_swh']
SCH_T = ['elec', 'gas', 'light', 'occ', 'cool', 'heat', 'swh']


def ser_cfg(m):
    p, r = m.geoParam, m.RSM
    parts = ['par=' + frac_list([getattr(p, a) for a in PAR]),
             'vegStart=%d' % p.vegStart, 'vegEnd=%d' % p.vegEnd,
             'sim=' + frac_list([m.simTime.dt, r.lat, r.lon, r.gmt, m.SIGMA, m.sensanth, m.sensocc,
                                 m.latfocc, m.radflight, m.radfequip]),
             'inobis=[' + ';'.join(str(x) for x in m.simTime.inobis) + ']',
             'traffic=' + table(m.schtraffic), 'nsch=%d' % len(m.Sch)]
    for i, s in enumerate(m.Sch):
        parts.append('sch%ds=%s' % (i, frac_list([getattr(s, a) for a in SCH_S])))
        parts += ['sch%d%s=%s' % (i, a, table(getattr(s, a))) for a in SCH_T]
    parts += ['ucmc=' + frac_list([getattr(m.UCM, a) for a in UCM_C]), 'latAnthrop=' + opt(m.UCM.latAnthrop),
              'rsmc=' + frac_list([r.z0r, r.disp]), 'nzref=%d' % r.nzref, 'nzfor=%d' % r.nzfor,
              'z=' + frac_list(r.z), 'dz=' + frac_list(r.dz),
              'ublc=' + frac_list([getattr(m.UBL, a) for a in UBL_C])]
    return ' '.join(parts)


def err_of(e):
    if isinstance(e, ZeroDivisionError):
        return 'err zerodiv'
    if isinstance(e, IndexError):
        return 'err index'
    if isinstance(e, ValueError):
        return 'err value'
    if isinstance(e, AssertionError):
        return 'err assert'
    if isinstance(e, UnboundLocalError):
        return 'err unbound'
    if isinstance(e, TypeError):
        return 'err type'
    if isinstance(e, AttributeError):
        return 'err attr'
    if type(e) is Exception and ('FATAL ERROR' in str(e) or 'Something obviously went wrong' in str(e)
                                 or 'Error during conduction' in str(e)):
        return 'err fatal'
    raise e


# ------------------------------------------------------------------------------ construction
def week(rng, lo, hi, den, zero=False):
    if zero:
        return [[F(0)] * 24 for _ in range(3)]
    return [[rq(rng, lo, hi, den) for _ in range(24)] for _ in range(3)]


def make_sched(pkg, rng, zero_load=False, occ_only=False):
    S = mod(pkg, 'schdef').SchDef
    z = zero_load or occ_only
    s = S(elec=week(rng, 0, 1, 10, z), gas=week(rng, 0, 1, 10), light=week(rng, 0, 1, 10, z),
          occ=week(rng, 0, 1, 10, zero_load), cool=week(rng, 22, 30, 2), heat=week(rng, 15, 21, 2),
          q_elec=rq(rng, 0, 20, 4), q_gas=rq(rng, 0, 5, 4), q_light=rq(rng, 0, 20, 4),
          n_occ=rq(rng, 0, 0.2, 100), vent=F(rng.randint(0, 30), 10000), bldtype='x', builtera='new',
          swh=week(rng, 0, 1, 10), v_swh=rq(rng, 0, 2, 20))
    return s


def make_elem(pkg, rng, n, horizontal, name, t0, veg=F(0), albedo=None, spread=2):
    Mat, El = mod(pkg, 'material').Material, mod(pkg, 'element').Element
    d = [rq(rng, 0.01, 0.3, 100) for _ in range(n)]
    mats = [Mat(rq(rng, 0.1, 2.5, 10), F(rng.randint(2, 25)) * 100000, 'm%d' % j) for j in range(n)]
    e = El(albedo if albedo is not None else rq(rng, 0.05, 0.6, 20), rq(rng, 0.8, 0.98, 50), d, mats, veg,
           F(293), horizontal, name)
    e.layerTemp = [t0 + rq(rng, -spread, spread, 4) for _ in range(n)]
    return e


def make_bem(pkg, rng, mode, canTemp, sched, hour, di, layers, calm=False):
    """A building steered towards HVAC branch `mode` at the set-points of `sched` for (di, hour)."""
    Building, BEMDef = mod(pkg, 'building').Building, mod(pkg, 'BEMDef').BEMDef
    tc = sched.cool[di][hour] + K0
    th = sched.heat[di][hour] + K0
    coolcap, heat_cap = rq(rng, 150, 600, 2), rng.choice([F(999), rq(rng, 300, 900, 2)])
    spread = 1
    if mode in ('cool', 'cool-lim'):
        base, tin = tc + rq(rng, 0, 5, 4), rq(rng, 292, 308, 4)
        if mode == 'cool-lim':
            coolcap, base = rq(rng, 0.5, 25, 4), tc + rq(rng, 1, 12, 4)
    elif mode in ('heat', 'heat-lim'):
        base, tin = th - rq(rng, 0, 5, 4), rq(rng, 280, 296, 4)
        if mode == 'heat-lim':
            heat_cap, base = rq(rng, 0.5, 25, 4), th - rq(rng, 1, 15, 4)
    elif mode == 'free':
        base, tin = tc + rq(rng, 1, 8, 4), rq(rng, 292, 304, 4)
    elif mode == 'idle':
        mid = (tc + th) / 2
        base, tin = mid + rq(rng, -1, 1, 4), mid + rq(rng, -2, 2, 4)
    else:
        base, tin, spread = rq(rng, 280, 306, 4), rq(rng, 283, 306, 4), 3
    b = Building(rq(rng, 2.5, 5, 10), F(1), F(1), rq(rng, 0, 0.7, 20), rq(rng, 0, 0.5, 20),
                 rq(rng, 0, 2, 20) if mode != 'free' and not calm else rq(rng, 0, 0.3, 20), F(0),
                 rng.choice([F(0), rq(rng, 0, 0.9, 20), rq(rng, 0, 0.9, 20)]) if mode != 'free'
                 else rq(rng, 0, 0.3, 20),
                 rq(rng, 0.5, 6, 10), rq(rng, 0.1, 0.9, 20), rng.choice(['AIR', 'WATER']),
                 rq(rng, 1.5, 6, 10), coolcap, rng.choice([F(1), rq(rng, 0.4, 1, 20)]), tin)
    b.heat_cap = heat_cap
    b.cop = b.cop_adj + rq(rng, 1, 3, 4)      # the nominal COP is not what BEMCalc uses (cop_adj)
    b.indoor_temp = tin
    b.indoor_hum = rq(rng, 0.001, 0.02, 2000)
    nm, nw, nr = layers
    mass = make_elem(pkg, rng, nm, 1, 'mass', base, spread=spread)
    wall = make_elem(pkg, rng, nw, 0, 'wall', base, spread=spread)
    roof = make_elem(pkg, rng, nr, 1, 'roof', base, veg=rng.choice([F(0), F(0), rq(rng, 0, 1, 10)]),
                     spread=spread)
    bem = BEMDef(b, mass, wall, roof, 'x', 'new')
    bem.frac = F(0)
    bem.fl_area = rq(rng, 100, 100000, 1)
    return bem


HOT = ['cool', 'cool-lim', 'idle', 'any']
COLD = ['heat', 'heat-lim', 'idle', 'free', 'any']


def write_zmeso(path, levels):
    with open(path, 'w') as f:
        for z in levels:
            f.write('%s\n' % z)


def gen_spec(rng, i):
    """Steering of one case; every branch family is cycled through deterministically, the rest is random."""
    sp = {}
    sp['climate'] = ['hot', 'cold'][i % 2]
    sp['sun'] = ['day', 'night', 'day', 'dim'][(i // 2) % 4]
    sp['season'] = ['in', 'out-before', 'in', 'out-after'][(i // 3) % 4]
    sp['nb'] = [1, 2, 3, 1][(i // 5) % 4]
    sp['dt'] = rng.choice([300, 300, 600, 900, 60, 300, 120, 3600 if i % 4 == 0 else 1800 if i % 4 == 2 else 300])
    sp['windmin_active'] = (i % 5 == 1)
    sp['veg0'] = (i % 7 == 3)
    sp['nsoil3'] = (i % 3 != 2)
    sp['zero_load'] = (i % 6 == 4)
    sp['occ_only'] = (i % 11 == 7)
    sp['daytype'] = ['weekday', 'sat', 'sun'][(i // 4) % 3]
    sp['record'] = (i % 2 == 0) or sp['dt'] == 3600
    sp['midnight'] = (i % 13 == 5)
    sp['latHeat'] = (i % 9 == 2)
    sp['layers'] = rng.choice([2, 2, 3, 4])
    sp['edge'] = None
    sp['small'] = False
    return sp


EDGES = ['no-building', 'one-layer-wall', 'one-layer-rural', 'neg-vent', 'neg-load', 'neg-flat',
         'fatal-indoor', 'zero-pres', 'short-sched', 'short-traffic', 'hot-canyon', 'zero-heatrur',
         'zero-hum', 'empty-mass', 'short-z', 'month-end']


def build(pkg, rng, work, sp, tag):
    """A real (fractionised) UWG object after generate(), shrunk and randomised according to `sp`."""
    uwgm = mod(pkg, 'uwg')
    m = uwgm.UWG.from_param_file(os.path.join(core.REPO, PARAM), epw_path=os.path.join(core.REPO, EPW))
    # date: pick the month by season and the day by day type (1 January = Sunday, julian % 7)
    vs, ve = 4, 9
    month = {'in': rng.choice([4, 6, 9]), 'out-before': rng.choice([1, 3]), 'out-after': rng.choice([10, 12])}[sp['season']]
    inobis = [0, 31, 59, 90, 120, 151, 181, 212, 243, 273, 304, 334]
    want = {'sun': 0, 'sat': 6, 'weekday': rng.choice([1, 2, 3, 4, 5])}[sp['daytype']]
    day = next(d for d in range(1, 28) if (inobis[month - 1] + d - 1) % 7 == want)
    if sp['edge'] == 'month-end':
        # the pass crosses midnight of 30 September: deep temperature of September, season test of October
        month, day = 9, 30
        sp['midnight'], sp['nsoil3'] = True, True
    m.month, m.day, m.nday, m.dtsim = month, day, 1, sp['dt']
    m.vegstart, m.vegend = vs, ve
    zp = os.path.join(work, 'zmeso_%s.txt' % tag)
    levels, href = ([0, 20, 120, 300], 50) if sp.get('small') else rng.choice([([0, 10, 40, 100, 220], 50), ([0, 4, 20, 60, 130, 200], 50),
                               ([0, 4, 20, 60, 130, 200], 75), ([0, 20, 120, 200], 50), ([0, 20, 120, 300], 50)])
    write_zmeso(zp, levels)
    m.Z_MESO_PATH = zp
    m.h_ref = F(href)
    m.h_ubl2 = F(rng.choice([30, 50]))
    m.h_obs = rq(rng, 0.1, 1, 10)
    if sp['veg0']:
        m.treecover, m.grasscover, m.rurvegcover = F(0), F(0), F(0)
    m.charlength = F(rng.choice([1000, 600, 250, 1300]))
    with core.quiet():
        m.generate()
    if not sp['nsoil3']:
        m.nSoil = 2
    for o in (m, m.UCM, m.UBL, m.RSM, m.geoParam, m.simTime):
        defloat(o)
    # ---- forcing table: small rationals; row 0 is the current row
    hot = sp['climate'] == 'hot'
    nrows = len(m.forcIP.temp)
    for j in range(nrows):
        m.forcIP.temp[j] = rq(rng, 295, 308, 2) if hot else rq(rng, 262, 284, 2)
        m.forcIP.hum[j] = rq(rng, 0.002, 0.02, 1000)
        m.forcIP.pres[j] = F(rng.randint(95000, 103000))
        m.forcIP.rHum[j] = F(rng.randint(20, 100))
        m.forcIP.infra[j] = F(rng.randint(250, 450))
        m.forcIP.uDir[j] = F(rng.randint(0, 359))
        m.forcIP.prec[j] = F(0)
        m.forcIP.wind[j] = rq(rng, 1.5, 9, 2)
        if sp['sun'] == 'day':
            m.forcIP.dir[j], m.forcIP.dif[j] = F(rng.randint(200, 800)), F(rng.randint(60, 300))
        elif sp['sun'] == 'dim':
            m.forcIP.dir[j], m.forcIP.dif[j] = F(rng.randint(0, 40)), F(rng.randint(1, 60))
        else:
            m.forcIP.dir[j], m.forcIP.dif[j] = F(0), F(0)
    if sp['windmin_active']:
        m.forcIP.wind[0] = rq(rng, 0, 0.9, 10)
    # ---- clock before the step
    dt = sp['dt']
    if sp['midnight']:
        sec = 86400 - dt
    elif sp['record']:
        sec = 3600 * rng.randint(1, 23) - dt
    else:
        sec = 3600 * rng.randint(0, 23) + dt * rng.randint(0, max(0, 3600 // dt - 2)) if dt < 3600 else 3600 * rng.randint(0, 22)
    if sp.get('onecall'):
        sec = 3600 * rng.randint(0, 20)
    m.simTime.secDay = sec
    m.simTime.hourDay = sec // 3600
    post = (sec + dt) % 86400
    hour = post // 3600
    julian_post = m.simTime.julian + (1 if sec + dt == 86400 else 0)
    di = {0: 2, 6: 1}.get(julian_post % 7, 0)
    # ---- canyon state
    u = m.UCM
    canTemp = rq(rng, 289, 310, 4) if hot else rq(rng, 258, 287, 4)
    if rng.random() < 0.1:
        canTemp = F(288)
    u.canTemp = canTemp
    u.roadTemp = canTemp + rq(rng, -5, 10, 4)
    u.canHum = rq(rng, 0.002, 0.02, 1000)
    u.canWind = rq(rng, 0.2, 4, 10)
    u.sensHeat = rng.choice([F(0), rq(rng, -20, 200, 2), rq(rng, 0, 400, 2)])
    u.windProf = [] if rng.random() < 0.5 else [rq(rng, 0, 5, 10) for _ in range(rng.randint(1, 3))]
    if sp['latHeat']:
        u.latHeat = rq(rng, 0, 50, 2)
    # the road the canyon simulates (un-padded pavement of generate(); here a short column)
    old = u.road
    road = make_elem(pkg, rng, sp['layers'], 1, 'urban_road', canTemp + rq(rng, -3, 8, 4), veg=old.vegcoverage,
                     albedo=old.albedo)
    road.treecoverage, road.grasscoverage = old.treecoverage, old.grasscoverage
    u.road = road
    rural = make_elem(pkg, rng, rng.choice([2, 3, 4]), 1, 'rural_road', m.forcIP.temp[0] + rq(rng, -3, 8, 4),
                      veg=m.rural.vegcoverage, albedo=m.rural.albedo)
    rural.sens = rq(rng, -30, 150, 2)
    m.rural = rural
    # ---- buildings and schedules
    m.Sch, m.BEM = [], []
    for j in range(sp['nb']):
        sch = make_sched(pkg, rng, zero_load=sp['zero_load'] and j == 0, occ_only=sp['occ_only'] and j == 0)
        mode = rng.choice(HOT if hot else COLD)
        if mode == 'free':
            for row in sch.elec + sch.light:
                row[hour] = F(1)
            sch.q_elec, sch.q_light = rq(rng, 20, 60, 4), rq(rng, 20, 60, 4)
        bem = make_bem(pkg, rng, mode, canTemp, sch, hour, di, (rng.choice([2, 3]), sp['layers'], rng.choice([2, 3, 4])),
                       calm=sp['dt'] >= 1800)       # explicit Euler of the indoor moisture: ACH * dt / 3600 < 1
        if sp['dt'] >= 1800:
            sch._vent = F(rng.randint(0, 3), 10000)
        bem._mode = mode
        m.Sch.append(sch)
        m.BEM.append(bem)
    fr = [F(rng.randint(1, 9)) for _ in m.BEM]
    for b, x in zip(m.BEM, fr):
        b.frac = x / sum(fr)
    # ---- boundary layer and rural column
    t_r = m.forcIP.temp[0]
    m.UBL.ublTemp = t_r + rq(rng, -2, 4, 4)
    m.UBL.ublTempdx = [m.UBL.ublTemp + rq(rng, -1, 1, 4) for _ in m.UBL.ublTempdx]
    r = m.RSM
    n = r.nzref
    r.tempProf = [t_r + rq(rng, -1, 3, 4) for _ in range(n)]
    r.presProf = [F(101000 - 600 * j - rng.randint(0, 200)) for j in range(n)]
    r.windProf = [rq(rng, 0.5, 8, 4) for _ in range(n)]
    r.tempRealProf = [t_r + rq(rng, -3, 1, 4) for _ in range(n)]
    r.densityProfC = [rq(rng, 1.0, 1.3, 100) for _ in range(n)]
    r.densityProfS = [rq(rng, 1.0, 1.3, 100) for _ in range(n + 1)]
    # ---- edges
    e = sp['edge']
    if e == 'no-building':
        m.BEM, m.Sch = [], []
    elif e == 'one-layer-wall':
        b = m.BEM[-1]
        b.wall = make_elem(pkg, rng, 1, 0, 'wall', F(295))
    elif e == 'one-layer-rural':
        m.rural = make_elem(pkg, rng, 1, 1, 'rural_road', F(295))
        m.rural.sens = F(10)
    elif e == 'neg-vent':
        m.Sch[-1]._vent = -F(1, 1000)
    elif e == 'neg-load':
        m.Sch[0]._q_elec = -F(500)
        m.Sch[0]._elec = [[F(1)] * 24 for _ in range(3)]
    elif e == 'neg-flat':
        m._latfocc = -F(3, 10)
        m.Sch[0]._occ = [[F(1)] * 24 for _ in range(3)]
        m.Sch[0]._n_occ = F(1, 10)
    elif e == 'fatal-indoor':
        m.BEM[0].building.indoor_temp = F(400)
    elif e == 'zero-pres':
        m.forcIP.pres[0] = F(0)
    elif e == 'short-sched':
        m.Sch = m.Sch[:-1]
    elif e == 'short-traffic':
        m._schtraffic = [row[:hour] for row in m.schtraffic]
    elif e == 'hot-canyon':
        m.UBL.ublTemp = F(900)
        m.UCM.road.layerTemp = [F(900)] * len(m.UCM.road.layerTemp)
        for b in m.BEM:
            b.wall.layerTemp = [F(900)] * len(b.wall.layerTemp)
    elif e == 'zero-heatrur':
        m.rural.albedo, m.rural.emissivity = F(1), F(0)
        m.rural.layerTemp = [m.forcIP.temp[0]] * len(m.rural.layerTemp)
        m.forcIP.infra[0] = F(0)
    elif e == 'zero-hum':
        # vapour pressure 0: `log` raises inside the try of psychrometrics -> alpha = -3
        m.forcIP.hum[0] = F(0)
    elif e == 'empty-mass':
        m.BEM[0].mass.layerTemp = []
        m.BEM[0].mass.layer_thickness_lst = []
        m.BEM[0].mass.layerThermalCond = []
        m.BEM[0].mass.layerVolHeat = []
    elif e == 'short-z':
        m.RSM.z = m.RSM.z[:1]
    return m


def defloat(o):
    """Floats that reach the generated objects from the (float) reference library become exact decimals."""
    for k, v in list(vars(o).items()):
        if isinstance(v, float):
            setattr(o, k, F(repr(round(v, 6))))
        elif isinstance(v, list) and v and all(isinstance(x, float) for x in v):
            setattr(o, k, [F(repr(round(x, 6))) for x in v])
        elif isinstance(v, list) and v and all(isinstance(x, list) for x in v):
            setattr(o, k, [[F(repr(round(x, 6))) if isinstance(x, float) else x for x in row] for row in v])


def pre_deep(m):
    """forc.deepTemp / waterTemp as the loop body selects them BEFORE the clock advances."""
    if m.nSoil < 3:
        mean = sum(m.forcIP.temp) / F(len(m.forcIP.temp))
        return mean, mean - 10
    mo = m.simTime.month
    return m.Tsoil[m._soilindex1][mo - 1], m.Tsoil[2][mo - 1]


def row_of(m, j):
    return [getattr(m.forcIP, a)[j] for a in ROW]


def run_body(m, nsteps=1):
    """Exactly `nsteps` passes of the real `for it` loop."""
    m.simTime.nt = nsteps + 1
    m._raised_in = None
    try:
        with core.quiet():
            m.simulate()
        return None
    except Exception as e:       # noqa - classified below, anything unexpected is re-raised
        import traceback
        m._raised_in = '<'.join([fr.name for fr in traceback.extract_tb(e.__traceback__)
                                 if os.sep + 'uwg' + os.sep in fr.filename][-1:0:-1][:2])
        return err_of(e)


def clock_tok(m, row):
    st = m.simTime
    rec = 1 if int(st.secDay) % int(st.timePrint) == 0 else 0
    return '[%d;%d;%d;%d;%d;%d;%d]' % (int(st.secDay), st.hourDay, st.month, st.day, st.julian, rec, row)


def rec_str(m, n):
    out = []
    for k in range(n):
        if m.UCMData[k] is None:
            break
        out.append(frac_list([m.UCMData[k].canTemp, m.UCMData[k].Tdp, m.UCMData[k].canRHum,
                              m.WeatherData[k].wind]))
    return '|'.join(out)


def branch_of(bem):
    b = bem.building
    if not hasattr(b, 'Qhvac'):
        return 'none'
    if b.Qhvac > 0 or b.coolConsump > 0:
        return 'cool-lim' if b.Qhvac == b.coolcap * b.nFloor else 'cool'
    if b.Qheat > 0:
        return 'heat-lim' if b.Qheat == b.heat_cap * b.nFloor else 'heat'
    return 'free' if b.sensCoolDemand > 0 else 'idle'


def snapshot(m):
    """Deep copy of the model without the (large, constant) EPW containers."""
    keep = {}
    for k in ('weather', 'epwinput', '_header', '_refBEM', '_refSchedule'):
        if k in m.__dict__:
            keep[k] = m.__dict__.pop(k)
    try:
        c = copy.deepcopy(m)
    finally:
        m.__dict__.update(keep)
    c.__dict__.update(keep)
    return c


def tokens(s):
    return dict(t.split('=', 1) for t in s.split(' ') if '=' in t)


def diff_tokens(a, b):
    ta, tb = tokens(a), tokens(b)
    out = []
    for k in ta:
        if ta[k] != tb.get(k):
            out.append(k)
    return out + [k for k in tb if k not in ta]


# ------------------------------------------------------------------------------ the check
def one_case(chk, pkg, rng, work, sp, tag, stats, viol):
    """Returns [(line, impl answer)] for one generated object (1 or 2 consecutive steps)."""
    m = build(pkg, rng, work, sp, tag)
    cases = []
    if sp.get('onecall'):
        return one_call_two_passes(m, stats, viol)
    nsteps = sp.get('steps', 1)
    for k in range(nsteps):
        cfg0 = ser_cfg(m)
        pre = ser_state(m)
        deep = pre_deep(m)
        row = row_of(m, 0)
        twin = snapshot(m) if sp.get('twin') else None
        vtwin = snapshot(m) if sp.get('vegtwin') and k == 0 else None
        windmin = m.geoParam.windMin
        month_pre = m.simTime.month
        err = run_body(m)
        line = 'run n=1 tab=%s clock0=%s deep0=%s %s %s' % (
            table([row]), clock_tok(m, 0), frac_list(deep), cfg0, pre)
        if err:
            ans = err
        else:
            rec = int(m.simTime.secDay) % 3600 == 0
            ans = 'ok %s recs=%s' % (ser_state(m), rec_str(m, 1) if rec else '')
        cases.append((line, ans))
        # ---------------- oracles on the implementation's own result
        stats['steps'] += 1
        cfg1 = ser_cfg(m)
        if cfg1 != cfg0:
            viol('frame: constants changed by a step', {'changed': diff_tokens(cfg0, cfg1)}, None,
                 'parameters, geometry, schedules and grid are only read')
        if err:
            stats['err'] += 1
            stats['raised'][err + '@' + str(m._raised_in)] += 1
            break
        u = m.UCM
        if u.canHum != row[3]:
            viol('canHum = rural humidity of the current row', {'row.hum': str(row[3])}, str(u.canHum), str(row[3]))
        wexp = max(row[1], windmin)
        if m.forc.wind != wexp or (m.WeatherData[0] is not None and m.WeatherData[0].wind != wexp):
            viol('recorded wind = max(row wind, windMin)', {'row.wind': str(row[1]), 'windMin': str(windmin)},
                 str(m.forc.wind), str(wexp))
        want = dict(zip(ROW, row), wind=wexp, deepTemp=deep[0], waterTemp=deep[1])
        got = {a: getattr(m.forc, a) for a in FORC}
        if got != want:
            viol('forc after the pass = current row of the table (wind raised to windMin), deep temperatures of the '
                 'month before the clock advanced', {'pass': k, 'fields': [a for a in FORC if got[a] != want[a]]},
                 {a: str(got[a]) for a in FORC if got[a] != want[a]}, {a: str(want[a]) for a in FORC if got[a] != want[a]})
        for j, b in enumerate(m.BEM):
            bb = b.building
            if (bb.Qheat != 0 or bb.heatConsump != 0) and (bb.Qhvac != 0 or bb.coolConsump != 0 or bb.dehumDemand != 0):
                viol('never both heating and cooling', {'building': j}, 'Qheat=%s Qhvac=%s' % (bb.Qheat, bb.Qhvac), 'one of them 0')
        off = m.simTime.month < m.geoParam.vegStart or m.simTime.month > m.geoParam.vegEnd
        if off and (u.treeSensHeat != 0 or u.treeLatHeat != 0 or u.road.solAbs != (1 - u.road.albedo) * u.road.solRec or
                    m.rural.solAbs != (1 - m.rural.albedo) * m.rural.solRec):
            viol('off season: bare ground, no vegetation heat', {'month': m.simTime.month},
                 'treeSensHeat=%s' % u.treeSensHeat, '0 and solAbs = (1-albedo) solRec')
        if twin is not None:
            # footprint: every OTHER row of the forcing table replaced, same step again
            for a in ROW:
                lst = getattr(twin.forcIP, a)
                keep = lst[0]
                for j in range(1, len(lst)):
                    lst[j] = lst[j] * 3 + 7
                if twin.nSoil < 3 and a == 'temp':
                    # the window mean is the documented exception: keep it unchanged
                    tot = sum(getattr(m.forcIP, a))
                    lst[1] = lst[1] + (tot - sum(lst))
                lst[0] = keep
            e2 = run_body(twin)
            s1, s2 = ser_state(m), (ser_state(twin) if not e2 else e2)
            stats['twins'] += 1
            if s1 != s2:
                viol('footprint: post-state depends on rows other than the current one',
                     {'differs': diff_tokens(s1, s2) if not e2 else e2}, None, 'identical post-state')
        if vtwin is not None and off:
            # C18 at step level (Props/Step.lean step_offseason_bare): off season, other vegetation data, same pass
            p2, u2 = vtwin.geoParam, vtwin.UCM
            p2.vegAlbedo, p2.treeFLat, p2.grassFLat = F(9, 20), F(1, 5), F(4, 5)
            u2.treeCoverage, u2.vegcover = F(3, 10), F(2, 5)
            els = [u2.road, vtwin.rural] + [b.roof for b in vtwin.BEM]
            for el in els:
                el.vegcoverage = F(3, 5)
            u2.road.grasscoverage, u2.road.treecoverage = F(1, 4), F(7, 20)
            e2 = run_body(vtwin)
            for el, el0 in zip(els, [u.road, m.rural] + [b.roof for b in m.BEM]):
                el.vegcoverage = el0.vegcoverage
            u2.road.grasscoverage, u2.road.treecoverage = u.road.grasscoverage, u.road.treecoverage
            s1, s2 = ser_state(m), (ser_state(vtwin) if not e2 else e2)
            stats['vegtwins'] += 1
            if s1 != s2:
                viol('off season: the pass depends on vegetation data', {'differs': diff_tokens(s1, s2) if not e2 else e2,
                                                                       'month': m.simTime.month}, None, 'identical post-state')
        # ---------------- branch statistics
        stats['sun'][('sun' if row[8] + row[9] > 0 else 'no-sun')] += 1
        stats['season'][('off' if off else 'in')] += 1
        for b in m.BEM:
            stats['hvac'][branch_of(b) + '/' + b.building.condtype] += 1
            stats['load'][('zero' if b.building.int_heat_day == 0 else 'positive')] += 1
        stats['windmin'][('active' if row[1] < windmin else 'inactive')] += 1
        stats['veg'][('zero' if u.vegcover == 0 else 'some')] += 1
        stats['nsoil'][('<3' if m.nSoil < 3 else '>=3')] += 1
        stats['daytype'][m.dayType] += 1
        stats['recorded'][(int(m.simTime.secDay) % 3600 == 0)] += 1
        stats['month-change'][(m.simTime.month != month_pre)] += 1
        stats['nb'][len(m.BEM)] += 1
        if nsteps > 1:
            # a fresh forcing row for the next pass (the same list index is read again)
            for a in ROW:
                getattr(m.forcIP, a)[0] = getattr(m.forcIP, a)[1 + k]
    return cases


def float_oracle(chk, viol):
    """The same step-level statements on the plain (double precision) package: a few real passes of the real
    loop on real objects, checked after every pass (the exact tie cannot see what only floats do)."""
    import uwgutil as U
    n = 0
    for (mo, dy, dt, passes) in [(1, 1, 300, 14), (6, 30, 600, 8)] + ([(9, 30, 300, 300)] if chk.tier == 'thorough' else []):
        m = U.new_model(month=mo, day=dy, nday=2, dtsim=dt)
        with core.quiet():
            m.generate()
        if mo == 6:
            m.geoParam.windMin = 4.0
        for k in range(passes):
            # one pass at a time on the same object; `it` restarts at 1, so rotate the table instead
            row = [getattr(m.forcIP, a)[0] for a in ROW]
            m.simTime.nt = 2
            try:
                with core.quiet():
                    m.simulate()
            except Exception as e:        # the model's own fail-stop is not a verdict here
                chk.notes.append('float oracle run %s stopped: %s' % ((mo, dy, dt), str(e)[:60]))
                break
            n += 1
            u = m.UCM
            wexp = max(row[1], m.geoParam.windMin)
            want = dict(zip(ROW, row), wind=wexp)
            if u.canHum != row[3] or any(getattr(m.forc, a) != want[a] for a in ROW):
                viol('float run: canHum / wind / temp of the pass vs the current row', {'start': (mo, dy), 'dt': dt, 'pass': k},
                     (u.canHum, m.forc.wind, m.forc.temp), (row[3], wexp, row[5]))
            if m.UCMData[0] is not None and (m.UCMData[0].canTemp != u.canTemp or m.WeatherData[0].wind != wexp):
                viol('float run: record = state after the pass', {'start': (mo, dy), 'pass': k}, None, None)
            off = m.simTime.month < m.geoParam.vegStart or m.simTime.month > m.geoParam.vegEnd
            if off and (u.treeSensHeat != 0 or u.treeLatHeat != 0):
                viol('float run: vegetation heat off season', {'start': (mo, dy), 'pass': k}, u.treeSensHeat, 0)
            for b in m.BEM:
                bb = b.building
                if (bb.Qheat != 0 or bb.heatConsump != 0) and (bb.Qhvac != 0 or bb.coolConsump != 0):
                    viol('float run: never both heating and cooling', {'start': (mo, dy), 'pass': k}, (bb.Qheat, bb.Qhvac), None)
            if not (200 <= u.canTemp <= 350):
                viol('float run: canyon temperature outside 200..350 K after a returning pass', {'pass': k}, u.canTemp, None)
            for a in ROW:
                lst = getattr(m.forcIP, a)
                lst.append(lst.pop(0))
    return n


def one_call_two_passes(m, stats, viol):
    """dt = 3600: ONE call of the real simulate() that runs two passes (it = 1, 2), so the loop itself selects rows
    0 and 1 of the table and stores two records; the Lean side runs two traces over the same two-row table."""
    st = m.simTime
    assert st.dt == 3600 and st.secDay % 3600 == 0 and st.secDay <= 20 * 3600
    cfg0, pre, deep = ser_cfg(m), ser_state(m), pre_deep(m)
    rows = [row_of(m, 0), row_of(m, 1)]
    clocks = ['[%d;%d;%d;%d;%d;1;%d]' % (st.secDay + 3600 * (k + 1), st.secDay // 3600 + k + 1, st.month, st.day,
                                        st.julian, k) for k in range(2)]
    err = run_body(m, 2)
    line = 'run n=2 tab=%s clock0=%s clock1=%s deep0=%s deep1=%s %s %s' % (
        table(rows), clocks[0], clocks[1], frac_list(deep), frac_list(deep), cfg0, pre)
    stats['steps'] += 2
    stats['onecall'][err or 'ok'] += 1
    if err:
        stats['err'] += 1
        stats['raised'][err + '@' + str(m._raised_in)] += 1
        return [(line, err)]
    if m.ceil_time_step != 1 or m.UCMData[1] is None or m.UCMData[2] is not None:
        viol('two passes at dt = 3600 read rows 0, 1 and store records 0, 1', {'dt': 3600},
             'ceil_time_step=%s' % m.ceil_time_step, 'ceil_time_step=1, two records')
    for k in range(2):
        if m.WeatherData[k].temp != rows[k][5] or m.UCMData[k].canHum != rows[k][3]:
            viol('record k is made from row k of the table', {'k': k}, str(m.WeatherData[k].temp), str(rows[k][5]))
    return [(line, 'ok %s recs=%s' % (ser_state(m), rec_str(m, 2)))]


def classify(line, impl):
    """Branch label of a case, read off the protocol line and the implementation's answer."""
    if impl.startswith('err'):
        return impl
    tl, ta = tokens(line), tokens(impl)
    row = tl['tab'].strip('[]').split('|')[0].split(';')
    sun = 'sun' if F(row[8]) + F(row[9]) > 0 else 'no-sun'
    month = int(tl['clock0'].strip('[]').split(';')[2])
    season = 'off-season' if month < int(tl['vegStart']) or month > int(tl['vegEnd']) else 'in-season'
    hv = 'no-building'
    if 'b0out' in ta and ta['b0out'] != 'none':
        o = ta['b0out'].strip('[]').split(';')
        sc, qhvac, qheat = F(o[2]), F(o[5]), F(o[6])
        hv = 'cool' if qhvac > 0 else 'heat' if qheat > 0 else 'free-cooling' if sc > 0 else 'idle'
        hv += '/' + ta['b0cond']
    return 'ok %s %s %s' % (sun, season, hv)


def run_step(chk, n_quick=30, n_thorough=160):
    import collections
    rng = chk.rng
    pkg = load_pkg()
    work = chk.work()
    n = n_quick if chk.tier == 'quick' else n_thorough
    stats = {k: collections.Counter() for k in ('sun', 'season', 'hvac', 'load', 'windmin', 'veg', 'nsoil',
                                                 'daytype', 'recorded', 'month-change', 'nb', 'raised', 'onecall')}
    stats.update(steps=0, err=0, twins=0, vegtwins=0)
    nviol = [0]

    def viol(what, case, observed, expected):
        nviol[0] += 1
        chk.violation('impl-violation', 'step oracle: ' + what, case=case, observed=observed, expected=expected)

    cases = []
    t_py = time.time()
    for i in range(n):
        sp = gen_spec(rng, i)
        sp['twin'] = (i % 3 == 0)
        sp['vegtwin'] = sp['season'] != 'in' and not sp['veg0'] and (i % 2 == 0 or chk.tier != 'quick')
        if i % (36 if chk.tier == 'quick' else 12) == 7:
            # two passes inside ONE simulate() call (dt = 3600: rows 0 and 1, records 0 and 1)
            sp.update(onecall=True, small=True, nb=1, layers=2, dt=3600, record=True, midnight=False, twin=False,
                      climate='cold')
        elif i % (36 if chk.tier == 'quick' else 6) == 1:
            # two consecutive passes on one object: exact rationals grow fast (the second pass costs the Lean
            # interpreter ~8 s), so a small city and only one such case (plus the one-call case) in the quick tier
            sp.update(steps=2, small=True, nb=1, layers=2)
        cases += one_case(chk, pkg, rng, work, sp, 'c%d' % i, stats, viol)
    for j, e in enumerate(EDGES):
        sp = gen_spec(rng, j)
        sp['edge'] = e
        sp['twin'] = False
        if e in ('short-sched',):
            sp['nb'] = 2
        cases += one_case(chk, pkg, rng, work, sp, 'e%d' % j, stats, viol)
    t_py = time.time() - t_py
    t_lean = time.time()
    chk.correspond(
        'simulate-loop-body~Step.step', 'Step', cases,
        rule='the REAL loop body of UWG.simulate (fractionised package, real UWG object after generate(), one pass '
             'per case, two consecutive passes on the same object for every sixth case) vs Uwg.Step.step run through '
             'Sim.runSteps (Step.phys stubQ C): complete post-state and records, or the exception class, exactly',
        classify=classify)
    chk.measurements['step_tie_seconds'] = {'real loop body (python, exact)': round(t_py, 1),
                                            'lean driver': round(time.time() - t_lean, 1)}
    expected = {'sun': ['sun', 'no-sun'], 'season': ['in', 'off'], 'load': ['zero', 'positive'],
                'windmin': ['active', 'inactive'], 'veg': ['zero', 'some'], 'nsoil': ['<3', '>=3'], 'daytype': [1, 2, 3],
                'recorded': [True, False], 'month-change': [True, False], 'nb': [1, 2, 3]}
    missing = ['%s=%s' % (k, x) for k, xs in expected.items() for x in xs if not stats[k][x]]
    for br in ('cool', 'cool-lim', 'heat', 'heat-lim', 'idle', 'free'):
        if not any(key.startswith(br + '/') for key in stats['hvac']):
            missing.append('hvac=' + br)
    for ct in ('AIR', 'WATER'):
        if not any(key.endswith('/' + ct) for key in stats['hvac']):
            missing.append('condenser=' + ct)
    if missing:
        chk.notes.append('step generator: branches not reached in this run: ' + ', '.join(missing))
    flat = {}
    for k, v in stats.items():
        flat[k] = dict((str(a), b) for a, b in v.items()) if hasattr(v, 'items') else v
    flat['not_reached'] = missing
    chk.extra_cov['step_branches'] = flat
    chk.assumptions.append(
        'composition C (Model/Step.lean): the loop body is ONE Lean function composed of the kernel models and tied '
        'exactly to the real loop body; uninterpreted are only the libm symbols (Sym). Outside the exact tie: '
        'int(charLength)//int(paralLength) is a constant of the configuration (computed by Air.loopCount in the driver); '
        'an Element is one list of layers (its four parallel lists have equal lengths by the constructor); zero '
        'divisors INSIDE Conduction / invert (conductivity, thickness or dt = 0) and a negative base of ** with a '
        'fractional exponent (complex numbers in CPython) are not mirrored, as in the C11 / C15 / C16 kernels; '
        'the copies stored at record steps are shallow (UCMData[n].road, RSMData[n] profiles alias the live objects) - '
        'the model records what write_epw uses: canTemp, Tdp, canRHum, wind')
    nv0 = nviol[0]
    nfloat = float_oracle(chk, viol)
    nvf = nviol[0] - nv0
    chk.direct('step-oracles(float passes of the plain package)', nfloat, nfloat,
               'real double-precision passes of the real loop, one at a time on one object (two starts, windMin active in '
               'one): canHum / wind / temperature of the pass = current row, record = state after the pass, no vegetation '
               'heat off season, never both heating and cooling, 200 <= canTemp <= 350', mismatches=nvf)
    chk.direct('step-oracles(frame, footprint twins, canHum, wind, never-both, off-season)', stats['steps'],
               stats['steps'] - stats['err'],
               'on the real results of every generated step: constants unchanged; post-state identical when all other '
               'forcing rows are replaced (%d twins); canHum = row humidity; recorded wind = max(row wind, windMin); '
               'no building heats and cools; off season no vegetation heat and the same post-state with other vegetation '
               'data (%d twins)' % (stats['twins'], stats['vegtwins']),
               mismatches=nviol[0] - nvf, branches=flat)
    return stats
