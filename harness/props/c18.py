"""C18 - vegetation acts exactly in the configured season, consistently."""
from fractions import Fraction as F
from types import SimpleNamespace as NS

import core
import fracexec
import u4_util as U4
from fracexec import frac_str, frac_list

MODULE = 'UwgVerif.Props.C18'
THEOREMS = ['Uwg.C18.season_agree', 'Uwg.C18.in_season_iff', 'Uwg.C18.wraparound_never_in_season',
            'Uwg.C18.off_season_bare', 'Uwg.C18.off_season_formula', 'Uwg.C18.off_season_road_albedo',
            'Uwg.C18.in_season_formula', 'Uwg.C18.in_season_partition_nonroad',
            'Uwg.C18.in_season_road_albedo', 'Uwg.C18.off_season_no_veg_heat', 'Uwg.C18.in_season_veg_heat_partition',
            'Uwg.C18.asis_never_off', 'Uwg.C18.asis_disagrees']


def rq(rng, lo, hi, den=100):
    return F(rng.randint(int(lo * den), int(hi * den)), den)


def make_element(pkg, st, road):
    Element, Material = pkg.element.Element, pkg.material.Material
    mats = [Material(F(1), F(1600000), 'm'), Material(F(1), F(1600000), 'm')]
    e = Element(st['alb'], F(9, 10), [F(1, 20), F(1, 20)], mats, st['vc'], st['ts'], 1, 'x')
    if road:
        e.grasscoverage = st['g']
        e.treecoverage = st['t']
    e.solRec = st['solRec']
    e.infra = st['infra']
    return e


def surf_state(rng):
    return dict(alb=rq(rng, 0.05, 0.6), vc=rq(rng, 0, 1), g=rq(rng, 0, 0.5), t=rq(rng, 0, 0.5),
                solRec=rq(rng, 0, 900, 1), infra=rq(rng, -120, 60, 1), ts=rq(rng, 270, 320, 10),
                tr=rq(rng, 270, 315, 10), va=rq(rng, 0.1, 0.4), gf=rq(rng, 0.2, 0.7),
                tf=rq(rng, 0.3, 0.8), wind=rq(rng, 0, 8, 10))


DAYS = [1, 1, 15, 28, 29, 30, 31]


def clock(pkg, rng, m):
    """A REAL SimParam (clock) showing month m and a start day 1..31 - the package accepts every such pair,
    also days beyond the end of the month (2/30, 4/31: the clock then shows month m, day 31, while the day of
    the year lies in the next month). C18 is stated on the clock's month."""
    return pkg.simparam.SimParam(300, 3600, m, rng.choice(DAYS), 1)


def impl_surf(pkg, st, road, m, s, e, sim=None, circ=''):
    """circ: circumstance that is no input - the Element and the clock rendered (repr / str) right before the call
    and again before the results are read, DEBUG logging on around the call"""
    el = make_element(pkg, st, road)
    forc = NS(pres=F(101325), prec=F(0), deepTemp=F(290))
    par = NS(vegStart=s, vegEnd=e, vegAlbedo=st['va'], grassFLat=st['gf'], treeFLat=st['tf'],
             colburn=F(1), waterDens=F(1000), cp=F(1004), lv=F(2260000), wgmax=F(1, 200))
    sim = sim or NS(month=m, dt=F(300))
    if U4.rendered(circ):
        U4.observe(el, sim)
    with U4.under(circ):
        el.SurfFlux(forc, par, sim, F(1, 100), st['tr'], st['wind'], F(2), F(0))
    if U4.rendered(circ):
        U4.observe(el, sim)
    return [el.solAbs, el.lat, el.sens, el.flux], el.aeroCond


def surf_line(st, road, m, s, e, aero):
    v = [st['alb'], st['vc'], st['g'], st['t'], st['solRec'], st['infra'], F(0), aero, st['ts'],
         st['tr'], st['va'], st['gf'], st['tf']]
    return 'surf m=%d s=%d e=%d road=%d v=%s' % (m, s, e, 1 if road else 0, frac_list(v))


# sites a rural file may state (latitude, longitude, time zone): the reference-site object handed to SolarCalcs carries
# them as the real RSMDef does; the season is configured in calendar months - the site is no input of it
STANDIN_SITES = [(F(137, 100), F(10398, 100), F(8)), (F(-3395, 100), F(15118, 100), F(10)), (F(4237, 100), F(-7103, 100), F(-5)),
                 (F(-137, 100), F(10398, 100), F(8)), (F(0), F(0), F(0)), (F(-548, 10), F(-683, 10), F(-3)),
                 (F(64), F(-219, 10), F(0))]


def standin_site(m, s, e):
    return STANDIN_SITES[(5 * m + 3 * s + e) % len(STANDIN_SITES)]


def impl_road_albedo(pkg, m, s, e, alb, vc, va, full=False, sim=None, circ='', site=None):
    """Road albedo used by the real solarcalcs, read off `mr` with non-reflecting walls
    (alb_wall = 0 gives fr = 1 and mr = alb_road * roadSol exactly)."""
    SolarCalcs = pkg.solarcalcs.SolarCalcs
    road = NS(albedo=alb, vegcoverage=vc, solRec=F(0))
    # (treeSensHeat / treeLatHeat as a PREVIOUS in-season sunlit step left them: a call that does not assign them
    #  off season keeps this stale vegetation heat in the canyon balance)
    UCM = NS(canAspect=F(3, 4), wallConf=F(1, 4), roadConf=F(1, 2), alb_wall=F(0), road=road,
             vegcover=vc * F(1, 2), treeCoverage=F(1, 10), treeSensHeat=F(7919, 100), treeLatHeat=F(4973, 100))
    par = NS(vegStart=s, vegEnd=e, vegAlbedo=va, treeFLat=F(1, 2), grassFLat=F(2, 5))
    lat, lon, gmt = site or standin_site(m, s, e)
    rsm = NS(lat=lat, lon=lon, gmt=gmt, GMT=gmt, height=F(10), z0r=F(1), disp=F(5))
    sol = SolarCalcs(UCM, [], sim or NS(month=m), rsm, NS(dir=F(500), dif=F(100)), par, NS(solRec=F(0)))

    def angles():
        sol.zenith = F(1, 2)
        sol.tanzen = F(1, 2)
        sol.critOrient = F(1)
    sol.solarangles = angles
    if U4.rendered(circ):
        U4.observe(sol, sim)
    with U4.under(circ):
        sol.solarcalcs()
    if U4.rendered(circ):
        U4.observe(sol, sim)
    if full:
        return (sol.mr / sol.roadSol, UCM.treeSensHeat, UCM.treeLatHeat, UCM.SolRecRoad,
                UCM.treeCoverage, UCM.vegcover, par.treeFLat, par.grassFLat)
    return sol.mr / sol.roadSol


def live_season_runs(chk):
    """Real simulations that cross the start and the end of the vegetation season within one
    simulate() call. Property-level oracles per step, from outside:
      * every horizontal Element.SurfFlux: bare-ground absorption exactly outside the season,
        vegetated absorption inside (month of the step from the clock);
      * SolarCalcs.solarcalcs: vegetation heat is 0 outside the season, and its result equals what a
        freshly constructed SolarCalcs computes at that very step (no state carried across steps)."""
    import core
    import uwgutil as U
    uwg = U.uwg_mod()
    import uwg.solarcalcs as SC
    import uwg.element as EL
    work = chk.work()
    runs = [(3, 31, 2, 4, 10), (10, 31, 2, 4, 10)] if chk.tier == 'quick' else \
        [(3, 31, 2, 4, 10), (10, 31, 2, 4, 10), (5, 31, 2, 6, 6), (6, 30, 2, 6, 6), (12, 30, 2, 2, 12), (1, 31, 2, 2, 12)]
    bad, nsteps = [], [0]
    orig_solar = SC.SolarCalcs.solarcalcs
    orig_surf = EL.Element.SurfFlux

    def snap(sol):
        u = sol.UCM
        return (u.road.solRec, u.treeSensHeat, u.treeLatHeat, sol.rural.solRec,
                tuple(b.wall.solRec for b in sol.BEM), tuple(b.roof.solRec for b in sol.BEM),
                u.SolRecRoad, u.SolRecWall)

    def solar_wrap(self):
        out = orig_solar(self)
        a = snap(self)
        p, mth = self.parameter, self.simTime.month
        off = mth < p.vegStart or mth > p.vegEnd
        nsteps[0] += 1
        if off and (self.UCM.treeSensHeat != 0 or self.UCM.treeLatHeat != 0) and len(bad) < 3:
            bad.append(('vegetation heat %r released in month %d outside season %d..%d' % (
                self.UCM.treeSensHeat, mth, p.vegStart, p.vegEnd), mth))
        fresh = SC.SolarCalcs(self.UCM, self.BEM, self.simTime, self.RSM, self.forc, self.parameter, self.rural)
        orig_solar(fresh)
        b = snap(fresh)
        if a != b and len(bad) < 3:
            bad.append(('solarcalcs result in month %d differs from a freshly constructed SolarCalcs at the same '
                        'step: %r vs %r' % (mth, a[:3], b[:3]), mth))
        return out

    def surf_wrap(self, forc, parameter, simTime, *a, **k):
        r = orig_surf(self, forc, parameter, simTime, *a, **k)
        if self.horizontal and self.solRec > 0 and self.vegcoverage > 0 and parameter.vegAlbedo != self.albedo:
            mth = simTime.month
            off = mth < parameter.vegStart or mth > parameter.vegEnd
            bare = (1.0 - self.albedo) * self.solRec
            if (self.solAbs == bare) != off and len(bad) < 3:
                bad.append(('%s: absorbed %r in month %d (season %d..%d) is %s the bare-ground value' % (
                    self.name, self.solAbs, mth, parameter.vegStart, parameter.vegEnd,
                    'equal to' if self.solAbs == bare else 'not'), mth))
        return r
    SC.SolarCalcs.solarcalcs = solar_wrap
    EL.Element.SurfFlux = surf_wrap
    done = 0
    try:
        for (mo, dy, nd, vs, ve) in runs:
            m = U.new_model(outdir=work, outname='c18.epw', month=mo, day=dy, nday=nd, dtsim=300,
                            vegstart=vs, vegend=ve)
            nb = len(bad)
            try:
                with core.quiet():
                    m.generate()
                    m.simulate()
                done += 1
            except Exception as e:  # the model's own fail-stop is not a verdict here
                chk.notes.append('live season run %s skipped: %s' % ((mo, dy), str(e)[:60]))
            for msg, mth in bad[nb:]:
                chk.violation('impl-violation', 'season oracle on a live simulation crossing the season boundary',
                              case={'start': [mo, dy], 'nday': nd, 'vegstart': vs, 'vegend': ve, 'month': mth},
                              observed=msg, expected='vegetation acts exactly in months vegstart..vegend, and '
                                                     'the reflection model follows the current month')
    finally:
        SC.SolarCalcs.solarcalcs = orig_solar
        EL.Element.SurfFlux = orig_surf
    chk.direct('live-season-crossing(simulate)', nsteps[0], done,
               'real 2-day simulations starting on the last day before / of the season (31 Mar, 31 Oct, ...): every '
               'solarcalcs and horizontal SurfFlux call checked against the season of the step\'s calendar month and '
               'against a freshly constructed SolarCalcs', mismatches=len(bad))


def live_configured_season_runs(chk):
    """Real 1-day simulations judged against the CONFIGURED season (model.vegstart..model.vegend, not the Param
    object the kernels are handed) and the month the clock shows:
      * start days beyond the end of the start month (2/29, 2/30, 4/31, 6/31, 9/31, 11/31 - all accepted by the
        package; the clock keeps the start month while the day of the year already lies in the next month) with the
        season starting the month after / ending in the start month, plus ordinary start days as controls;
      * configurations without any vegetated ground (grasscover = treecover = rurvegcover = 0) but vegetated roofs
        (the vegroof override, or a custom reference building whose roof is vegetated), and the partial variants.
    Per step: every horizontal element with vegetation (road, rural ground, ROOFS) absorbs the vegetated amount
    exactly in season and the bare-ground amount outside; the reflection model releases vegetation heat exactly
    in season (when the road has vegetation and sunlight) - i.e. both models agree with the clock month."""
    import core
    import s3_util as S3
    import uwgutil as U
    uwg = U.uwg_mod()
    import uwg.solarcalcs as SC
    import uwg.element as EL
    work = chk.work()
    odd = [dict(month=4, day=31, vegstart=5, vegend=10), dict(month=2, day=30, vegstart=3, vegend=12),
           dict(month=2, day=30, vegstart=1, vegend=2), dict(month=6, day=31, vegstart=4, vegend=6),
           dict(month=4, day=31, vegstart=4, vegend=4), dict(month=4, day=30, vegstart=5, vegend=10),
           dict(month=5, day=1, vegstart=5, vegend=10)]
    noground = dict(grasscover=0, treecover=0, rurvegcover=0)
    roofs = [dict(noground, month=7, day=10, vegstart=4, vegend=10, vegroof=0.5),
             dict(noground, month=4, day=1, vegstart=4, vegend=10, vegroof=1.0),
             dict(noground, month=2, day=10, vegstart=4, vegend=10, vegroof=0.5),
             dict(noground, month=7, day=10, vegstart=4, vegend=10, custom_roof=0.6),
             dict(month=7, day=10, vegstart=4, vegend=10, vegroof=0.5, grasscover=0, treecover=0),
             dict(month=10, day=31, vegstart=4, vegend=10, vegroof=0.3, rurvegcover=0, grasscover=0.0, treecover=0.1)]
    if chk.tier == 'thorough':
        odd += [dict(month=2, day=29, vegstart=3, vegend=12), dict(month=2, day=31, vegstart=3, vegend=11),
                dict(month=9, day=31, vegstart=10, vegend=12), dict(month=11, day=31, vegstart=12, vegend=12),
                dict(month=11, day=31, vegstart=1, vegend=11), dict(month=9, day=31, vegstart=1, vegend=9),
                dict(month=6, day=31, vegstart=7, vegend=7), dict(month=1, day=31, vegstart=2, vegend=12)]
        roofs += [dict(noground, month=mo, day=15, vegstart=4, vegend=10, vegroof=0.5) for mo in (3, 4, 10, 11)]
        roofs += [dict(noground, month=6, day=15, vegstart=6, vegend=6, custom_roof=1.0),
                  dict(noground, month=12, day=1, vegstart=1, vegend=12, vegroof=0.25)]
    bad, counts = [], {}
    cur = {}
    orig_solar = SC.SolarCalcs.solarcalcs
    orig_surf = EL.Element.SurfFlux

    def count(k):
        counts[k] = counts.get(k, 0) + 1

    def solar_wrap(self):
        out = orig_solar(self)
        if self.dir + self.dif > 0:
            mth = self.simTime.month
            ins = cur['vs'] <= mth <= cur['ve']
            heat = (self.UCM.treeSensHeat, self.UCM.treeLatHeat)
            if not ins:
                count('solarcalcs:off-season')
                if heat != (0., 0.) and len(bad) < 3:
                    bad.append('reflection model releases vegetation heat %r with the clock at month %d day %s, '
                               'outside the configured season %d..%d' % (heat, mth, self.simTime.day, cur['vs'], cur['ve']))
            elif self.UCM.vegcover > 0 and self.UCM.SolRecRoad > 0 and self.parameter.vegAlbedo < 1:
                count('solarcalcs:in-season')
                if not (heat[0] + heat[1] > 0) and len(bad) < 3:
                    bad.append('reflection model treats the road as bare (vegetation heat %r) with the clock at month '
                               '%d day %s, inside the configured season %d..%d' % (
                                   heat, mth, self.simTime.day, cur['vs'], cur['ve']))
        return out

    def surf_wrap(self, forc, parameter, simTime, *a, **k):
        r = orig_surf(self, forc, parameter, simTime, *a, **k)
        if self.horizontal and self.solRec > 0 and self.vegcoverage > 0 and parameter.vegAlbedo != self.albedo:
            mth = simTime.month
            ins = cur['vs'] <= mth <= cur['ve']
            kind = cur['kinds'].get(id(self), 'other')
            count('%s:%s' % (kind, 'in-season' if ins else 'off-season'))
            bare = (1.0 - self.albedo) * self.solRec
            if (self.solAbs == bare) == ins and len(bad) < 3:
                bad.append('%s (%s): absorbed sunlight %r is %s the bare-ground value with the clock at month %d day %s; '
                           'configured season %d..%d (season handed to the kernels: %s..%s)' % (
                               kind, self.name, self.solAbs, 'equal to' if self.solAbs == bare else 'not', mth,
                               simTime.day, cur['vs'], cur['ve'], parameter.vegStart, parameter.vegEnd))
        return r
    SC.SolarCalcs.solarcalcs = solar_wrap
    EL.Element.SurfFlux = surf_wrap
    done = 0
    try:
        for cfg in odd + roofs:
            attrs = {k: v for k, v in cfg.items() if k != 'custom_roof'}
            m = U.new_model(outdir=work, outname='c18b.epw', nday=1, dtsim=300, **attrs)
            if 'custom_roof' in cfg:
                bem, sch = S3.custom_from_library(uwg)
                bem.roof.vegcoverage = cfg['custom_roof']
                m.ref_bem_vector, m.ref_sch_vector = m._check_reference_data([bem], [sch])
            nb = len(bad)
            try:
                with core.quiet():
                    m.generate()
                    cur.update(vs=m.vegstart, ve=m.vegend, kinds={id(m.UCM.road): 'road', id(m.rural): 'rural'})
                    for b in m.BEM:
                        cur['kinds'][id(b.roof)] = 'roof'
                    m.simulate()
                done += 1
            except Exception as e:  # noqa: BLE001 - the model's own fail-stop is not a verdict here
                if type(e) is not Exception:
                    raise
                chk.notes.append('configured-season run %s skipped: %s' % (cfg, str(e)[:60]))
            for msg in bad[nb:]:
                chk.violation('impl-violation', 'season oracle on a live simulation (configured season, clock month)',
                              case=cfg, observed=msg,
                              expected='vegetation acts on every vegetated horizontal surface (road, rural ground, '
                                       'roofs) in exactly the months vegstart..vegend shown by the clock, and the '
                                       'reflection model agrees')
    finally:
        SC.SolarCalcs.solarcalcs = orig_solar
        EL.Element.SurfFlux = orig_surf
    if done and not counts.get('roof:in-season'):
        raise core.Infra('no vegetated roof was simulated in season')
    chk.direct('live-configured-season(odd start days; vegetated roofs without vegetated ground)',
               sum(counts.values()), done,
               'real 1-day simulations (a) starting on days beyond the end of the start month (4/31, 2/30, 6/31, ... '
               'accepted by the package; the clock shows the start month) with the season beginning the month after or '
               'ending in that month, plus ordinary starts; (b) with grasscover = treecover = rurvegcover = 0 and '
               'vegetated roofs (vegroof override or custom reference roof), and partial variants: every solarcalcs '
               'call and every SurfFlux call of a vegetated horizontal element (road, rural, roofs) judged against '
               'the configured vegstart..vegend and the clock month', mismatches=len(bad), branches=counts)


# ------------------------------------------------------------------------------ circumstances (round 4)
MDAYS = [31, 28, 31, 30, 31, 30, 31, 31, 30, 31, 30, 31]


def true_month(cfg, k):
    """calendar month (365-day year) of the instant k steps after the start of the run - what the step's clock shows
    by the time the physics runs (simulate advances the clock first). None for start days beyond the end of the
    start month (there the package's own clock is the only reference)."""
    if cfg['day0'] > MDAYS[cfg['month0'] - 1]:
        return None
    doy = sum(MDAYS[:cfg['month0'] - 1]) + cfg['day0'] - 1 + int(k * cfg['dt'] // 86400)
    doy %= 365
    mth = 0
    while doy >= MDAYS[mth]:
        doy -= MDAYS[mth]
        mth += 1
    return mth + 1


def u4_install(sink, ctx):
    """season oracle around every solarcalcs and every horizontal SurfFlux call, judged against the CONFIGURED season
    (model.vegstart..vegend) and the calendar month of the step computed from the configured start date and the number
    of steps taken - not from the Param object or the clock the kernels are handed"""
    core.repo_python_path()
    import uwg.solarcalcs as SC
    import uwg.element as EL
    orig_solar, orig_surf = SC.SolarCalcs.solarcalcs, EL.Element.SurfFlux
    ctx['k'] = 0

    def where(sim, cfg, tm):
        return 'step %d of a run started %d/%d (dt %s s): calendar month %s; the model clock shows month %s day %s; ' \
               'configured season %d..%d' % (ctx['k'], cfg['month0'], cfg['day0'], cfg['dt'], tm, sim.month, sim.day,
                                              cfg['vs'], cfg['ve'])

    def solar_wrap(self):
        out = orig_solar(self)
        cfg = ctx.get('cfg')
        if cfg is None:
            return out
        ctx['k'] += 1
        tm = true_month(cfg, ctx['k'])
        tm = self.simTime.month if tm is None else tm
        ctx['tm'] = tm
        if self.dir + self.dif > 0:
            ins = cfg['vs'] <= tm <= cfg['ve']
            heat = (self.UCM.treeSensHeat, self.UCM.treeLatHeat)
            if not ins:
                sink('solarcalcs:off-season', None if heat == (0., 0.) else
                     'reflection model releases vegetation heat %r outside the configured season; %s; season handed to '
                     'the kernels %s..%s' % (heat, where(self.simTime, cfg, tm), self.parameter.vegStart,
                                              self.parameter.vegEnd))
            elif self.UCM.vegcover > 0 and self.UCM.SolRecRoad > 0 and self.parameter.vegAlbedo < 1:
                sink('solarcalcs:in-season', None if heat[0] + heat[1] > 0 else
                     'reflection model treats the road as bare (vegetation heat %r) inside the configured season; %s; '
                     'season handed to the kernels %s..%s' % (heat, where(self.simTime, cfg, tm),
                                                               self.parameter.vegStart, self.parameter.vegEnd))
        return out

    def surf_wrap(self, forc, parameter, simTime, *a, **k):
        r = orig_surf(self, forc, parameter, simTime, *a, **k)
        cfg = ctx.get('cfg')
        if cfg is not None and 'tm' in ctx and self.horizontal and self.solRec > 0 and self.vegcoverage > 0 \
                and parameter.vegAlbedo != self.albedo:
            tm = ctx['tm']
            ins = cfg['vs'] <= tm <= cfg['ve']
            kind = cfg['kinds'].get(id(self), 'other')
            bare = (1.0 - self.albedo) * self.solRec
            sink('%s:%s' % (kind, 'in-season' if ins else 'off-season'), None if (self.solAbs == bare) != ins else
                 '%s (%s): absorbed sunlight %r is %s the bare-ground value; %s; season handed to the kernels %s..%s' % (
                     kind, self.name, self.solAbs, 'equal to' if self.solAbs == bare else 'not',
                     where(simTime, cfg, tm), parameter.vegStart, parameter.vegEnd))
        return r
    SC.SolarCalcs.solarcalcs = solar_wrap
    EL.Element.SurfFlux = surf_wrap

    def undo():
        SC.SolarCalcs.solarcalcs = orig_solar
        EL.Element.SurfFlux = orig_surf
    return undo


def u4_after_generate(m, spec, sink, ctx):
    kinds = {id(m.UCM.road): 'road', id(m.rural): 'rural'}
    for b in m.BEM:
        kinds[id(b.roof)] = 'roof'
    ctx['cfg'] = dict(vs=m.vegstart, ve=m.vegend, month0=m.month, day0=m.day, dt=m.dtsim, kinds=kinds)
    p = m.geoParam
    sink('generate:season-handed-to-the-kernels',
         None if (p.vegStart, p.vegEnd) == (m.vegstart, m.vegend) else
         'generate() hands the season %s..%s to the kernels; configured: vegstart %s, vegend %s (rural file: latitude '
         '%s, longitude %s, time zone %s)' % (p.vegStart, p.vegEnd, m.vegstart, m.vegend, m.lat, m.lon, m.gmt))


U4_HOOKS = U4.Hooks(install=u4_install, after_generate=u4_after_generate,
                    kernels=[('uwg.solarcalcs', 'SolarCalcs', 'solarcalcs', ()),
                             ('uwg.element', 'Element', 'SurfFlux', (1, 2, 3))])


def circumstance_ties(chk, quick):
    """(a) the six circumstances on live runs crossing / inside / outside the season; (b) the rural-file family: the
    same season oracle on files whose LOCATION cells (latitude, longitude, time zone, elevation) take legal values no
    shipped file has - the season is configured in calendar months, the site is no input of it."""
    import os
    import uwgutil as U
    work = chk.work()
    src = U.rp(U4.SGP[1])
    files = {k: U4.site_file(src, os.path.join(work, 'site_%s.epw' % k), k, 'actual-year-header' if n % 2 else 'base')
             for n, k in enumerate(sorted(U4.SITES))}
    scen = [U4.make_spec('31 Mar + 2 days, season 4..10 (starts on day 2)', month=3, day=31, nday=2, dtsim=300,
                         vegstart=4, vegend=10),
            U4.make_spec('31 Oct + 2 days, season 4..10 (ends after day 1), site south-33.9-east',
                         epw=files['south-33.9-east'], month=10, day=31, nday=2, dtsim=300, vegstart=4, vegend=10),
            U4.make_spec('10 Jul, season 4..10, vegetated roofs only (no ground vegetation)', month=7, day=10, nday=1,
                         dtsim=300, vegstart=4, vegend=10, grasscover=0, treecover=0, rurvegcover=0, vegroof=0.5)]
    if not quick:
        scen += [U4.make_spec('28 Feb + 2 days, season 3..3', month=2, day=28, nday=2, dtsim=300, vegstart=3, vegend=3),
                 U4.make_spec('30 Jun + 2 days, season 1..6, site north-40-west', epw=files['north-40-west-negative-tz'],
                              month=6, day=30, nday=2, dtsim=300, vegstart=1, vegend=6)]
    counts, nbad, _ = U4.live_battery(
        chk, 'C18', U4_HOOKS, scen, U4.others_default(work), 'season oracle on live runs',
        full=1 if quick else len(scen), required=('generate:season',))
    if not (counts.get('oracle:road:in-season') and counts.get('oracle:road:off-season') and
            counts.get('oracle:roof:in-season') and counts.get('oracle:rural:in-season')):
        raise core.Infra('the season scenarios no longer cover road / rural / roof in and off season: %s' % counts)
    chk.direct('C18-circumstances(live runs: observers, logging, -O, CLI, other models, caller data)',
               sum(counts.values()), len(scen),
               'oracle = at every solarcalcs call and every SurfFlux call of a vegetated horizontal element (road, rural '
               'ground, roofs): vegetation acts exactly when the CALENDAR month of the step - computed from the '
               'configured start date and the number of steps taken, not read from the clock or the Param object the '
               'kernels are handed - lies in the configured vegstart..vegend; after generate() the season handed to the '
               'kernels is the configured one. Scenarios: %s. %s' % ('; '.join(s_['label'] for s_ in scen),
                                                                    U4.BATTERY_RULE), mismatches=nbad, branches=counts)
    # (b) the site family
    cases = []
    months = [(7, 4, 10), (1, 4, 10), (1, 1, 6), (11, 5, 11), (5, 5, 5), (12, 1, 11)]
    for n, site in enumerate(sorted(U4.SITES)):
        picks = [months[n % len(months)], months[(n + 2) % len(months)]] if quick else months
        for (mo, vs, ve) in picks:
            cases.append(U4.make_spec('site %s%s: month %d, season %d..%d' % (
                site, ' + actual-year header' if sorted(U4.SITES).index(site) % 2 else '', mo, vs, ve),
                epw=files[site], about={'LOCATION cells 6..9 (lat, lon, time zone, elevation)': U4.SITES[site]},
                month=mo, day=12, nday=1, dtsim=300, vegstart=vs, vegend=ve))
    br, bad = {}, 0
    for n, sp in enumerate(cases):
        r = U4.run_one(sp, U4_HOOKS, work, 'site_%d.epw' % n, 'plain')
        for k, v in r['evaluations'].items():
            br[k] = br.get(k, 0) + v
        if r['verdict'] != 'ok':
            chk.notes.append('site run %s: %s' % (sp['label'], r['verdict']))
        for v in r['violations'][:1]:
            bad += 1
            if bad <= 3:
                chk.violation('impl-violation', 'season oracle on a live run, rural file with other LOCATION cells',
                              case={'scenario': sp['label'], 'about': sp['about'], 'oracle': v['oracle']},
                              observed=v['observed'],
                              expected='vegetation acts in exactly the configured months vegstart..vegend, whatever '
                                       'latitude / longitude / time zone / elevation the rural file states')
    if not (br.get('road:in-season') and br.get('road:off-season') and br.get('rural:in-season')):
        raise core.Infra('site family: no vegetated surface judged in / off season: %s' % br)
    chk.direct('C18-rural-file-family(LOCATION cells: southern / western / equatorial / below-sea-level sites)',
               sum(br.values()), len(cases),
               'copies of the shipped rural file whose LOCATION line states latitude -1.37 / -33.95 / -34.82 / 0.0 / 40.0 '
               '/ 31.5, longitude east and west, time zones -7 .. +10, elevation -400 .. 1650 m (every other one with the '
               'actual-year header of s1_util): 1-day runs in and outside the configured season, judged per step by the '
               'same oracle as above (calendar month of the step vs configured vegstart..vegend; season handed to the '
               'kernels = configured season)', mismatches=bad, branches=br)


# ------------------------------------------------------------------------------ round 5: surfaces that carry a water film
# `Element.waterStorage` is 0 in every generated model, but it is a documented attribute and the package's own tests
# assign it after generate() (`rural.waterStorage = 0.005`). A film adds its own latent heat (evaporation of the film);
# it is no input of the season statement: in exactly the months vegstart..vegend the vegetation takes part with its
# albedo AND its latent / sensible partition of the absorbed sunlight, wet or dry; outside, the surface is bare.
def partition_expected(road, m, s, e, alb, vc, g, t, va, gf, tf, solRec):
    """what the vegetation contributes according to the property: (solAbs, vegetation latent, vegetation sensible)"""
    if m < s or m > e:
        return (1 - alb) * solRec, 0 * solRec, 0 * solRec
    sol = ((1 - vc) * (1 - alb) + vc * (1 - va)) * solRec
    if road:
        return sol, (g * gf + t * tf) * (1 - va) * solRec, (g * (1 - gf) + t * (1 - tf)) * (1 - va) * solRec
    return sol, vc * (1 - va) * gf * solRec, vc * (1 - va) * (1 - gf) * solRec


def wet_call(impl, conv, st, road, m, s, e, film, prec, veg=True, fractions=None):
    """the REAL SurfFlux on a two-layer horizontal element carrying `film`; veg=False: the bare twin (no vegetation on
    the element at all); fractions=(gf, tf): the twin with other latent fractions"""
    import v3_util as V3
    Element, Material = impl.element.Element, impl.material.Material
    mats = [Material(conv(F(1)), conv(F(1600000)), 'm'), Material(conv(F(1)), conv(F(1600000)), 'm')]
    el = Element(conv(st['alb']), conv(F(9, 10)), [conv(F(1, 20)), conv(F(1, 20))], mats,
                 conv(st['vc'] if veg else F(0)), conv(st['ts']), 1, 'x')
    if road:
        el.grasscoverage = conv(st['g'] if veg else F(0))
        el.treecoverage = conv(st['t'] if veg else F(0))
    el.solRec, el.infra = conv(st['solRec']), conv(st['infra'])
    V3.set_film(el, conv, film)
    gf, tf = fractions or (st['gf'], st['tf'])
    par = V3.film_param(conv, s, e, st['va'], gf, tf)
    forc = NS(pres=conv(F(101325)), prec=conv(prec), deepTemp=conv(F(290)))
    el.SurfFlux(forc, par, NS(month=m, dt=conv(F(300))), conv(st['hum']), conv(st['tr']), conv(st['wind']), conv(F(2)),
                conv(F(0)))
    return dict(solAbs=el.solAbs, lat=el.lat, sens=el.sens, flux=el.flux, film=el.waterStorage)


def wet_partition_msg(st, road, m, s, e, base, bare, twin, twin_f, tol):
    """the season statement on a wet surface, from three calls that differ only in vegetation data"""
    def near(a, b):
        return abs(F(a) - F(b)) <= tol * (abs(F(b)) + 1)
    sol, vlat, vsen = partition_expected(road, m, s, e, st['alb'], st['vc'], st['g'], st['t'], st['va'], st['gf'], st['tf'],
                                         st['solRec'])
    ins = s <= m <= e
    where = 'month %d, season %d..%d (%s)' % (m, s, e, 'inside' if ins else 'outside')
    if not near(base['solAbs'], sol):
        return '%s: absorbed sunlight %s, expected %s' % (where, float(base['solAbs']), float(sol))
    if not near(F(base['lat']) - F(bare['lat']), vlat):
        return ('%s: the vegetation adds %s W/m2 of latent heat to what the same wet surface without vegetation releases '
                '(%s), its latent share of the absorbed sunlight is %s' % (
                    where, float(F(base['lat']) - F(bare['lat'])), float(bare['lat']), float(vlat)))
    if not near(F(base['sens']) - F(bare['sens']), vsen):
        return ('%s: the vegetation adds %s W/m2 of sensible heat to what the same wet surface without vegetation releases, '
                'its sensible share of the absorbed sunlight is %s' % (
                    where, float(F(base['sens']) - F(bare['sens'])), float(vsen)))
    _s2, vlat2, vsen2 = partition_expected(road, m, s, e, st['alb'], st['vc'], st['g'], st['t'], st['va'], twin_f[0],
                                           twin_f[1], st['solRec'])
    if not near(F(twin['lat']) - F(base['lat']), vlat2 - vlat) or not near(F(twin['sens']) - F(base['sens']), vsen2 - vsen):
        return ('%s: latent fractions (grass, tree) changed from (%s, %s) to (%s, %s): latent heat moves by %s and sensible '
                'heat by %s W/m2, expected %s and %s' % (
                    where, st['gf'], st['tf'], twin_f[0], twin_f[1], float(F(twin['lat']) - F(base['lat'])),
                    float(F(twin['sens']) - F(base['sens'])), float(vlat2 - vlat), float(vsen2 - vsen)))
    if not ins and any(not near(base[k], bare[k]) for k in ('solAbs', 'lat', 'sens', 'flux')):
        return '%s: the surface differs from bare ground' % where
    if not (near(base['film'], bare['film']) and near(base['film'], twin['film'])):
        return '%s: the film left after the step depends on vegetation data' % where
    return None


def wet_surface_ties(chk, pkg):
    import uwgutil as UU
    import v3_util as V3
    rng = chk.rng
    big = chk.tier == 'thorough'
    plain = UU.uwg_mod()
    seasons = [(4, 10), (1, 12), (6, 6), (5, 9), (2, 11), (9, 3)]
    cases = []
    for (s, e) in seasons:
        for m in range(1, 13):
            if not big and (m + s) % 2 and m not in (s, e, s - 1, e + 1):
                continue
            for road in (True, False):
                cases.append((m, s, e, road))
    nbad, n, br = 0, 0, {}
    for i, (m, s, e, road) in enumerate(cases):
        for film in (V3.FILMS[1:] if big else [V3.FILMS[1 + (i + j) % (len(V3.FILMS) - 1)] for j in (0, 2)]):
            st = surf_state(rng)
            st['hum'] = rq(rng, 0, 0.03, 10000)
            if st['solRec'] == 0:
                st['solRec'] = F(rng.randint(20, 900))
            prec = rng.choice([F(0), F(0), F(2, 10 ** 6)])
            twin_f = (rq(rng, 0.05, 0.95), rq(rng, 0.05, 0.95))
            for mode, impl in (('exact', pkg), ('float', plain)):
                conv = V3.conv_of(mode)
                try:
                    base = wet_call(impl, conv, st, road, m, s, e, film[1], prec)
                    bare = wet_call(impl, conv, st, road, m, s, e, film[1], prec, veg=False)
                    twin = wet_call(impl, conv, st, road, m, s, e, film[1], prec, fractions=twin_f)
                except (ZeroDivisionError, ValueError, OverflowError):
                    continue
                n += 1
                key = '%s/%s/%s/%s' % (mode, 'road' if road else 'non-road',
                                       'film' if film in V3.WET else 'film below tolerance',
                                       'in-season' if s <= m <= e else 'off-season')
                br[key] = br.get(key, 0) + 1
                msg = wet_partition_msg(st, road, m, s, e, base, bare, twin, twin_f, F(0) if mode == 'exact' else F(1, 10 ** 9))
                if msg:
                    nbad += 1
                    if nbad <= 3:
                        chk.violation('impl-violation', 'season oracle on Element.SurfFlux of a surface carrying a water film '
                                      '(%s arithmetic)' % mode,
                                      case={'month': m, 'vegStart': s, 'vegEnd': e, 'road': road,
                                            'waterStorage_set_by_the_caller': '%s (%s)' % (film[1], film[0]),
                                            'precipitation': str(prec), 'state': {k: str(v) for k, v in st.items()},
                                            'twin_latent_fractions(grass, tree)': [str(x) for x in twin_f],
                                            'arithmetic': mode},
                                      observed=msg,
                                      expected='inside vegstart..vegend the vegetation absorbs with its albedo and splits its '
                                               'share into latent / sensible heat by the latent fractions, wet or dry; '
                                               'outside the surface is bare ground and the vegetation parameters have no '
                                               'effect; the film only adds its own evaporation')
    if not (br.get('exact/road/film/in-season') and br.get('float/non-road/film/in-season') and
            br.get('exact/non-road/film/off-season')):
        raise core.Infra('wet-surface family lost a branch: %s' % br)
    chk.direct('season-oracle(SurfFlux on surfaces carrying a water film; exact and float)', n, n,
               'the REAL Element.SurfFlux (exact rationals with the package\'s constants in Param, and plain floats) on '
               'horizontal road / non-road elements whose waterStorage a caller set to 1e-20, 3e-10, 0.0004, 0.0021, 0.005 '
               '(tests/test_element.py), 0.02, with and without precipitation, sunlit, for months 1..12 x seasons 4..10, '
               '1..12, 6..6, 5..9, 2..11 and the empty season 9..3. Each case = three calls that differ only in vegetation '
               'data (as is; no vegetation at all; other latent fractions). Oracle: solAbs by the season; latent / sensible '
               'heat MINUS that of the same wet surface without vegetation = the vegetation\'s latent / sensible share of the '
               'absorbed sunlight in season and 0 outside; changing the latent fractions moves latent and sensible heat by '
               'exactly the share in season and not at all outside; the film left behind does not depend on vegetation',
               mismatches=nbad, branches=br)


def live_wet_runs(chk):
    """generate(); films assigned by hand (as tests/test_element.py does); simulate() - judged at every SurfFlux call of a
    vegetated horizontal element against the CONFIGURED season and the clock month:
      * sensible heat minus the convective part = the vegetation's sensible share of the absorbed sunlight (0 outside);
      * latent heat minus the film's own evaporation (recomputed from the element's qsat) = the vegetation's latent share;
      * for the road: both, per m2 of urban area, equal what solarcalcs hands to the canyon (treeSensHeat / treeLatHeat):
        the reflection model and the surface-flux model agree on the partition."""
    import uwgutil as U
    import v3_util as V3
    uwg = U.uwg_mod()
    import uwg.element as EL
    from uwg.utilities import is_near_zero
    work = chk.work()
    rng = chk.rng
    runs = [dict(month=7, day=rng.randint(1, 28), nday=1, vegstart=4, vegend=10, vegroof=0.5),
            dict(month=3, day=31, nday=2, vegstart=4, vegend=10)]
    if chk.tier == 'thorough':
        runs += [dict(month=10, day=31, nday=2, vegstart=4, vegend=10, vegroof=0.3),
                 dict(month=1, day=15, nday=1, vegstart=4, vegend=10), dict(month=6, day=30, nday=2, vegstart=1, vegend=6)]
    films = [(0.005, 0.005, 0.005), (0.002, 0.005, 0.001), (0.005, 0.0004, 0.02)]
    bad, counts, cur = [], {}, {}
    orig = EL.Element.SurfFlux

    def count(k):
        counts[k] = counts.get(k, 0) + 1

    def surf_wrap(self, forc, parameter, simTime, humRef, tempRef, windRef, boundCond, intFlux):
        if not (self.horizontal and cur.get('kinds')):
            return orig(self, forc, parameter, simTime, humRef, tempRef, windRef, boundCond, intFlux)
        t0, w0, sol = self.layerTemp[0], self.waterStorage, self.solRec
        r = orig(self, forc, parameter, simTime, humRef, tempRef, windRef, boundCond, intFlux)
        kind = cur['kinds'].get(id(self))
        if kind is None or not (sol > 0 and self.vegcoverage > 0):
            return r
        mth = simTime.month
        ins = cur['vs'] <= mth <= cur['ve']
        wet = (not is_near_zero(w0)) and w0 > 0
        road = kind == 'road'
        _sol, vlat, vsen = partition_expected(road, mth, cur['vs'], cur['ve'], self.albedo, self.vegcoverage,
                                              getattr(self, 'grasscoverage', 0.), getattr(self, 'treecoverage', 0.),
                                              parameter.vegAlbedo, parameter.grassFLat, parameter.treeFLat, sol)
        soil = 0.
        if wet:
            dens = forc.pres / (1000 * 0.287042 * tempRef * (1. + 1.607858 * humRef))
            soil = V3.film_eg(self.qsat, self.aeroCond, t0, forc.pres, dens, humRef, parameter) * \
                parameter.waterDens * parameter.lv
        count('%s:%s:%s' % (kind, 'wet' if wet else 'dry', 'in-season' if ins else 'off-season'))
        got_sen = self.sens - self.aeroCond * (t0 - tempRef)
        got_lat = self.lat - soil
        tol = 1e-9 * (abs(sol) + abs(soil) + abs(self.sens) + 1.)
        at = 'clock %d/%s %ds, configured season %d..%d, film before the call %r m' % (
            mth, int(simTime.day), int(simTime.secDay), cur['vs'], cur['ve'], w0)
        if len(bad) < 3 and (abs(got_sen - vsen) > tol or abs(got_lat - vlat) > tol):
            bad.append('%s (%s), %s: sensible heat beyond convection %r W/m2, latent heat beyond the film\'s own '
                       'evaporation %r W/m2; the vegetation\'s shares of the absorbed sunlight (%r W/m2 received) are %r '
                       'and %r' % (kind, self.name, at, got_sen, got_lat, sol, vsen, vlat))
        if road and cur.get('ucm') is not None and sol == cur['ucm'].SolRecRoad:
            u = cur['ucm']
            open_frac = 1. - u.bldDensity
            count('road-vs-solarcalcs:%s' % ('wet' if wet else 'dry'))
            if len(bad) < 3 and (abs(got_sen * open_frac - u.treeSensHeat) > tol or
                                 abs(got_lat * open_frac - u.treeLatHeat) > tol):
                bad.append('road, %s: per m2 of urban area the surface-flux model books %r (sensible) / %r (latent) W/m2 for the '
                           'vegetation, the reflection model hands the canyon %r / %r' % (
                               at, got_sen * open_frac, got_lat * open_frac, u.treeSensHeat, u.treeLatHeat))
        return r

    EL.Element.SurfFlux = surf_wrap
    done = 0
    try:
        for k, cfg in enumerate(runs):
            m = U.new_model(outdir=work, outname='c18wet.epw', dtsim=300, **cfg)
            fl = films[k % len(films)]
            nb = len(bad)
            try:
                with core.quiet():
                    m.generate()
                    cur.update(vs=m.vegstart, ve=m.vegend, ucm=m.UCM, kinds={id(m.UCM.road): 'road', id(m.rural): 'rural'})
                    m.rural.waterStorage, m.UCM.road.waterStorage = fl[0], fl[1]
                    for b in m.BEM:
                        cur['kinds'][id(b.roof)] = 'roof'
                        b.roof.waterStorage = fl[2]
                    m.simulate()
                done += 1
            except Exception as ex:  # noqa: BLE001 - the model's own fail-stop is not a verdict here
                if type(ex) is not Exception:
                    raise
                chk.notes.append('wet season run %s skipped: %s' % (cfg, str(ex)[:60]))
            finally:
                cur.clear()
            for msg in bad[nb:]:
                chk.violation('impl-violation', 'season oracle on a live simulation whose surfaces carry a water film',
                              case=dict(cfg, dtsim=300, after_generate='rural.waterStorage = %s; UCM.road.waterStorage = %s; '
                                        'every roof: %s' % fl),
                              observed=msg,
                              expected='in the configured months the vegetation takes part with its latent / sensible '
                                       'partition on every vegetated horizontal surface, wet or dry, and the reflection '
                                       'model agrees; outside it does not act')
    finally:
        EL.Element.SurfFlux = orig
    if done and not (counts.get('road:wet:in-season') and counts.get('rural:wet:in-season') and
                     counts.get('road-vs-solarcalcs:wet')):
        raise core.Infra('no wet vegetated surface was simulated in season: %s' % counts)
    chk.direct('live-season-with-water-films(generate; films assigned; simulate)', sum(counts.values()), done,
               'real runs (Singapore, dtsim 300; a July day with vegetated roofs, 31 Mar + 2 days across the season start; '
               'thorough: 31 Oct + 2 days, a January day, 30 Jun + 2 days with season 1..6) in which rural ground, road and '
               'roofs are given films 0.0004 .. 0.02 m by plain assignment after generate(): every sunlit SurfFlux call of a '
               'vegetated horizontal element judged against the configured season and the clock month - sensible heat '
               'beyond convection and latent heat beyond the film\'s own evaporation (recomputed from the element\'s qsat) '
               'are the vegetation\'s shares of the absorbed sunlight in season and 0 outside; for the road, per m2 of urban '
               'area, they equal treeSensHeat / treeLatHeat of the reflection model', mismatches=len(bad), branches=counts)


# ------------------------------------------------------------------------------ round 6: month ends; southern sites, live
def month_end_ties(chk):
    """(a) live runs crossing EVERY month end with a season boundary placed exactly there, judged per step against an
    independent calendar (harness/w3_util.py) - the package's own tests only walk Jun -> Jul -> Aug -> Sep;
    (b) the same per-step oracle on sites south of the equator (the season is configured in calendar months)."""
    import os
    import uwgutil as U
    import w3_util as W
    quick = chk.tier == 'quick'
    work = chk.work()
    rng = chk.rng
    members = W.month_end_members(both=not quick)
    w, done, found, notes = W.month_end_runs(chk, members, full=False)
    counts = dict(w.counts)
    nbad = len(found)
    if not quick:                                   # the same members with the full physics (a sample)
        w2, done2, found2, notes2 = W.month_end_runs(chk, rng.sample(members, 6) + [
            mm for mm in members if mm['month'] == 11], full=True)
        found += found2
        nbad += len(found2)
        notes += notes2
        for k, v in w2.counts.items():
            counts['full-physics:' + k.split(':month')[0]] = counts.get('full-physics:' + k.split(':month')[0], 0) + v
    for mem, msgs in found[:3]:
        chk.violation('impl-violation', 'season oracle on a live run crossing a month end (independent calendar)',
                      case=dict(mem, dtsim=300), observed=' | '.join(msgs[:2]),
                      expected='vegetation acts at exactly the steps whose calendar month (start date + elapsed time, '
                               '365-day year) lies in the configured vegstart..vegend, in the reflection model and in the '
                               'surface-flux model alike')
    for nt in notes[:4]:
        chk.notes.append('month-end run: ' + nt)
    months_seen = set(int(k.rsplit('-', 1)[1]) for k in counts if k.startswith('solarcalcs:') and ':month-' in k)
    if done and len(months_seen) < 12:
        raise core.Infra('month-end family: sunlit steps judged only in months %s' % sorted(months_seen))
    chk.direct('live-month-ends(every month end x season boundary there; independent calendar)', sum(counts.values()), done,
               '2-day runs (dt 300 s) starting on the last day of EVERY month (31 Jan .. 30 Nov, 31 Dec), the season '
               'boundary placed at that month end (season ending with the month / starting with the next; quick: '
               'alternating, thorough: both + a sample with the full physics): real simulate() loop, real clock and '
               'forcing hand-over, real SolarCalcs and real rural / road SurfFlux (quick: building / canyon / '
               'boundary-layer balances left out, harness/w3_util.light_physics). Every sunlit solarcalcs call and every '
               'SurfFlux call of a vegetated horizontal element judged against the calendar month computed from the start '
               'date and the number of steps taken - never the clock - and the configured vegstart..vegend. A run over '
               'the year end is the model\'s own fail-stop (note)', mismatches=nbad,
               branches={k: v for k, v in counts.items() if ':month-' not in k or k.startswith('solarcalcs:off')})

    # (b) southern sites, live, per step
    src = U.rp(U4.SGP[1])
    sites = ['south-33.9-east', 'south-34.6-west', 'south-1.37'] + ([] if quick else ['equator-0.0', 'north-40-west-negative-tz'])
    cfgs = [dict(label='January, season 4..10', month=1, day=12, nday=1, vegstart=4, vegend=10),
            dict(label='July, season 4..10', month=7, day=12, nday=1, vegstart=4, vegend=10),
            dict(label='31 Mar -> 1 Apr, season 4..10', month=3, day=31, nday=2, vegstart=4, vegend=10),
            dict(label='October, season 10..3 (start > end: empty)', month=10, day=12, nday=1, vegstart=10, vegend=3),
            dict(label='December, season 11..12', month=12, day=5, nday=1, vegstart=11, vegend=12)]
    br, bad, nrun = {}, 0, 0
    for n, site in enumerate(sites):
        f = U4.site_file(src, os.path.join(work, 'w3_site_%s.epw' % site), site, 'base')
        picks = [cfgs[n % len(cfgs)], cfgs[(n + 1) % len(cfgs)]] if quick else cfgs
        picks = [dict(c, label='site %s: %s' % (site, c['label'])) for c in picks]
        w3, d3, found3, notes3 = W.month_end_runs(chk, picks, full=not quick and n == 0, epw=f,
                                                  site='%s %s' % (site, U4.SITES[site]))
        nrun += d3
        for k, v in w3.counts.items():
            kk = k.split(':month')[0]
            br[kk] = br.get(kk, 0) + v
        for mem, msgs in found3:
            bad += 1
            if bad <= 2:
                chk.violation('impl-violation', 'season oracle per step on a live run, rural file of a southern / other site',
                              case=dict(mem, dtsim=300, about={'LOCATION cells 6..9 (lat, lon, time zone, elevation)':
                                                               U4.SITES[site]}),
                              observed=' | '.join(msgs[:2]),
                              expected='vegetation acts in exactly the configured calendar months vegstart..vegend, in the '
                                       'reflection model and the surface-flux model alike, whatever latitude the rural '
                                       'file states')
        for nt in notes3[:2]:
            chk.notes.append('southern-site run: ' + nt)
    chk.direct('live-season-per-step(southern sites; independent calendar)', sum(br.values()), nrun,
               'rural files stating latitude -33.95 / -34.82 / -1.37 (thorough: + equator, + northern control): 1- and '
               '2-day live runs in January, July, December, across 31 Mar -> 1 Apr and with an empty season (start > end); '
               'per step the reflection model (vegetation heat) and the surface-flux model (absorbed sunlight of road and '
               'rural ground) are judged against the configured season and the calendar month of the step', mismatches=bad,
               branches=br)


def boundary_fraction_runs(chk):
    """live runs whose vegetation fractions sit at the exact boundaries of their validated ranges, in combination
    (harness/x3_util.live_boundary_members), out of and in season; per step the SeasonWatch oracle of w3_util plus the
    vegetation-albedo twin of x3_util.AlbedoTwin."""
    import x3_util as X3
    quick = chk.tier == 'quick'
    members = X3.live_boundary_members(quick)
    tw, w, done, found, notes = X3.live_boundary_runs(chk, members, n_full=1 if quick else 4)
    for label, cfg, msgs in found[:3]:
        chk.violation('impl-violation', 'season oracle on a live run with vegetation fractions at the boundaries of their ranges',
                      case=dict(cfg, label=label, dtsim=300), observed=' | '.join(msgs[:2]),
                      expected='outside the configured months vegstart..vegend the vegetation albedo has no effect on the '
                               'reflection model (the same step repeated with another albveg gives the same radiation on road, '
                               'walls, roofs) and the surface-flux model absorbs the bare-ground amount; inside, both models '
                               'take the vegetation into account')
    for nt in notes[:4]:
        chk.notes.append('boundary-fraction run: ' + nt)
    br = dict(('albveg-twin:' + k, v) for k, v in tw.counts.items())
    for k, v in w.counts.items():
        kk = k.split(':month')[0]
        br[kk] = br.get(kk, 0) + v
    if done and not (tw.counts.get('off-season/road vegcoverage = 1') and tw.counts.get('in-season/road vegcoverage = 1')):
        raise core.Infra('boundary-fraction family: no fully vegetated road judged off and in season: %s' % tw.counts)
    chk.direct('live-boundary-fractions(road fully vegetated; trees only; rurvegcover 0 / 1; albveg twin per step)',
               sum(br.values()), done,
               '1- and 2-day live runs (dt 300 s; the first with the full physics, the others with w3_util.light_physics) whose '
               'vegetation fractions sit at the exact boundaries of their validated ranges, in combination: grasscover + treecover '
               '+ blddensity = 1 (0.25 + 0.25 + 0.5; 0 + 0.4 + 0.6: the road is fully vegetated, road.vegcoverage = 1.0), '
               'treecover = vegcover (grasscover = 0), grass only, rurvegcover 0 / 1 - out of season, in season and across a '
               'season boundary. Per sunlit step (calendar month from the start date and the steps taken): (a) the same '
               'solarcalcs call repeated by a fresh SolarCalcs under ANOTHER vegetation albedo gives the same radiation on road / '
               'walls / roofs outside the season and a different one inside (vegetated road); (b) vegetation heat 0 outside, > 0 '
               'inside; (c) road and rural SurfFlux absorb the bare-ground amount outside, the vegetated amount inside. Members: '
               + '; '.join(mm[0] for mm in members), mismatches=len(found), branches=br)


def run(chk):
    chk.proof(MODULE, THEOREMS)
    if chk.tier == 'thorough':
        chk.leanchecker([MODULE])
    pkg = fracexec.load()
    rng = chk.rng
    triples = [(m, s, e) for m in range(1, 13) for s in range(1, 13) for e in range(1, 13)]

    # --- tie 1: SurfFlux, every (month, start, end), road and non-road elements
    nstates = 1 if chk.tier == 'quick' else 6
    cases, meta = [], []
    for (m, s, e) in triples:
        for road in (True, False):
            for _ in range(nstates):
                st = surf_state(rng)
                ck = clock(pkg, rng, m)
                out, aero = impl_surf(pkg, st, road, m, s, e, sim=ck, circ=U4.circ_pick(rng))
                cases.append((surf_line(st, road, m, s, e, aero), 'ok ' + frac_list(out)))
                meta.append((m, s, e, road, dict(st, clock_day=ck.day), out))
    # vegetation fractions at the exact boundaries of their validated ranges, in combination (harness/x3_util.py)
    import x3_util as X3
    btriples = X3.boundary_triples(triples, chk.tier == 'quick')
    bkinds = {}
    for n, (m, s, e) in enumerate(btriples):
        road = n % 3 != 2
        kind, st = X3.boundary_surf_state(surf_state(rng), road, n // 3 if road else n // 3, rng)
        if road and n % 3 == 1:
            kind, st = X3.boundary_surf_state(st, road, n // 3 + 3, rng)
        bkinds[kind] = bkinds.get(kind, 0) + 1
        ck = clock(pkg, rng, m)
        out, aero = impl_surf(pkg, st, road, m, s, e, sim=ck, circ=U4.circ_pick(rng))
        cases.append((surf_line(st, road, m, s, e, aero), 'ok ' + frac_list(out)))
        meta.append((m, s, e, road, dict(st, clock_day=ck.day, vegetation_fractions=kind), out))
    chk.extra_cov['vegetation fractions at their boundaries (SurfFlux tie)'] = bkinds
    chk.correspond('Element.SurfFlux~surfFluxHorizontal', 'C18', cases,
                   rule='fractionised Element.SurfFlux (horizontal) for ALL 12x12x12 (month,start,end) '
                        'x {road, non-road} x random states vs Lean model, exact; every case non-trivial; the clock '
                        'handed in is a real SimParam showing that month and a day drawn from 1, 15, 28..31 (days '
                        'beyond the end of the month included: the package accepts them); three cases of five under '
                        'a circumstance that is no input (Element and clock rendered with repr / str right before the '
                        'call and before the results are read; DEBUG logging on; both) - likewise in the two solarcalcs '
                        'ties (SolarCalcs object and clock rendered); PLUS, for a third of the triples (thorough: all), '
                        'states whose vegetation fractions sit at the exact boundaries of their ranges, in combination: '
                        'road fully vegetated (grass + trees = 1; trees only; grass only), road with trees only / grass '
                        'only (the other share 0), road without vegetation, non-road surface with coverage 1 / 0',
                   classify=lambda l, i: 'road' if 'road=1' in l else 'nonroad')

    # --- tie 2: road albedo inside solarcalcs, every triple
    cases2, meta2, boundary_heat = [], [], []
    for (m, s, e) in triples:
        alb, vc, va = rq(rng, 0.05, 0.5), rq(rng, 0.05, 0.95), rq(rng, 0.1, 0.45)
        ck = clock(pkg, rng, m)
        got = impl_road_albedo(pkg, m, s, e, alb, vc, va, sim=ck, circ=U4.circ_pick(rng))
        cases2.append(('alb m=%d s=%d e=%d v=%s' % (m, s, e, frac_list([alb, vc, va])),
                       'ok ' + frac_str(got)))
        meta2.append((m, s, e, alb, vc, va, got, ck.day))
    bkinds2 = {}
    for n, (m, s, e) in enumerate(btriples):
        kind, vc = X3.ALB_BOUNDARY[n % len(X3.ALB_BOUNDARY)]
        bkinds2[kind] = bkinds2.get(kind, 0) + 1
        alb, va = rq(rng, 0.05, 0.5), rq(rng, 0.1, 0.45)
        ck = clock(pkg, rng, m)
        got, ts, tl, rr, tc, vcov, tf, gf = impl_road_albedo(pkg, m, s, e, alb, vc, va, full=True, sim=ck, circ=U4.circ_pick(rng))
        cases2.append(('alb m=%d s=%d e=%d v=%s' % (m, s, e, frac_list([alb, vc, va])), 'ok ' + frac_str(got)))
        meta2.append((m, s, e, alb, vc, va, got, ck.day))
        boundary_heat.append((m, s, e, va, tf, gf, rr, tc, vcov, ts, tl, ck.day))
    chk.extra_cov['vegetation fractions at their boundaries (road-albedo and vegetation-heat ties)'] = bkinds2
    chk.correspond('SolarCalcs.road-albedo~roadAlbedo', 'C18', cases2,
                   rule='road albedo used by the real solarcalcs (recovered exactly from mr with '
                        'non-reflecting walls) for ALL 12x12x12 triples vs Lean roadAlbedo; the reference-site object '
                        'handed to SolarCalcs states one of 7 sites (latitude 64 .. -54.8, both hemispheres, equator; '
                        'longitude east / west; time zone) - the site is no input of the season (likewise in the '
                        'vegetation-heat tie); road coverage drawn from 0.05 .. 0.95, PLUS for a third of the triples '
                        '(thorough: all) a road whose coverage is EXACTLY 1 (fully vegetated: vegcover + blddensity = 1) '
                        'or exactly 0 (likewise in the vegetation-heat tie)',
                   classify=lambda l, i: 'all')

    # --- tie 3: vegetation heat released to the canyon air, every triple
    cases3, meta3 = [], []
    for (m, s, e) in triples:
        alb, vc, va = rq(rng, 0.05, 0.5), rq(rng, 0.05, 0.95), rq(rng, 0.1, 0.45)
        ck = clock(pkg, rng, m)
        _a, ts, tl, rr, tc, vcov, tf, gf = impl_road_albedo(pkg, m, s, e, alb, vc, va, full=True, sim=ck,
                                                            circ=U4.circ_pick(rng))
        cases3.append(('vegheat m=%d s=%d e=%d v=%s' % (m, s, e, frac_list([va, tf, gf, rr, tc, vcov])),
                       'ok ' + frac_list([ts, tl])))
        meta3.append((m, s, e, ts, tl, ck.day))
    for (m, s, e, va, tf, gf, rr, tc, vcov, ts, tl, cday) in boundary_heat:
        cases3.append(('vegheat m=%d s=%d e=%d v=%s' % (m, s, e, frac_list([va, tf, gf, rr, tc, vcov])), 'ok ' + frac_list([ts, tl])))
        meta3.append((m, s, e, ts, tl, cday))
    chk.correspond('SolarCalcs.vegetation-heat~vegHeat', 'C18', cases3,
                   rule='UCM.treeSensHeat/treeLatHeat after the real solarcalcs for ALL 12x12x12 '
                        'triples vs Lean vegHeat', classify=lambda l, i: 'all')

    # --- oracle: the property itself on the implementation
    bad = 0
    for (m, s, e, road, st, out) in meta:
        if s > e:
            continue  # wrap-around reported separately (measurement below)
        inseason = s <= m <= e
        bare = [(1 - st['alb']) * st['solRec'], F(0), None, None]
        is_bare = out[0] == bare[0] and out[1] == 0
        veg_matters = st['vc'] > 0 and st['solRec'] > 0 and st['va'] != st['alb']
        if (not inseason and not is_bare) or (inseason and veg_matters and is_bare and
                                              (st['g'] + st['t'] > 0 if road else True)):
            bad += 1
            if bad <= 2:
                chk.violation('impl-violation', 'season oracle on Element.SurfFlux',
                              case={'month': m, 'vegStart': s, 'vegEnd': e, 'road': road,
                                    'state': {k: str(v) for k, v in st.items()}},
                              observed='solAbs=%s lat=%s (in season: %s)' % (out[0], out[1], inseason),
                              expected='bare-ground values exactly outside [start,end], vegetation '
                                       'values inside')
    for (m, s, e, alb, vc, va, got, cday) in meta2:
        if s > e:
            continue
        inseason = s <= m <= e
        want = alb * (1 - vc) + va * vc if inseason else alb
        if got != want:
            bad += 1
            if bad <= 4:
                chk.violation('impl-violation', 'season oracle on solarcalcs road albedo',
                              case={'clock_month': m, 'clock_day': cday, 'vegStart': s, 'vegEnd': e,
                                    'albedo': str(alb), 'vegcoverage': str(vc), 'vegAlbedo': str(va),
                                    'site (lat, lon, time zone) of the reference-site object': [
                                        str(x) for x in standin_site(m, s, e)]},
                              observed=str(got), expected=str(want))
    for (m, s, e, ts, tl, cday) in meta3:
        if s <= e and not (s <= m <= e) and (ts != 0 or tl != 0):
            bad += 1
            if bad <= 6:
                chk.violation('impl-violation', 'season oracle on solarcalcs vegetation heat',
                              case={'clock_month': m, 'clock_day': cday, 'vegStart': s, 'vegEnd': e,
                                    'site (lat, lon, time zone) of the reference-site object': [
                                        str(x) for x in standin_site(m, s, e)]},
                              observed='treeSensHeat=%s treeLatHeat=%s' % (ts, tl),
                              expected='0 outside the season (vegetation parameters have no effect)')
    chk.direct('season-oracle(SurfFlux, solarcalcs)', len(meta) + len(meta2) + len(meta3),
               len(meta) + len(meta2) + len(meta3),
               'C18 statement (bare outside [start,end], vegetated inside; both models agree) on the '
               'real code for every start<=end triple (element fluxes, road albedo, vegetation heat)',
               mismatches=bad)
    live_season_runs(chk)
    live_configured_season_runs(chk)
    wet_surface_ties(chk, pkg)
    live_wet_runs(chk)
    circumstance_ties(chk, chk.tier == 'quick')
    month_end_ties(chk)
    boundary_fraction_runs(chk)
    wrap = [(m, s, e) for (m, s, e, *_r) in meta2 if s > e]
    chk.measurements['wraparound'] = (
        'start > end (%d of 1728 triples): both routines treat every month as off-season '
        '(empty season, no wrap) - proved as wraparound_never_in_season and confirmed by the '
        'correspondence on all such triples' % len(wrap))
    chk.extra_cov['exhaustive'] = True
