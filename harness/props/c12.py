"""C12 - sun position agrees with the weather file and with astronomy.

On the pinned tree this property is FALSE (DESIGN.md section 3): `solarangles` applies NOAA's
west-positive longitude/zone signs to the east-positive EPW header and uses an hours-as-days,
off-by-one-day fractional year.  The repair breaks three pinned tests, so it is a KNOWN FINDING.

The Lean development has both the as-coded model (`solaranglesImpl`) and the NOAA specification
(`solaranglesSpec`).  Verdict logic of this check:

  real code == Impl on every generated case  -> KNOWN-FINDING line, exit 0
  real code == Spec on every in-range case   -> clean pass (someone repaired it)
  neither                                    -> VIOLATION (a *different* defect), with a concrete
                                                site/time as replay

Measurements (never verdicts): cos(zenith) of the float code against an independent NOAA
implementation and against a Meeus-type algorithm on a site/date/time grid, and
cos(zenith)*DNI + DHI against the global-horizontal column of the shipped EPW files.
"""
import csv
import datetime
import glob
import hashlib
import json
import math
import os
import types
import sys
from fractions import Fraction as F
from types import SimpleNamespace as NS

import core
import fracexec
from fracexec import frac_str

MODULE = 'UwgVerif.Props.C12'
THEOREMS = [
    'Uwg.C12.cosZenArg_mem',
    'Uwg.C12.zenith_is_spherical_impl', 'Uwg.C12.zenith_is_spherical_spec', 'Uwg.C12.zenith_is_spherical',
    'Uwg.C12.spec_is_noaa',
    'Uwg.C12.ha_mirrored', 'Uwg.C12.ad_shifted', 'Uwg.C12.impl_is_spec_mirrored',
    'Uwg.C12.eqtime_bound', 'Uwg.C12.decsol_bound',
    'Uwg.C12.impl_ne_spec_singapore',
    'Uwg.C12.offset_coincide_iff', 'Uwg.C12.ad_coincide_iff', 'Uwg.C12.ad_never_coincide',
    'Uwg.C12.coincide_iff',
    'Uwg.C12.utImpl_eq', 'Uwg.C12.tanzen_ne_zero',
    'Uwg.C12.full_property_false_of_impl',
]
HOW = 'bin/check C12 --replay <this file>  (re-evaluates the case against the working tree); full run: bin/check C12'
FINDING_ID = 'C12-time-offset-and-fractional-year'
INOBIS = [0, 31, 59, 90, 120, 151, 181, 212, 243, 273, 304, 334]
MDAYS = [31, 28, 31, 30, 31, 30, 31, 31, 30, 31, 30, 31]
FIELDS = ('ut', 'ad', 'eqtime', 'decsol', 'ha', 'zenith', 'tanzen', 'critOrient')

NOAA_TEXT = (
    'SPEC (NOAA general solar position, low-accuracy form): doy = 1-based day of year; hour = local '
    'standard time in hours; g = 2pi/365*(doy-1+(hour-12)/24); eqtime[min] = 229.18*(0.000075'
    '+0.001868cos g-0.032077sin g-0.01461cos 2g-0.040849sin 2g) (NOAA prints 0.014615; the code '
    'and the Lean spec keep 0.01461, the Python reference uses 0.014615: 0.001 min); decl = 0.006918'
    '-0.399912cos g+0.070257sin g-0.006758cos 2g+0.000907sin 2g-0.002697cos 3g+0.00148sin 3g; '
    'time_offset = eqtime + 4*lon_east - 60*tz_east; tst[min] = 60*hour + time_offset; '
    'ha[deg] = tst/4 - 180; cos zenith = sin lat sin decl + cos lat cos decl cos ha')


# ----------------------------------------------------------------------------- sites
def epw_files():
    """Shipped weather files (tests/epw + resources), de-duplicated by content."""
    seen, out = set(), []
    found = []
    for root in (core.REPO, '/repo'):       # a scratch tree under test may carry only uwg/
        pats = [os.path.join(root, 'resources', '*.epw'), os.path.join(root, 'tests', 'epw', '*.epw')]
        found = sorted(sum((glob.glob(x) for x in pats), []))
        if found:
            break
    for p in found:
        h = hashlib.sha1(open(p, 'rb').read()).hexdigest()
        if h in seen:
            continue
        seen.add(h)
        out.append(p)
    return out


def epw_header(path):
    with open(path, 'r', errors='ignore') as f:
        row = next(csv.reader(f))
    return row[1], row[6], row[7], row[8]      # name, lat, lon, tz (text)


# ----------------------------------------------------------------------------- exact side
def rq(rng, lo, hi, den):
    return F(rng.randint(int(lo * den), int(hi * den)), den)


def gen_main(rng, sites):
    """One in-range case: valid date, 0 <= secDay < 86400, standard month table."""
    month = rng.randint(1, 12)
    r = rng.random()
    day = rng.randint(1, MDAYS[month - 1]) if r < 0.9 else rng.choice([1, MDAYS[month - 1], 31])
    r = rng.random()
    if r < 0.45:
        sec = 300 * rng.randint(0, 287)
    elif r < 0.6:
        sec = rng.choice([0, 1, 3599, 3600, 3757, 43200, 86399, 82800, 32400])
    else:
        sec = rng.randint(0, 86399)
    r = rng.random()
    if r < 0.3:
        _, la, lo, tz = rng.choice(sites)
        lat, lon, gmt = F(la), F(lo), F(tz)
        kind = 'shipped-header'
    else:
        lat = rq(rng, -66, 66, rng.choice([1, 10, 100]))
        lon = rq(rng, -180, 180, rng.choice([1, 10, 100]))
        r2 = rng.random()
        if r2 < 0.35:
            gmt = F(round(float(lon) / 15))
            kind = 'natural-zone'
        elif r2 < 0.5:
            gmt = F(rng.randint(-12, 14))
            lon = 15 * gmt if abs(15 * gmt) <= 180 else lon
            kind = 'lon=15gmt' if lon == 15 * gmt else 'any-zone'
        elif r2 < 0.6:
            gmt = F(rng.choice(['5.5', '5.75', '-3.5', '9.5', '12.75', '-9.5']))
            kind = 'fractional-zone'
        else:
            gmt = F(rng.randint(-12, 14))
            kind = 'any-zone'
    ca = rq(rng, 0.05, 8, rng.choice([1, 4, 10, 100])) or F(1, 2)
    return dict(month=month, day=day, secDay=sec, lat=lat, lon=lon, gmt=gmt, canAspect=ca,
                inobis=None, kind=kind)


def gen_edge(rng, sites):
    """Cases outside the clock's range or with a malformed month table: Impl tie only."""
    cs = gen_main(rng, sites)
    k = rng.choice(['sec-negative', 'sec>=86400', 'month0', 'month13', 'short-inobis',
                    'canAspect0', 'other-inobis', 'long-inobis'])
    if k == 'sec-negative':
        cs['secDay'] = -rng.randint(1, 200000)
    elif k == 'sec>=86400':
        cs['secDay'] = rng.choice([86400, 86700, 90000, 172800 + rng.randint(0, 86399)])
    elif k == 'month0':
        cs['month'] = rng.choice([0, -1, -11, -12, -13])
    elif k == 'month13':
        cs['month'] = rng.choice([13, 14, 25])
    elif k == 'short-inobis':
        cs['inobis'] = INOBIS[:rng.randint(0, 11)]
    elif k == 'long-inobis':
        cs['inobis'] = INOBIS + [365, 396][:rng.randint(1, 2)]
        cs['month'] = rng.choice([cs['month'], 13, 14, 0])
    elif k == 'other-inobis':
        cs['inobis'] = sorted(rng.randint(0, 365) for _ in range(12))
    elif k == 'canAspect0':
        cs['canAspect'] = F(0)
    cs['kind'] = 'edge:' + k
    return cs


def line_of(cs, op, withha):
    s = '%s month=%d day=%d secDay=%d lat=%s lon=%s gmt=%s canAspect=%s' % (
        op, cs['month'], cs['day'], cs['secDay'], frac_str(cs['lat']), frac_str(cs['lon']),
        frac_str(cs['gmt']), frac_str(cs['canAspect']))
    if cs['inobis'] is not None:
        s += ' inobis=[' + ';'.join(str(x) for x in cs['inobis']) + ']'
    return s + ' withha=%d' % (1 if withha else 0)


def make_sc(SC, cs, frac=True):
    conv = (lambda x: x) if frac else float
    st = NS(month=cs['month'], day=cs['day'], secDay=cs['secDay'],
            inobis=list(cs['inobis'] if cs['inobis'] is not None else INOBIS))
    return SC(NS(canAspect=conv(cs['canAspect'])), None, st,
              NS(lon=conv(cs['lon']), lat=conv(cs['lat']), gmt=conv(cs['gmt'])), None, None, None)


class Locals(object):
    """Reads the local variable `ha` of `solarangles` from outside (profile hook on return)."""
    def __init__(self):
        self.loc = {}

    def __call__(self, frame, event, arg):
        if event == 'return' and frame.f_code.co_name == 'solarangles':
            self.loc = dict(frame.f_locals)


def run_exact(SC, cs):
    """The REAL solarangles over exact rationals. Returns (answer line, has_ha)."""
    sc = make_sc(SC, cs)
    hook = Locals()
    try:
        sys.setprofile(hook)
        try:
            sc.solarangles()
        finally:
            sys.setprofile(None)
    except IndexError:
        return 'err index', True
    except ZeroDivisionError:
        return 'err zerodiv', True
    except ValueError:
        return 'err value', True
    except AssertionError:
        return 'err assert', True
    except AttributeError:
        return 'err attr', True
    vals = {}
    for k in FIELDS:
        if k == 'ha':
            if isinstance(hook.loc.get('ha'), (int, F)):
                vals[k] = hook.loc['ha']
            continue
        v = getattr(sc, k, None)
        if not isinstance(v, (int, F)):
            return 'err attr', True
        vals[k] = v
    return 'ok ' + ' '.join('%s=%s' % (k, frac_str(vals[k])) for k in FIELDS if k in vals), 'ha' in vals


def branch_of(line, impl):
    if impl.startswith('err'):
        return impl
    d = dict(kv.split('=') for kv in impl.split(' ')[1:])
    z, t = F(d['zenith']), F(d['tanzen'])
    half = F(355, 226)
    if abs(half - z) < F(1, 10 ** 6):
        b = 'clamp-horizon+' if half - z > 0 else 'clamp-horizon-'
    elif abs(z) < F(1, 10 ** 6):
        b = 'clamp-zenith0'
    else:
        b = 'tan'
    return b + ('/crit=1' if F(d['critOrient']) == 1 else '/crit<1')


def clamp_probes(SC, rng, sites, n):
    """Cases steered into the three tanzen clamps. With the stub symbols the zenith is a quadratic
    in zlat (= lat*pi/180): solve for the target and take a rational latitude close to the root."""
    out = []
    pi = F(355, 113)
    tries = 0
    while len(out) < n and tries < 40 * n:
        tries += 1
        cs = gen_main(rng, sites)
        cs['lat'] = F(0)
        sc = make_sc(SC, cs)
        hook = Locals()
        try:
            sys.setprofile(hook)
            try:
                sc.solarangles()
            finally:
                sys.setprofile(None)
        except Exception:
            continue
        ha, d = hook.loc.get('ha'), getattr(sc, 'decsol', None)
        if not isinstance(ha, F) or not isinstance(d, F):
            continue
        c = (1 - d * d / 2) * (1 - ha * ha / 2)
        # offsets straddle the 1e-6 thresholds so that a changed threshold or comparison shows up
        target = rng.choice([pi / 2, F(0)])
        eps = rng.choice([-1, 1]) * F(rng.choice(['1e-8', '5e-7', '9.9e-7', '1.01e-6', '2e-6', '5e-6']))
        # zenith = 1 - zl*d - (1 - zl^2/2)*c  = target + eps
        A, B, C = c / 2, -d, 1 - c - target - eps
        disc = B * B - 4 * A * C
        if A == 0 or disc < 0:
            continue
        root = (float(-B) + rng.choice([1, -1]) * math.sqrt(float(disc))) / float(2 * A)
        zl = F(root).limit_denominator(10 ** 12)
        cs['lat'] = zl * 180 / pi
        cs['kind'] = 'clamp-probe'
        out.append(cs)
    return out


# ----------------------------------------------------------------------------- float references
def doy_of(month, day):
    return (datetime.date(2001, month, 1) - datetime.date(2001, 1, 1)).days + day


def noaa_cosz(month, day, sec, lat, lon, tz):
    """Independent NOAA low-accuracy solar position; longitude east-positive, tz hours east."""
    hour = sec / 3600.0
    g = 2 * math.pi / 365.0 * (doy_of(month, day) - 1 + (hour - 12.0) / 24.0)
    eqtime = 229.18 * (0.000075 + 0.001868 * math.cos(g) - 0.032077 * math.sin(g)
                       - 0.014615 * math.cos(2 * g) - 0.040849 * math.sin(2 * g))
    decl = (0.006918 - 0.399912 * math.cos(g) + 0.070257 * math.sin(g) - 0.006758 * math.cos(2 * g)
            + 0.000907 * math.sin(2 * g) - 0.002697 * math.cos(3 * g) + 0.00148 * math.sin(3 * g))
    tst = hour * 60.0 + eqtime + 4.0 * lon - 60.0 * tz
    ha = math.radians(tst / 4.0 - 180.0)
    la = math.radians(lat)
    return math.sin(la) * math.sin(decl) + math.cos(la) * math.cos(decl) * math.cos(ha)


def ascoded_cosz(month, day, sec, lat, lon, tz):
    """The recorded deviation pattern (my transcription, NOT the code under test): west-positive
    signs and the hours-as-days fractional year.  Used only to tell the known deviation from a
    different defect."""
    ut = (int(sec) / 3600.0) % 24.0
    date = doy_of(month, day) - 1
    ad = 2 * math.pi / 365.0 * (date - 1 + ut - 0.5)
    eqtime = 229.18 * (0.000075 + 0.001868 * math.cos(ad) - 0.032077 * math.sin(ad)
                       - 0.01461 * math.cos(2 * ad) - 0.040849 * math.sin(2 * ad))
    decl = (0.006918 - 0.399912 * math.cos(ad) + 0.070257 * math.sin(ad) - 0.006758 * math.cos(2 * ad)
            + 0.000907 * math.sin(2 * ad) - 0.002697 * math.cos(3 * ad) + 0.00148 * math.sin(3 * ad))
    tst = sec + (eqtime - 4.0 * lon + 60.0 * tz) * 60.0
    ha = math.radians(tst / 240.0 - 180.0)
    la = math.radians(lat)
    return math.sin(la) * math.sin(decl) + math.cos(la) * math.cos(decl) * math.cos(ha)


def meeus_cosz(month, day, sec, lat, lon, tz, year=2001):
    """Second, structurally different reference: the Meeus-based algorithm of the NOAA solar
    calculator spreadsheet (geometric, no refraction)."""
    a = (14 - month) // 12
    y = year + 4800 - a
    m = month + 12 * a - 3
    jdn = day + (153 * m + 2) // 5 + 365 * y + y // 4 - y // 100 + y // 400 - 32045
    jd = jdn - 0.5 + sec / 86400.0 - tz / 24.0
    T = (jd - 2451545.0) / 36525.0
    L0 = (280.46646 + T * (36000.76983 + T * 0.0003032)) % 360.0
    M = 357.52911 + T * (35999.05029 - 0.0001537 * T)
    e = 0.016708634 - T * (0.000042037 + 0.0000001267 * T)
    Mr = math.radians(M)
    C = (math.sin(Mr) * (1.914602 - T * (0.004817 + 0.000014 * T))
         + math.sin(2 * Mr) * (0.019993 - 0.000101 * T) + math.sin(3 * Mr) * 0.000289)
    om = math.radians(125.04 - 1934.136 * T)
    lam = math.radians(L0 + C - 0.00569 - 0.00478 * math.sin(om))
    eps0 = 23.0 + (26.0 + (21.448 - T * (46.815 + T * (0.00059 - T * 0.001813))) / 60.0) / 60.0
    eps = math.radians(eps0 + 0.00256 * math.cos(om))
    decl = math.asin(math.sin(eps) * math.sin(lam))
    yy = math.tan(eps / 2.0) ** 2
    L0r = math.radians(L0)
    eot = 4.0 * math.degrees(yy * math.sin(2 * L0r) - 2 * e * math.sin(Mr)
                             + 4 * e * yy * math.sin(Mr) * math.cos(2 * L0r)
                             - 0.5 * yy * yy * math.sin(4 * L0r) - 1.25 * e * e * math.sin(2 * Mr))
    tst = (sec / 60.0 + eot + 4.0 * lon - 60.0 * tz) % 1440.0
    ha = math.radians(tst / 4.0 - 180.0)
    la = math.radians(lat)
    return math.sin(la) * math.sin(decl) + math.cos(la) * math.cos(decl) * math.cos(ha)


class FloatCode(object):
    """The REAL float solarangles (plain `uwg` package of the tree under test)."""
    def __init__(self):
        core.repo_python_path()
        from uwg.solarcalcs import SolarCalcs
        self.st = NS(month=1, day=1, secDay=0, inobis=list(INOBIS))
        self.rsm = NS(lat=0.0, lon=0.0, gmt=0.0)
        self.sc = SolarCalcs(NS(canAspect=1.0), None, self.st, self.rsm, None, None, None)
        self.errors = 0

    def cosz(self, month, day, sec, lat, lon, tz):
        self.st.month, self.st.day, self.st.secDay = month, day, sec
        self.rsm.lat, self.rsm.lon, self.rsm.gmt = lat, lon, tz
        try:
            self.sc.solarangles()
            return math.cos(self.sc.zenith)
        except Exception:
            self.errors += 1
            return None

    def zen(self, month, day, sec, lat, lon, tz):
        c = self.cosz(month, day, sec, lat, lon, tz)
        return None if c is None else self.sc.zenith


def grid(tier, sites):
    lats = [-66.0, -45.0, -23.5, 0.0, 23.5, 45.0, 66.0]
    lons = [float(x) for x in range(-180, 181, 30)]
    days = [(m, d) for m in range(1, 13) for d in ((1, 15) if tier == 'quick' else (1, 8, 15, 22, 28))]
    secs = [3600 * h + 1800 for h in range(24)] + [0, 32400]
    pts = []
    for lat in lats:
        for lon in lons:
            nat = round(lon / 15.0)
            zones = sorted(set([nat, nat - 1, nat + 1, -12, 0, 12])) if tier == 'quick' else list(range(-12, 15))
            for tz in zones:
                pts.append((lat, lon, float(tz), 'natural' if tz == nat else 'other'))
    for name, la, lo, tz in sites:
        pts.append((float(la), float(lo), float(tz), 'shipped:' + name))
    return pts, days, secs


def float_measure(chk, fc, sites):
    """Grid measurement + search for a deviation from NOAA that the recorded pattern does not
    explain. Returns the first unexplained point (or None)."""
    pts, days, secs = grid(chk.tier, sites)
    worst = {'all': (0.0, None), 'natural': (0.0, None), 'shipped': (0.0, None)}
    worst_ref = (0.0, None)
    worst_meeus = (0.0, None)
    n = differs = unexplained = 0
    first_unexpl = None
    for lat, lon, tz, cls in pts:
        for (mo, dy) in days:
            for sec in secs:
                n += 1
                c_real = fc.cosz(mo, dy, sec, lat, lon, tz)
                c_noaa = noaa_cosz(mo, dy, sec, lat, lon, tz)
                c_me = meeus_cosz(mo, dy, sec, lat, lon, tz)
                dref = abs(c_noaa - c_me)
                if dref > worst_ref[0]:
                    worst_ref = (dref, (mo, dy, sec, lat, lon, tz))
                if c_real is None:
                    continue
                d = abs(c_real - c_noaa)
                dm = abs(c_real - c_me)
                if dm > worst_meeus[0]:
                    worst_meeus = (dm, (mo, dy, sec, lat, lon, tz))
                for key in ('all', 'natural' if cls == 'natural' else None,
                            'shipped' if cls.startswith('shipped') else None):
                    if key and d > worst[key][0]:
                        worst[key] = (d, (mo, dy, sec, lat, lon, tz, c_real, c_noaa))
                if d > 2e-4:       # beyond the 0.014615/0.01461 coefficient and rounding
                    differs += 1
                    c_asc = ascoded_cosz(mo, dy, sec, lat, lon, tz)
                    if abs(c_real - c_asc) > 1e-9:
                        unexplained += 1
                        if first_unexpl is None:
                            first_unexpl = dict(month=mo, day=dy, secDay=sec, lat=lat, lon=lon, gmt=tz,
                                                cos_zenith_real=c_real, cos_zenith_noaa=c_noaa,
                                                cos_zenith_recorded_deviation=c_asc)

    def fmt(w):
        if w[1] is None:
            return None
        return {'max_abs_diff': w[0], 'at(month,day,secDay,lat,lon,tz[,real,noaa])': list(w[1])}
    sgp = dict(month=1, day=1, secDay=32400, lat=1.37, lon=103.98, gmt=8.0)
    chk.measurements['cos_zenith_grid'] = {
        'what': 'float solarangles of the tree under test vs independent NOAA implementation (measurement, '
                'not a verdict)',
        'grid': '%d sites (lat +-66 x lon -180..180 step 30 x zones) + shipped headers, %d dates, %d times'
                % (len(pts), len(days), len(secs)),
        'points': n, 'float_code_errors': fc.errors,
        'points_differing_from_noaa_by>2e-4': differs,
        'of_those_not_explained_by_recorded_deviation': unexplained,
        'max_real_vs_noaa_all_sites': fmt(worst['all']),
        'max_real_vs_noaa_natural_zone_sites': fmt(worst['natural']),
        'max_real_vs_noaa_shipped_headers': fmt(worst['shipped']),
        'max_real_vs_meeus': fmt(worst_meeus),
        'max_noaa_vs_meeus(reference cross-check)': fmt(worst_ref),
        'singapore_jan01_0900(the witness quoted in the known finding)': {
            'real': fc.cosz(1, 1, 32400, 1.37, 103.98, 8.0),
            'noaa': noaa_cosz(1, 1, 32400, 1.37, 103.98, 8.0),
            'meeus': meeus_cosz(1, 1, 32400, 1.37, 103.98, 8.0), 'case': sgp},
    }
    return n, differs, unexplained, first_unexpl


def epw_measure(chk, fc):
    """cos(zenith)*DNI + DHI against global horizontal (column 13), hour midpoints."""
    res = {}
    for path in epw_files():
        with open(path, 'r', errors='ignore') as f:
            rows = list(csv.reader(f))
        lat, lon, tz = float(rows[0][6]), float(rows[0][7]), float(rows[0][8])
        acc = {k: [0, 0.0, 0.0, 0.0] for k in ('real', 'noaa', 'meeus')}
        used = 0
        for r in rows[8:]:
            if len(r) < 16:
                continue
            try:
                mo, dy, hr = int(r[1]), int(r[2]), int(r[3])
                ghi, dni, dhi = float(r[13]), float(r[14]), float(r[15])
            except ValueError:
                continue
            if (mo, dy) == (2, 29) or ghi <= 0 or max(ghi, dni, dhi) >= 9000:
                continue
            sec = 3600 * hr - 1800
            used += 1
            for k, fn in (('real', fc.cosz), ('noaa', noaa_cosz), ('meeus', meeus_cosz)):
                c = fn(mo, dy, sec, lat, lon, tz)
                if c is None:
                    continue
                e = max(c, 0.0) * dni + dhi - ghi
                a = acc[k]
                a[0] += 1
                a[1] += abs(e)
                a[2] += e * e
                a[3] += e
        res['/'.join(path.split(os.sep)[-3:])] = {
            'header(lat,lon_east,tz_east)': [lat, lon, tz], 'daylight_hours_used': used,
            **{k: ({'mean_abs_err_W/m2': round(a[1] / a[0], 2), 'rmse_W/m2': round(math.sqrt(a[2] / a[0]), 2),
                    'bias_W/m2': round(a[3] / a[0], 2)} if a[0] else None) for k, a in acc.items()}}
    chk.measurements['epw_global_horizontal'] = {
        'what': 'max(cos zenith,0)*DNI(col 14) + DHI(col 15) - GHI(col 13) over rows with GHI>0, sun position '
                'at the middle of the hour the row ends; a fact about data files, cannot be a theorem',
        'files': res}


# ----------------------------------------------------------------------------- run
def load_finding(chk):
    for k in chk.known_findings():
        if k['id'] == FINDING_ID:
            return k
    return None


def header_handover(chk):
    """Site data must reach the sun-position routine exactly as the EPW header gives it: generate()
    on copies of the Singapore file with synthetic LOCATION lines (time zone 0, negative, fractional;
    longitudes of both signs), then lat / lon / gmt of the model and of its RSM objects, and the zenith
    the real SolarCalcs computes for them, are compared with the header values."""
    import csv
    import io
    import contextlib
    import core
    import uwgutil as U
    uwg = U.uwg_mod()
    work = chk.work()
    src = list(csv.reader(open(U.rp(U.EPW_SGP), newline='', errors='ignore')))
    heads = [('38.72', '-9.14', '0.0'), ('64.13', '-21.9', '0.0'), ('14.69', '-17.45', '0'), ('43.8', '87.6', '6.0'),
             ('43.8', '87.6', '8.0'), ('-33.9', '18.6', '2.0'), ('-33.9', '18.6', '1.0'), ('28.6', '77.2', '5.5'),
             ('47.6', '-52.7', '-3.5'), ('1.37', '103.98', '8.0'), ('-17.5', '-149.6', '-10.0')]
    bad = 0
    for k, (la, lo, tz) in enumerate(heads):
        rows = [list(r) for r in src]
        rows[0][6], rows[0][7], rows[0][8] = la, lo, tz
        pth = os.path.join(work, 'hdr%d.epw' % k)
        with open(pth, 'w', newline='') as f:
            csv.writer(f, lineterminator='\n').writerows(rows)
        m = U.new_model(epw=pth, outdir=work, outname='h.epw', nday=1)
        with contextlib.redirect_stdout(io.StringIO()):
            m.generate()
        got = (m.lat, m.lon, m.gmt, m.RSM.lat, m.RSM.lon, m.RSM.gmt)
        want = (float(la), float(lo), float(tz)) * 2
        # and what the real routine computes from them at 09:00 on 21 March, against the as-coded formula
        sol = uwg.SolarCalcs(m.UCM, m.BEM, types.SimpleNamespace(month=3, day=21, secDay=32400,
                                                                 inobis=m.simTime.inobis),
                             m.RSM, m.forc, m.geoParam, m.rural)
        sol.solarangles()
        ref = ascoded_cosz(3, 21, 32400, float(la), float(lo), float(tz))
        if got != want or abs(math.cos(sol.zenith) - ref) > 1e-9:
            bad += 1
            chk.violation('impl-violation', 'site data of the EPW header does not reach the sun-position routine',
                          case={'latitude': la, 'longitude': lo, 'time_zone': tz},
                          observed={'model (lat, lon, gmt, RSM.lat, RSM.lon, RSM.gmt)': got,
                                    'cos_zenith': math.cos(sol.zenith)},
                          expected={'header': want[:3], 'cos_zenith(as coded, header values)': ref})
    chk.direct('header-handover(generate on synthetic LOCATION lines)', len(heads), len(heads),
               'lat / lon / time zone of synthetic EPW headers (zone 0, negative, fractional; several files with '
               'equal coordinates and different zones, run in one process) must arrive unchanged in the model and its '
               'RSM objects, and the real solarangles must use them', mismatches=bad)


def live_sun(chk, fc):
    """The sun position used INSIDE real runs on legal but never-varied rural files.

    The property ties the sun position of every step to latitude / longitude / time zone of the LOCATION line (EPW
    records are in local STANDARD time). Everything else in the header - a daylight-saving period (given as m/d,
    wrapping the year end, as day of year or as text), the leap-year flag, holidays, the start week-day, filled
    soil-property cells, comments - is not an input of the sun position, and neither is an extra day in an
    8784-row file (365-day clock). Real generate()+simulate() on such files, with `uwg.uwg.SolarCalcs` replaced by a
    recording subclass: at every call of `solarangles` (month, day, secDay, zenith, RSM.lat/lon/gmt) is logged, and
    the zenith must be (a) bit-identical to the SAME float routine evaluated stand-alone for the header's
    lat/lon/zone and the clock's true month/day/second of that step, (b) equal (1e-9 in cos) to the independent
    transcription of the formula the exact tie has just confirmed (as coded, or NOAA to 2e-4 if repaired)."""
    import contextlib
    import io
    import s1_util as S
    import simdriver
    import uwg.uwg as UU
    from uwg.solarcalcs import SolarCalcs as RealSC
    rng = chk.rng
    work = chk.work()
    thorough = chk.tier == 'thorough'
    log = []

    class Rec(RealSC):
        def solarangles(self):
            RealSC.solarangles(self)
            log.append((self.simTime.month, int(self.simTime.day), self.simTime.secDay, self.zenith,
                        self.RSM.lat, self.RSM.lon, self.RSM.gmt))

    # which transcription describes the routine under test (decided on a probe, never a verdict by itself)
    probe = (6, 15, 36000, 42.37, -71.02, -5.0)
    c_probe = fc.cosz(*probe)
    if c_probe is not None and abs(c_probe - ascoded_cosz(*probe)) < 1e-9:
        ref, tol, refname = ascoded_cosz, 1e-9, 'as-coded transcription'
    elif c_probe is not None and abs(c_probe - noaa_cosz(*probe)) < 2e-4:
        ref, tol, refname = noaa_cosz, 2e-4, 'NOAA'
    else:
        ref, tol, refname = None, None, 'none (routine matches neither transcription at the probe)'

    boston = simdriver.epw_path('USA_MA_Boston-Logan.Intl.AP.725090_TMY3.epw')
    sgp = simdriver.epw_path()
    srcs = {'boston': S.load_epw(boston), 'singapore': S.load_epw(sgp)}
    # (site, variant, start inside the declared DST period where there is one, dtsim)
    north_in = [(6, 15), (7, 4), (3, 20), (10, 20), (4, 2)]
    plan = []
    for name in S.GROUPS['dst']:
        start = rng.choice([(1, 15), (12, 5), (11, 2)]) if 'wraps' in name else rng.choice(north_in)
        plan.append(('boston', name, start, 300))
    plan.append(('boston', 'actual-year-header', rng.choice(north_in), rng.choice([150, 100, 90])))
    plan.append(('singapore', 'actual-year-header', rng.choice(north_in), 300))
    plan.append(('singapore', 'leap8784+dst-3/8-11/1', rng.choice([(3, 1), (6, 21), (2, 28)]), 300))
    plan.append(('boston', rng.choice(S.GROUPS['weekday']) + '+leapflag-Yes+holidays-listed',
                 rng.choice([(3, 1), (9, 22)]), 300))
    plan.append(('boston', 'base', (1, 15) if not thorough else (6, 15), 300))
    if thorough:
        for name in S.GROUPS['dst'] + S.GROUPS['ground'] + S.GROUPS['text'] + ['leap8784']:
            plan.append((rng.choice(['boston', 'singapore']), name,
                         (rng.randint(1, 12), rng.randint(1, 28)), rng.choice([300, 225, 90, 50])))
    bad, ncalls, nruns, branches = 0, 0, 0, {}
    saved = UU.SolarCalcs
    try:
        UU.SolarCalcs = Rec
        for k, (site, name, (mo, dy), dt) in enumerate(plan):
            rows = S.apply_variant(srcs[site], name)
            path = S.save_epw(rows, os.path.join(work, 'sun%d.epw' % k))
            hdr = (float(rows[0][6]), float(rows[0][7]), float(rows[0][8]))
            del log[:]
            case = {'site': site, 'epw_variant': name, 'HOLIDAYS/DAYLIGHT SAVINGS': rows[4], 'DATA PERIODS': rows[7],
                    'month': mo, 'day': dy, 'nday': 1, 'dtsim': dt}
            try:
                with contextlib.redirect_stdout(io.StringIO()):
                    m = simdriver.build_model(mo, dy, 1, dt, epw=path)
                    m.simulate()
            except Exception as e:  # noqa: BLE001 - the model's own fail-stop is not a verdict of this property
                if not log:
                    chk.notes.append('live sun run %s skipped: %s: %s' % (case, type(e).__name__, str(e)[:80]))
                    branches['skipped(model raised)'] = branches.get('skipped(model raised)', 0) + 1
                    continue
            nruns += 1
            branches[name.split('-')[0]] = branches.get(name.split('-')[0], 0) + 1
            t0 = S.doy0(mo, dy) * 86400
            seen_t = {}
            for (lmo, ldy, lsec, zen, la, lo, tz) in log:
                ncalls += 1
                # the true instant of the call: solarangles runs once per step, in step order, in daylight only;
                # the clock fields it sees must be a valid instant of the simulated day
                sec = int(lsec)
                z_self = fc.zen(lmo, ldy, lsec, *hdr)
                what = None
                if (la, lo, tz) != hdr:
                    what = ('site data in force at the call differ from the LOCATION line', (la, lo, tz), hdr)
                elif z_self is None or zen != z_self:
                    what = ('zenith used by the run is not the routine\'s own value for the header site at that instant',
                            zen, z_self)
                elif ref is not None and abs(math.cos(zen) - ref(lmo, ldy, lsec, *hdr)) > tol:
                    what = ('cos(zenith) used by the run vs %s for the header site at that instant' % refname,
                            math.cos(zen), ref(lmo, ldy, lsec, *hdr))
                elif (lmo, ldy) not in ((mo, dy), _next_day(mo, dy)) or not (0 <= sec < 86400) or sec % dt:
                    what = ('clock seen by solarangles is not an instant of the simulated day', (lmo, ldy, lsec),
                            'a multiple of dtsim within %d/%d' % (mo, dy))
                if what:
                    bad += 1
                    if bad <= 2:
                        chk.violation('impl-violation', 'sun position inside a real run vs the weather-file header: ' + what[0],
                                      case=dict(case, clock={'month': lmo, 'day': ldy, 'secDay': lsec},
                                                header_lat_lon_zone=hdr),
                                      observed=what[1], expected=what[2],
                                      how='s1_util.apply_variant(load_epw(<site file>), epw_variant); real generate() + '
                                          'simulate(); zenith logged at every solarangles call')
                    break
    finally:
        UU.SolarCalcs = saved
    chk.direct('live-sun(real runs on header / leap-file variants)', ncalls, nruns,
               'real generate()+simulate() (1 day, dtsim 300/150/100/90) on Boston and Singapore files whose header '
               'declares a daylight-saving period (m/d, m/d with blanks, wrapping the year end, day-of-year, textual) with '
               'the simulated day INSIDE the period, an actual-year header, leap flag, holidays, other start week-day, '
               'an 8784-row file: at every solarangles call of the run the site data in force are the LOCATION '
               'values, the zenith is bit-identical to the stand-alone routine for (header lat, lon, zone; clock '
               'month, day, second) and agrees with the %s to %s' % (refname, tol),
               mismatches=bad, branches=branches)


def _next_day(mo, dy):
    return (mo, dy + 1) if dy < MDAYS[mo - 1] else (mo % 12 + 1, 1)


def run(chk):
    from props import epwheader
    chk.proof(MODULE, THEOREMS + epwheader.SITE_THEOREMS, extra_modules=[epwheader.MODULE])
    if chk.tier == 'thorough':
        chk.leanchecker([MODULE, epwheader.MODULE])
    chk.notes.append(NOAA_TEXT)
    sites = [epw_header(p) for p in epw_files()]
    chk.notes.append('shipped weather files: ' + ', '.join(epw_files()))
    pkg = fracexec.load()
    SC = pkg.solarcalcs.SolarCalcs

    n = 1200 if chk.tier == 'quick' else 10000
    main = [gen_main(chk.rng, sites) for _ in range(n)]
    # the witness of the finding (Singapore, 1 January 09:00) and every shipped header at 09:00 on
    # 1 January and on the equinox
    for _, la, lo, tz in sites:
        for mo, dy in ((1, 1), (3, 21)):
            main.append(dict(month=mo, day=dy, secDay=32400, lat=F(la), lon=F(lo), gmt=F(tz),
                             canAspect=F(3, 2), inobis=None, kind='shipped-header'))
    # twins: the same instant and site with ONE header field changed, evaluated right after the
    # original in the same process (a result remembered under an incomplete key would show here)
    twins = []
    for cs in main[:80 if chk.tier == 'quick' else 600]:
        for fld, delta in (('gmt', F(2)), ('lat', F(7)), ('lon', F(-11))):
            tw = dict(cs)
            tw[fld] = cs[fld] + delta if abs(cs[fld] + delta) <= (14 if fld == 'gmt' else 66 if fld == 'lat' else 180) \
                else cs[fld] - delta
            tw['kind'] = 'twin-' + fld
            twins.append(tw)
    main += twins
    main += clamp_probes(SC, chk.rng, sites, 40 if chk.tier == 'quick' else 200)
    header_handover(chk)
    edge = [gen_edge(chk.rng, sites) for _ in range(120 if chk.tier == 'quick' else 600)]

    real_main = [run_exact(SC, cs) for cs in main]
    real_edge = [run_exact(SC, cs) for cs in edge]
    withha = all(h for _, h in real_main + real_edge)
    if not withha:      # local `ha` no longer exists: compare without it
        chk.notes.append('local variable `ha` not observable in solarangles; compared without it')
        strip = lambda s: ' '.join(w for w in s.split(' ') if not w.startswith('ha='))
        real_main = [(strip(a), h) for a, h in real_main]
        real_edge = [(strip(a), h) for a, h in real_edge]

    impl_lines = [line_of(cs, 'impl', withha) for cs in main + edge]
    spec_lines = [line_of(cs, 'spec', withha) for cs in main]
    answers = chk.lean_run('C12', impl_lines + spec_lines)
    m_impl, m_spec = answers[:len(impl_lines)], answers[len(impl_lines):]
    real_all = [a for a, _ in real_main + real_edge]
    bad_impl = [i for i, (r, m) in enumerate(zip(real_all, m_impl)) if r != m]
    bad_spec = [i for i, (r, m) in enumerate(zip(real_all[:len(main)], m_spec)) if r != m]
    model_differs = sum(1 for a, b in zip(m_impl[:len(main)], m_spec) if a != b)
    chk.log('real vs Impl: %d/%d mismatches; real vs Spec: %d/%d mismatches; Impl vs Spec differ on %d/%d' % (
        len(bad_impl), len(impl_lines), len(bad_spec), len(spec_lines), model_differs, len(main)))
    chk.measurements['model_separation'] = {
        'in_range_cases': len(main), 'cases_where_Impl_and_Spec_answers_differ': model_differs}

    kinds = {}
    for cs in main + edge:
        kinds[cs['kind']] = kinds.get(cs['kind'], 0) + 1
    chk.extra_cov['input_kinds'] = kinds

    rule_common = ('fractionised SolarCalcs.solarangles (SimpleNamespace stand-ins for UCM/simTime/RSM) on '
                   'valid dates x integer seconds x shipped and synthetic headers (lat +-66, lon +-180, integer / '
                   'fractional / natural / arbitrary zones), probes steered into the tanzen clamps%s; exact '
                   'equality of ut, ad, eqtime, decsol, ha, zenith, tanzen, critOrient')
    fc = FloatCode()
    npts, differs, unexplained, first_unexpl = float_measure(chk, fc, sites)
    epw_measure(chk, fc)
    live_sun(chk, fc)

    if not bad_impl:
        verdict = 'known-finding'
        chk.correspond('solarangles~solaranglesImpl', 'C12',
                       list(zip(impl_lines, real_all)),
                       rule=rule_common % ', plus out-of-range seconds, months 0/13, malformed month tables, '
                                          'canAspect 0 (error classes)' + ' against the AS-CODED model',
                       classify=branch_of)
        finding = load_finding(chk)
        if finding is not None and model_differs > 0:
            chk.report_known(finding)
            chk.notes.append('signature matched: ' + finding['signature'])
        else:
            # the deviation is there but not registered: that is a violation, not a pass
            chk.violation('impl-violation', 'solarangles equals the as-coded model (west-positive offsets, '
                          'hours-as-days fractional year) and no known finding is registered',
                          case=line_of(main[0], 'impl', withha), observed=real_all[0], expected=m_spec[0])
    elif not bad_spec:
        verdict = 'agrees-with-spec'
        chk.correspond('solarangles~solaranglesSpec', 'C12',
                       list(zip(spec_lines, real_all[:len(main)])),
                       rule=rule_common % '' + ' against the NOAA SPECIFICATION model (the code has been repaired)',
                       classify=branch_of)
        chk.notes.append('solarangles agrees with solaranglesSpec on every in-range case: the recorded '
                         'deviation is gone; no KNOWN-FINDING reported')
    else:
        verdict = 'neither'
        chk.correspond('solarangles~solaranglesImpl', 'C12',
                       list(zip(impl_lines, real_all)),
                       rule=rule_common % ', plus edge cases' + ' against the AS-CODED model (agrees with neither '
                                          'model: a different defect)',
                       classify=branch_of)
        if first_unexpl is not None:
            chk.violation('impl-violation', 'cos(zenith) of solarangles vs NOAA solar position', how=HOW,
                          case=first_unexpl, observed='cos zenith = %r' % first_unexpl['cos_zenith_real'],
                          expected='NOAA cos zenith = %r (the recorded west-positive / fractional-year deviation '
                                   'would give %r)' % (first_unexpl['cos_zenith_noaa'],
                                                       first_unexpl['cos_zenith_recorded_deviation']))
        i = bad_impl[0]
        chk.violation('impl-violation', 'solarangles agrees with neither solaranglesImpl nor solaranglesSpec', how=HOW,
                      case=impl_lines[i], observed=real_all[i],
                      expected='as-coded model: %s || NOAA spec: %s' % (
                          m_impl[i], m_spec[i] if i < len(m_spec) else '(edge case, no spec)'))
    chk.measurements['verdict_path'] = verdict
    chk.direct('noaa-oracle(float solarangles)', npts, npts - fc.errors,
               'cos(zenith) of the real float code vs independent NOAA on the measurement grid; a point counts '
               'as a mismatch only if it differs from NOAA by > 2e-4 AND from the recorded deviation pattern by '
               '> 1e-9 (i.e. is not explained by the known finding)',
               mismatches=unexplained,
               branches={'differs_from_noaa': differs, 'unexplained': unexplained})
    # the site itself: LOCATION cells 6..8 (and the ground line) as read by the real _read_epw vs the model
    epwheader.run_header(chk, 'site')
    chk.assumptions.append('solarangles is exercised through fracexec (exact rationals, stub trigonometry); '
                           'double rounding, libm and math.acos domain errors are outside the model')
    chk.assumptions.append('simTime.secDay is an integer number of seconds (dt is an integer); EPW longitude is '
                           'east-positive and the time zone is hours east of UTC (EnergyPlus weather format)')


def replay(chk, path):
    v = json.load(open(path))
    case = v.get('case')
    print('replay of %s' % path)
    print(json.dumps(v, indent=1, default=str)[:3000])
    if isinstance(case, dict) and 'secDay' in case:
        fc = FloatCode()
        a = (case['month'], case['day'], case['secDay'], case['lat'], case['lon'], case['gmt'])
        print('now: real cos zenith = %r, NOAA = %r, recorded deviation = %r' % (
            fc.cosz(*a), noaa_cosz(*a), ascoded_cosz(*a)))
    elif isinstance(case, str):
        pkg = fracexec.load()
        kv = dict(w.split('=') for w in case.split(' ')[1:])
        cs = dict(month=int(kv['month']), day=int(kv['day']), secDay=int(kv['secDay']), lat=F(kv['lat']),
                  lon=F(kv['lon']), gmt=F(kv['gmt']), canAspect=F(kv['canAspect']),
                  inobis=[int(x) for x in kv['inobis'][1:-1].split(';') if x] if 'inobis' in kv else None)
        print('now: real = %s' % run_exact(pkg.solarcalcs.SolarCalcs, cs)[0])
        print('model = %s' % chk.lean_run('C12', [case])[0])
    return 0
