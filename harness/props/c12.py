"""C12 - sun position agrees with the weather file and with astronomy.

On the pinned tree this property is FALSE (DESIGN.md section 3): `solarangles` applies NOAA's
west-positive longitude/zone signs to the east-positive EPW header and uses an hours-as-days,
off-by-one-day fractional year.  The repair breaks three pinned tests, so it is a KNOWN FINDING.

The Lean development has both the as-coded model (`solaranglesImpl`) and the NOAA specification
(`solaranglesSpec`).  Verdict logic of this check:

  real code == Impl on every generated case  -> KNOWN-FINDING line, exit 0
  real code == Spec on every in-range case   -> clean pass (someone repaired it)
  neither                                    -> VIOLATION (a *different* defect), with a concrete
                                                site/time as replay

Measurements (never verdicts): cos(zenith) of the float code against an independent NOAA
implementation and against a Meeus-type algorithm on a site/date/time grid, and
cos(zenith)*DNI + DHI against the global-horizontal column of the shipped EPW files.
"""
import csv
import datetime
import glob
import hashlib
import json
import math
import os
import types
import sys
from fractions import Fraction as F
from types import SimpleNamespace as NS

import core
import fracexec
from fracexec import frac_str

MODULE = 'UwgVerif.Props.C12'
THEOREMS = [
    'Uwg.C12.cosZenArg_mem',
    'Uwg.C12.zenith_is_spherical_impl', 'Uwg.C12.zenith_is_spherical_spec', 'Uwg.C12.zenith_is_spherical',
    'Uwg.C12.spec_is_noaa',
    'Uwg.C12.ha_mirrored', 'Uwg.C12.ad_shifted', 'Uwg.C12.impl_is_spec_mirrored',
    'Uwg.C12.eqtime_bound', 'Uwg.C12.decsol_bound',
    'Uwg.C12.impl_ne_spec_singapore',
    'Uwg.C12.offset_coincide_iff', 'Uwg.C12.ad_coincide_iff', 'Uwg.C12.ad_never_coincide',
    'Uwg.C12.coincide_iff',
    'Uwg.C12.utImpl_eq', 'Uwg.C12.tanzen_ne_zero',
    'Uwg.C12.full_property_false_of_impl',
]
HOW = 'bin/check C12 --replay <this file>  (re-evaluates the case against the working tree); full run: bin/check C12'
FINDING_ID = 'C12-time-offset-and-fractional-year'
INOBIS = [0, 31, 59, 90, 120, 151, 181, 212, 243, 273, 304, 334]
MDAYS = [31, 28, 31, 30, 31, 30, 31, 31, 30, 31, 30, 31]
FIELDS = ('ut', 'ad', 'eqtime', 'decsol', 'ha', 'zenith', 'tanzen', 'critOrient')

NOAA_TEXT = (
    'SPEC (NOAA general solar position, low-accuracy form): doy = 1-based day of year; hour = local '
    'standard time in hours; g = 2pi/365*(doy-1+(hour-12)/24); eqtime[min] = 229.18*(0.000075'
    '+0.001868cos g-0.032077sin g-0.01461cos 2g-0.040849sin 2g) (NOAA prints 0.014615; the code '
    'and the Lean spec keep 0.01461, the Python reference uses 0.014615: 0.001 min); decl = 0.006918'
    '-0.399912cos g+0.070257sin g-0.006758cos 2g+0.000907sin 2g-0.002697cos 3g+0.00148sin 3g; '
    'time_offset = eqtime + 4*lon_east - 60*tz_east; tst[min] = 60*hour + time_offset; '
    'ha[deg] = tst/4 - 180; cos zenith = sin lat sin decl + cos lat cos decl cos ha')


# ----------------------------------------------------------------------------- sites
def epw_files():
    """Shipped weather files (tests/epw + resources), de-duplicated by content."""
    seen, out = set(), []
    found = []
    for root in (core.REPO, '/repo'):       # a scratch tree under test may carry only uwg/
        pats = [os.path.join(root, 'resources', '*.epw'), os.path.join(root, 'tests', 'epw', '*.epw')]
        found = sorted(sum((glob.glob(x) for x in pats), []))
        if found:
            break
    for p in found:
        h = hashlib.sha1(open(p, 'rb').read()).hexdigest()
        if h in seen:
            continue
        seen.add(h)
        out.append(p)
    return out


def epw_header(path):
    with open(path, 'r', errors='ignore') as f:
        row = next(csv.reader(f))
    return row[1], row[6], row[7], row[8]      # name, lat, lon, tz (text)


# ----------------------------------------------------------------------------- exact side
def rq(rng, lo, hi, den):
    return F(rng.randint(int(lo * den), int(hi * den)), den)


def gen_main(rng, sites):
    """One in-range case: valid date, 0 <= secDay < 86400, standard month table."""
    month = rng.randint(1, 12)
    r = rng.random()
    day = rng.randint(1, MDAYS[month - 1]) if r < 0.9 else rng.choice([1, MDAYS[month - 1], 31])
    r = rng.random()
    if r < 0.45:
        sec = 300 * rng.randint(0, 287)
    elif r < 0.6:
        sec = rng.choice([0, 1, 3599, 3600, 3757, 43200, 86399, 82800, 32400])
    else:
        sec = rng.randint(0, 86399)
    r = rng.random()
    if r < 0.3:
        _, la, lo, tz = rng.choice(sites)
        lat, lon, gmt = F(la), F(lo), F(tz)
        kind = 'shipped-header'
    else:
        lat = rq(rng, -66, 66, rng.choice([1, 10, 100]))
        lon = rq(rng, -180, 180, rng.choice([1, 10, 100]))
        r2 = rng.random()
        if r2 < 0.35:
            gmt = F(round(float(lon) / 15))
            kind = 'natural-zone'
        elif r2 < 0.5:
            gmt = F(rng.randint(-12, 14))
            lon = 15 * gmt if abs(15 * gmt) <= 180 else lon
            kind = 'lon=15gmt' if lon == 15 * gmt else 'any-zone'
        elif r2 < 0.6:
            gmt = F(rng.choice(['5.5', '5.75', '-3.5', '9.5', '12.75', '-9.5']))
            kind = 'fractional-zone'
        else:
            gmt = F(rng.randint(-12, 14))
            kind = 'any-zone'
    ca = rq(rng, 0.05, 8, rng.choice([1, 4, 10, 100])) or F(1, 2)
    return dict(month=month, day=day, secDay=sec, lat=lat, lon=lon, gmt=gmt, canAspect=ca,
                inobis=None, kind=kind)


def gen_edge(rng, sites):
    """Cases outside the clock's range or with a malformed month table: Impl tie only."""
    cs = gen_main(rng, sites)
    k = rng.choice(['sec-negative', 'sec>=86400', 'month0', 'month13', 'short-inobis',
                    'canAspect0', 'other-inobis', 'long-inobis'])
    if k == 'sec-negative':
        cs['secDay'] = -rng.randint(1, 200000)
    elif k == 'sec>=86400':
        cs['secDay'] = rng.choice([86400, 86700, 90000, 172800 + rng.randint(0, 86399)])
    elif k == 'month0':
        cs['month'] = rng.choice([0, -1, -11, -12, -13])
    elif k == 'month13':
        cs['month'] = rng.choice([13, 14, 25])
    elif k == 'short-inobis':
        cs['inobis'] = INOBIS[:rng.randint(0, 11)]
    elif k == 'long-inobis':
        cs['inobis'] = INOBIS + [365, 396][:rng.randint(1, 2)]
        cs['month'] = rng.choice([cs['month'], 13, 14, 0])
    elif k == 'other-inobis':
        cs['inobis'] = sorted(rng.randint(0, 365) for _ in range(12))
    elif k == 'canAspect0':
        cs['canAspect'] = F(0)
    cs['kind'] = 'edge:' + k
    return cs


def line_of(cs, op, withha):
    s = '%s month=%d day=%d secDay=%d lat=%s lon=%s gmt=%s canAspect=%s' % (
        op, cs['month'], cs['day'], cs['secDay'], frac_str(cs['lat']), frac_str(cs['lon']),
        frac_str(cs['gmt']), frac_str(cs['canAspect']))
    if cs['inobis'] is not None:
        s += ' inobis=[' + ';'.join(str(x) for x in cs['inobis']) + ']'
    return s + ' withha=%d' % (1 if withha else 0)


def make_sc(SC, cs, frac=True):
    conv = (lambda x: x) if frac else float
    import w3_util as W3
    st = W3.real_clock(SC, cs['month'], cs['day'], cs['secDay'],
                       list(cs['inobis'] if cs['inobis'] is not None else INOBIS))
    return SC(NS(canAspect=conv(cs['canAspect'])), None, st,
              NS(lon=conv(cs['lon']), lat=conv(cs['lat']), gmt=conv(cs['gmt'])), None, None, None)


class Locals(object):
    """Reads the local variable `ha` of `solarangles` from outside (profile hook on return)."""
    def __init__(self):
        self.loc = {}

    def __call__(self, frame, event, arg):
        if event == 'return' and frame.f_code.co_name == 'solarangles':
            self.loc = dict(frame.f_locals)


def run_exact(SC, cs):
    """The REAL solarangles over exact rationals. Returns (answer line, has_ha)."""
    sc = make_sc(SC, cs)
    hook = Locals()
    try:
        sys.setprofile(hook)
        try:
            sc.solarangles()
        finally:
            sys.setprofile(None)
    except IndexError:
        return 'err index', True
    except ZeroDivisionError:
        return 'err zerodiv', True
    except ValueError:
        return 'err value', True
    except AssertionError:
        return 'err assert', True
    except AttributeError:
        return 'err attr', True
    vals = {}
    for k in FIELDS:
        if k == 'ha':
            if isinstance(hook.loc.get('ha'), (int, F)):
                vals[k] = hook.loc['ha']
            continue
        v = getattr(sc, k, None)
        if not isinstance(v, (int, F)):
            return 'err attr', True
        vals[k] = v
    return 'ok ' + ' '.join('%s=%s' % (k, frac_str(vals[k])) for k in FIELDS if k in vals), 'ha' in vals


def branch_of(line, impl):
    if impl.startswith('err'):
        return impl
    d = dict(kv.split('=') for kv in impl.split(' ')[1:])
    z, t = F(d['zenith']), F(d['tanzen'])
    half = F(355, 226)
    if abs(half - z) < F(1, 10 ** 6):
        b = 'clamp-horizon+' if half - z > 0 else 'clamp-horizon-'
    elif abs(z) < F(1, 10 ** 6):
        b = 'clamp-zenith0'
    else:
        b = 'tan'
    return b + ('/crit=1' if F(d['critOrient']) == 1 else '/crit<1')


def clamp_probes(SC, rng, sites, n):
    """Cases steered into the three tanzen clamps. With the stub symbols the zenith is a quadratic
    in zlat (= lat*pi/180): solve for the target and take a rational latitude close to the root."""
    out = []
    pi = F(355, 113)
    tries = 0
    while len(out) < n and tries < 40 * n:
        tries += 1
        cs = gen_main(rng, sites)
        cs['lat'] = F(0)
        sc = make_sc(SC, cs)
        hook = Locals()
        try:
            sys.setprofile(hook)
            try:
                sc.solarangles()
            finally:
                sys.setprofile(None)
        except Exception:
            continue
        ha, d = hook.loc.get('ha'), getattr(sc, 'decsol', None)
        if not isinstance(ha, F) or not isinstance(d, F):
            continue
        c = (1 - d * d / 2) * (1 - ha * ha / 2)
        # offsets straddle the 1e-6 thresholds so that a changed threshold or comparison shows up
        target = rng.choice([pi / 2, F(0)])
        eps = rng.choice([-1, 1]) * F(rng.choice(['1e-8', '5e-7', '9.9e-7', '1.01e-6', '2e-6', '5e-6']))
        # zenith = 1 - zl*d - (1 - zl^2/2)*c  = target + eps
        A, B, C = c / 2, -d, 1 - c - target - eps
        disc = B * B - 4 * A * C
        if A == 0 or disc < 0:
            continue
        root = (float(-B) + rng.choice([1, -1]) * math.sqrt(float(disc))) / float(2 * A)
        zl = F(root).limit_denominator(10 ** 12)
        cs['lat'] = zl * 180 / pi
        cs['kind'] = 'clamp-probe'
        out.append(cs)
    return out


# ----------------------------------------------------------------------------- float references
def doy_of(month, day):
    return (datetime.date(2001, month, 1) - datetime.date(2001, 1, 1)).days + day


def noaa_cosz(month, day, sec, lat, lon, tz):
    """Independent NOAA low-accuracy solar position; longitude east-positive, tz hours east."""
    hour = sec / 3600.0
    g = 2 * math.pi / 365.0 * (doy_of(month, day) - 1 + (hour - 12.0) / 24.0)
    eqtime = 229.18 * (0.000075 + 0.001868 * math.cos(g) - 0.032077 * math.sin(g)
                       - 0.014615 * math.cos(2 * g) - 0.040849 * math.sin(2 * g))
    decl = (0.006918 - 0.399912 * math.cos(g) + 0.070257 * math.sin(g) - 0.006758 * math.cos(2 * g)
            + 0.000907 * math.sin(2 * g) - 0.002697 * math.cos(3 * g) + 0.00148 * math.sin(3 * g))
    tst = hour * 60.0 + eqtime + 4.0 * lon - 60.0 * tz
    ha = math.radians(tst / 4.0 - 180.0)
    la = math.radians(lat)
    return math.sin(la) * math.sin(decl) + math.cos(la) * math.cos(decl) * math.cos(ha)


def ascoded_cosz(month, day, sec, lat, lon, tz):
    """The recorded deviation pattern (my transcription, NOT the code under test): west-positive
    signs and the hours-as-days fractional year.  Used only to tell the known deviation from a
    different defect."""
    ut = (int(sec) / 3600.0) % 24.0
    date = doy_of(month, day) - 1
    ad = 2 * math.pi / 365.0 * (date - 1 + ut - 0.5)
    eqtime = 229.18 * (0.000075 + 0.001868 * math.cos(ad) - 0.032077 * math.sin(ad)
                       - 0.01461 * math.cos(2 * ad) - 0.040849 * math.sin(2 * ad))
    decl = (0.006918 - 0.399912 * math.cos(ad) + 0.070257 * math.sin(ad) - 0.006758 * math.cos(2 * ad)
            + 0.000907 * math.sin(2 * ad) - 0.002697 * math.cos(3 * ad) + 0.00148 * math.sin(3 * ad))
    tst = sec + (eqtime - 4.0 * lon + 60.0 * tz) * 60.0
    ha = math.radians(tst / 240.0 - 180.0)
    la = math.radians(lat)
    return math.sin(la) * math.sin(decl) + math.cos(la) * math.cos(decl) * math.cos(ha)


def meeus_cosz(month, day, sec, lat, lon, tz, year=2001):
    """Second, structurally different reference: the Meeus-based algorithm of the NOAA solar
    calculator spreadsheet (geometric, no refraction)."""
    a = (14 - month) // 12
    y = year + 4800 - a
    m = month + 12 * a - 3
    jdn = day + (153 * m + 2) // 5 + 365 * y + y // 4 - y // 100 + y // 400 - 32045
    jd = jdn - 0.5 + sec / 86400.0 - tz / 24.0
    T = (jd - 2451545.0) / 36525.0
    L0 = (280.46646 + T * (36000.76983 + T * 0.0003032)) % 360.0
    M = 357.52911 + T * (35999.05029 - 0.0001537 * T)
    e = 0.016708634 - T * (0.000042037 + 0.0000001267 * T)
    Mr = math.radians(M)
    C = (math.sin(Mr) * (1.914602 - T * (0.004817 + 0.000014 * T))
         + math.sin(2 * Mr) * (0.019993 - 0.000101 * T) + math.sin(3 * Mr) * 0.000289)
    om = math.radians(125.04 - 1934.136 * T)
    lam = math.radians(L0 + C - 0.00569 - 0.00478 * math.sin(om))
    eps0 = 23.0 + (26.0 + (21.448 - T * (46.815 + T * (0.00059 - T * 0.001813))) / 60.0) / 60.0
    eps = math.radians(eps0 + 0.00256 * math.cos(om))
    decl = math.asin(math.sin(eps) * math.sin(lam))
    yy = math.tan(eps / 2.0) ** 2
    L0r = math.radians(L0)
    eot = 4.0 * math.degrees(yy * math.sin(2 * L0r) - 2 * e * math.sin(Mr)
                             + 4 * e * yy * math.sin(Mr) * math.cos(2 * L0r)
                             - 0.5 * yy * yy * math.sin(4 * L0r) - 1.25 * e * e * math.sin(2 * Mr))
    tst = (sec / 60.0 + eot + 4.0 * lon - 60.0 * tz) % 1440.0
    ha = math.radians(tst / 4.0 - 180.0)
    la = math.radians(lat)
    return math.sin(la) * math.sin(decl) + math.cos(la) * math.cos(decl) * math.cos(ha)


class FloatCode(object):
    """The REAL float solarangles (plain `uwg` package of the tree under test)."""
    def __init__(self):
        core.repo_python_path()
        from uwg.solarcalcs import SolarCalcs
        import w3_util as W3
        self.st = W3.real_clock(SolarCalcs, 1, 1, 0, list(INOBIS))
        self.rsm = NS(lat=0.0, lon=0.0, gmt=0.0)
        self.sc = SolarCalcs(NS(canAspect=1.0), None, self.st, self.rsm, None, None, None)
        self.errors = 0

    def cosz(self, month, day, sec, lat, lon, tz):
        self.st.month, self.st.day, self.st.secDay = month, day, sec
        self.rsm.lat, self.rsm.lon, self.rsm.gmt = lat, lon, tz
        try:
            self.sc.solarangles()
            return math.cos(self.sc.zenith)
        except Exception:
            self.errors += 1
            return None

    def zen(self, month, day, sec, lat, lon, tz):
        c = self.cosz(month, day, sec, lat, lon, tz)
        return None if c is None else self.sc.zenith


def grid(tier, sites):
    lats = [-66.0, -45.0, -23.5, 0.0, 23.5, 45.0, 66.0]
    lons = [float(x) for x in range(-180, 181, 30)]
    days = [(m, d) for m in range(1, 13) for d in ((1, 15) if tier == 'quick' else (1, 8, 15, 22, 28))]
    secs = [3600 * h + 1800 for h in range(24)] + [0, 32400]
    pts = []
    for lat in lats:
        for lon in lons:
            nat = round(lon / 15.0)
            zones = sorted(set([nat, nat - 1, nat + 1, -12, 0, 12])) if tier == 'quick' else list(range(-12, 15))
            for tz in zones:
                pts.append((lat, lon, float(tz), 'natural' if tz == nat else 'other'))
    for name, la, lo, tz in sites:
        pts.append((float(la), float(lo), float(tz), 'shipped:' + name))
    return pts, days, secs


def float_measure(chk, fc, sites):
    """Grid measurement + search for a deviation from NOAA that the recorded pattern does not
    explain. Returns the first unexplained point (or None)."""
    pts, days, secs = grid(chk.tier, sites)
    worst = {'all': (0.0, None), 'natural': (0.0, None), 'shipped': (0.0, None)}
    worst_ref = (0.0, None)
    worst_meeus = (0.0, None)
    n = differs = unexplained = 0
    first_unexpl = None
    for lat, lon, tz, cls in pts:
        for (mo, dy) in days:
            for sec in secs:
                n += 1
                c_real = fc.cosz(mo, dy, sec, lat, lon, tz)
                c_noaa = noaa_cosz(mo, dy, sec, lat, lon, tz)
                c_me = meeus_cosz(mo, dy, sec, lat, lon, tz)
                dref = abs(c_noaa - c_me)
                if dref > worst_ref[0]:
                    worst_ref = (dref, (mo, dy, sec, lat, lon, tz))
                if c_real is None:
                    continue
                d = abs(c_real - c_noaa)
                dm = abs(c_real - c_me)
                if dm > worst_meeus[0]:
                    worst_meeus = (dm, (mo, dy, sec, lat, lon, tz))
                for key in ('all', 'natural' if cls == 'natural' else None,
                            'shipped' if cls.startswith('shipped') else None):
                    if key and d > worst[key][0]:
                        worst[key] = (d, (mo, dy, sec, lat, lon, tz, c_real, c_noaa))
                if d > 2e-4:       # beyond the 0.014615/0.01461 coefficient and rounding
                    differs += 1
                    c_asc = ascoded_cosz(mo, dy, sec, lat, lon, tz)
                    if abs(c_real - c_asc) > 1e-9:
                        unexplained += 1
                        if first_unexpl is None:
                            first_unexpl = dict(month=mo, day=dy, secDay=sec, lat=lat, lon=lon, gmt=tz,
                                                cos_zenith_real=c_real, cos_zenith_noaa=c_noaa,
                                                cos_zenith_recorded_deviation=c_asc)

    def fmt(w):
        if w[1] is None:
            return None
        return {'max_abs_diff': w[0], 'at(month,day,secDay,lat,lon,tz[,real,noaa])': list(w[1])}
    sgp = dict(month=1, day=1, secDay=32400, lat=1.37, lon=103.98, gmt=8.0)
    chk.measurements['cos_zenith_grid'] = {
        'what': 'float solarangles of the tree under test vs independent NOAA implementation (measurement, '
                'not a verdict)',
        'grid': '%d sites (lat +-66 x lon -180..180 step 30 x zones) + shipped headers, %d dates, %d times'
                % (len(pts), len(days), len(secs)),
        'points': n, 'float_code_errors': fc.errors,
        'points_differing_from_noaa_by>2e-4': differs,
        'of_those_not_explained_by_recorded_deviation': unexplained,
        'max_real_vs_noaa_all_sites': fmt(worst['all']),
        'max_real_vs_noaa_natural_zone_sites': fmt(worst['natural']),
        'max_real_vs_noaa_shipped_headers': fmt(worst['shipped']),
        'max_real_vs_meeus': fmt(worst_meeus),
        'max_noaa_vs_meeus(reference cross-check)': fmt(worst_ref),
        'singapore_jan01_0900(the witness quoted in the known finding)': {
            'real': fc.cosz(1, 1, 32400, 1.37, 103.98, 8.0),
            'noaa': noaa_cosz(1, 1, 32400, 1.37, 103.98, 8.0),
            'meeus': meeus_cosz(1, 1, 32400, 1.37, 103.98, 8.0), 'case': sgp},
    }
    return n, differs, unexplained, first_unexpl


def epw_measure(chk, fc):
    """cos(zenith)*DNI + DHI against global horizontal (column 13), hour midpoints."""
    res = {}
    for path in epw_files():
        with open(path, 'r', errors='ignore') as f:
            rows = list(csv.reader(f))
        lat, lon, tz = float(rows[0][6]), float(rows[0][7]), float(rows[0][8])
        acc = {k: [0, 0.0, 0.0, 0.0] for k in ('real', 'noaa', 'meeus')}
        used = 0
        for r in rows[8:]:
            if len(r) < 16:
                continue
            try:
                mo, dy, hr = int(r[1]), int(r[2]), int(r[3])
                ghi, dni, dhi = float(r[13]), float(r[14]), float(r[15])
            except ValueError:
                continue
            if (mo, dy) == (2, 29) or ghi <= 0 or max(ghi, dni, dhi) >= 9000:
                continue
            sec = 3600 * hr - 1800
            used += 1
            for k, fn in (('real', fc.cosz), ('noaa', noaa_cosz), ('meeus', meeus_cosz)):
                c = fn(mo, dy, sec, lat, lon, tz)
                if c is None:
                    continue
                e = max(c, 0.0) * dni + dhi - ghi
                a = acc[k]
                a[0] += 1
                a[1] += abs(e)
                a[2] += e * e
                a[3] += e
        res['/'.join(path.split(os.sep)[-3:])] = {
            'header(lat,lon_east,tz_east)': [lat, lon, tz], 'daylight_hours_used': used,
            **{k: ({'mean_abs_err_W/m2': round(a[1] / a[0], 2), 'rmse_W/m2': round(math.sqrt(a[2] / a[0]), 2),
                    'bias_W/m2': round(a[3] / a[0], 2)} if a[0] else None) for k, a in acc.items()}}
    chk.measurements['epw_global_horizontal'] = {
        'what': 'max(cos zenith,0)*DNI(col 14) + DHI(col 15) - GHI(col 13) over rows with GHI>0, sun position '
                'at the middle of the hour the row ends; a fact about data files, cannot be a theorem',
        'files': res}


# ----------------------------------------------------------------------------- run
def load_finding(chk):
    for k in chk.known_findings():
        if k['id'] == FINDING_ID:
            return k
    return None


def header_handover(chk):
    """Site data must reach the sun-position routine exactly as the EPW header gives it: generate()
    on copies of the Singapore file with synthetic LOCATION lines (time zone 0, negative, fractional;
    longitudes of both signs), then lat / lon / gmt of the model and of its RSM objects, and the zenith
    the real SolarCalcs computes for them, are compared with the header values."""
    import csv
    import io
    import contextlib
    import core
    import uwgutil as U
    uwg = U.uwg_mod()
    work = chk.work()
    src = list(csv.reader(open(U.rp(U.EPW_SGP), newline='', errors='ignore')))
    heads = [('38.72', '-9.14', '0.0'), ('64.13', '-21.9', '0.0'), ('14.69', '-17.45', '0'), ('43.8', '87.6', '6.0'),
             ('43.8', '87.6', '8.0'), ('-33.9', '18.6', '2.0'), ('-33.9', '18.6', '1.0'), ('28.6', '77.2', '5.5'),
             ('47.6', '-52.7', '-3.5'), ('1.37', '103.98', '8.0'), ('-17.5', '-149.6', '-10.0')]
    bad = 0
    for k, (la, lo, tz) in enumerate(heads):
        rows = [list(r) for r in src]
        rows[0][6], rows[0][7], rows[0][8] = la, lo, tz
        pth = os.path.join(work, 'hdr%d.epw' % k)
        with open(pth, 'w', newline='') as f:
            csv.writer(f, lineterminator='\n').writerows(rows)
        m = U.new_model(epw=pth, outdir=work, outname='h.epw', nday=1)
        with contextlib.redirect_stdout(io.StringIO()):
            m.generate()
        got = (m.lat, m.lon, m.gmt, m.RSM.lat, m.RSM.lon, m.RSM.gmt)
        want = (float(la), float(lo), float(tz)) * 2
        # and what the real routine computes from them at 09:00 on 21 March, against the as-coded formula
        import w3_util as W3
        sol = uwg.SolarCalcs(m.UCM, m.BEM, W3.real_clock(uwg.SolarCalcs, 3, 21, 32400, m.simTime.inobis),
                             m.RSM, m.forc, m.geoParam, m.rural)
        sol.solarangles()
        ref = ascoded_cosz(3, 21, 32400, float(la), float(lo), float(tz))
        if got != want or abs(math.cos(sol.zenith) - ref) > 1e-9:
            bad += 1
            chk.violation('impl-violation', 'site data of the EPW header does not reach the sun-position routine',
                          case={'latitude': la, 'longitude': lo, 'time_zone': tz},
                          observed={'model (lat, lon, gmt, RSM.lat, RSM.lon, RSM.gmt)': got,
                                    'cos_zenith': math.cos(sol.zenith)},
                          expected={'header': want[:3], 'cos_zenith(as coded, header values)': ref})
    chk.direct('header-handover(generate on synthetic LOCATION lines)', len(heads), len(heads),
               'lat / lon / time zone of synthetic EPW headers (zone 0, negative, fractional; several files with '
               'equal coordinates and different zones, run in one process) must arrive unchanged in the model and its '
               'RSM objects, and the real solarangles must use them', mismatches=bad)


def live_sun(chk, fc):
    """The sun position used INSIDE real runs on legal but never-varied rural files.

    The property ties the sun position of every step to latitude / longitude / time zone of the LOCATION line (EPW
    records are in local STANDARD time). Everything else in the header - a daylight-saving period (given as m/d,
    wrapping the year end, as day of year or as text), the leap-year flag, holidays, the start week-day, filled
    soil-property cells, comments - is not an input of the sun position, and neither is an extra day in an
    8784-row file (365-day clock). Real generate()+simulate() on such files, with `uwg.uwg.SolarCalcs` replaced by a
    recording subclass: at every call of `solarangles` (month, day, secDay, zenith, RSM.lat/lon/gmt) is logged, and
    the zenith must be (a) bit-identical to the SAME float routine evaluated stand-alone for the header's
    lat/lon/zone and the clock's true month/day/second of that step, (b) equal (1e-9 in cos) to the independent
    transcription of the formula the exact tie has just confirmed (as coded, or NOAA to 2e-4 if repaired)."""
    import contextlib
    import io
    import s1_util as S
    import simdriver
    import uwg.uwg as UU
    from uwg.solarcalcs import SolarCalcs as RealSC
    rng = chk.rng
    work = chk.work()
    thorough = chk.tier == 'thorough'
    log = []

    class Rec(RealSC):
        def solarangles(self):
            RealSC.solarangles(self)
            log.append((self.simTime.month, int(self.simTime.day), self.simTime.secDay, self.zenith,
                        self.RSM.lat, self.RSM.lon, self.RSM.gmt))

    # which transcription describes the routine under test (decided on a probe, never a verdict by itself)
    probe = (6, 15, 36000, 42.37, -71.02, -5.0)
    c_probe = fc.cosz(*probe)
    if c_probe is not None and abs(c_probe - ascoded_cosz(*probe)) < 1e-9:
        ref, tol, refname = ascoded_cosz, 1e-9, 'as-coded transcription'
    elif c_probe is not None and abs(c_probe - noaa_cosz(*probe)) < 2e-4:
        ref, tol, refname = noaa_cosz, 2e-4, 'NOAA'
    else:
        ref, tol, refname = None, None, 'none (routine matches neither transcription at the probe)'

    boston = simdriver.epw_path('USA_MA_Boston-Logan.Intl.AP.725090_TMY3.epw')
    sgp = simdriver.epw_path()
    srcs = {'boston': S.load_epw(boston), 'singapore': S.load_epw(sgp)}
    # (site, variant, start inside the declared DST period where there is one, dtsim)
    north_in = [(6, 15), (7, 4), (3, 20), (10, 20), (4, 2)]
    plan = []
    for name in S.GROUPS['dst']:
        start = rng.choice([(1, 15), (12, 5), (11, 2)]) if 'wraps' in name else rng.choice(north_in)
        plan.append(('boston', name, start, 300))
    plan.append(('boston', 'actual-year-header', rng.choice(north_in), rng.choice([150, 100, 90])))
    plan.append(('singapore', 'actual-year-header', rng.choice(north_in), 300))
    plan.append(('singapore', 'leap8784+dst-3/8-11/1', rng.choice([(3, 1), (6, 21), (2, 28)]), 300))
    plan.append(('boston', rng.choice(S.GROUPS['weekday']) + '+leapflag-Yes+holidays-listed',
                 rng.choice([(3, 1), (9, 22)]), 300))
    plan.append(('boston', 'base', (1, 15) if not thorough else (6, 15), 300))
    # year cells of the data rows (legal, never varied: every shipped run starts on a row stamped with a non-leap year)
    import w3_util as W3
    stamps = sorted(W3.YEAR_STAMPS)
    late = [(3, 1), (3, 2), (6, 21), (8, 1), (9, 22), (12, 31)]
    for k, name in enumerate(stamps if thorough else rng.sample(stamps, 4)):
        plan.append((('singapore', 'boston')[k % 2], 'base+' + name, rng.choice(late) if k % 4 != 3 else
                     rng.choice([(1, 10), (2, 28)]), 300))
    plan.append(('singapore', 'base+years-all-2024(leap)', rng.choice(late), 300))
    if thorough:
        for name in S.GROUPS['dst'] + S.GROUPS['ground'] + S.GROUPS['text'] + ['leap8784']:
            plan.append((rng.choice(['boston', 'singapore']), name,
                         (rng.randint(1, 12), rng.randint(1, 28)), rng.choice([300, 225, 90, 50])))
    bad, ncalls, nruns, branches = 0, 0, 0, {}
    saved = UU.SolarCalcs
    try:
        UU.SolarCalcs = Rec
        for k, (site, name, (mo, dy), dt) in enumerate(plan):
            rows = S.apply_variant(srcs[site], name.split('+years-')[0])
            if '+years-' in name:
                rows = W3.stamp_years(rows, 'years-' + name.split('+years-')[1])
            path = S.save_epw(rows, os.path.join(work, 'sun%d.epw' % k))
            hdr = (float(rows[0][6]), float(rows[0][7]), float(rows[0][8]))
            del log[:]
            case = {'site': site, 'epw_variant': name, 'HOLIDAYS/DAYLIGHT SAVINGS': rows[4], 'DATA PERIODS': rows[7],
                    'month': mo, 'day': dy, 'nday': 1, 'dtsim': dt}
            if '+years-' in name:
                case['year_cell_of_the_first_simulated_row'] = rows[8 + 24 * S.doy0(mo, dy)][0]
                case['data_rows'] = len(rows) - 8
            try:
                with contextlib.redirect_stdout(io.StringIO()):
                    m = simdriver.build_model(mo, dy, 1, dt, epw=path)
                    m.simulate()
            except Exception as e:  # noqa: BLE001 - the model's own fail-stop is not a verdict of this property
                if not log:
                    chk.notes.append('live sun run %s skipped: %s: %s' % (case, type(e).__name__, str(e)[:80]))
                    branches['skipped(model raised)'] = branches.get('skipped(model raised)', 0) + 1
                    continue
            nruns += 1
            bk = 'year-cells' if '+years-' in name else name.split('-')[0]
            branches[bk] = branches.get(bk, 0) + 1
            t0 = S.doy0(mo, dy) * 86400
            seen_t = {}
            for (lmo, ldy, lsec, zen, la, lo, tz) in log:
                ncalls += 1
                # the true instant of the call: solarangles runs once per step, in step order, in daylight only;
                # the clock fields it sees must be a valid instant of the simulated day
                sec = int(lsec)
                z_self = fc.zen(lmo, ldy, lsec, *hdr)
                what = None
                if (la, lo, tz) != hdr:
                    what = ('site data in force at the call differ from the LOCATION line', (la, lo, tz), hdr)
                elif z_self is None or zen != z_self:
                    what = ('zenith used by the run is not the routine\'s own value for the header site at that instant',
                            zen, z_self)
                elif ref is not None and abs(math.cos(zen) - ref(lmo, ldy, lsec, *hdr)) > tol:
                    what = ('cos(zenith) used by the run vs %s for the header site at that instant' % refname,
                            math.cos(zen), ref(lmo, ldy, lsec, *hdr))
                elif (lmo, ldy) not in ((mo, dy), _next_day(mo, dy)) or not (0 <= sec < 86400) or sec % dt:
                    what = ('clock seen by solarangles is not an instant of the simulated day', (lmo, ldy, lsec),
                            'a multiple of dtsim within %d/%d' % (mo, dy))
                if what:
                    bad += 1
                    if bad <= 2:
                        chk.violation('impl-violation', 'sun position inside a real run vs the weather-file header: ' + what[0],
                                      case=dict(case, clock={'month': lmo, 'day': ldy, 'secDay': lsec},
                                                header_lat_lon_zone=hdr),
                                      observed=what[1], expected=what[2],
                                      how='s1_util.apply_variant(load_epw(<site file>), epw_variant); real generate() + '
                                          'simulate(); zenith logged at every solarangles call')
                    break
    finally:
        UU.SolarCalcs = saved
    chk.direct('live-sun(real runs on header / leap-file variants)', ncalls, nruns,
               'real generate()+simulate() (1 day, dtsim 300/150/100/90) on Boston and Singapore files whose header '
               'declares a daylight-saving period (m/d, m/d with blanks, wrapping the year end, day-of-year, textual) with '
               'the simulated day INSIDE the period, an actual-year header, leap flag, holidays, other start week-day, '
               'an 8784-row file, 8760-row files whose data rows are stamped with other YEARS (all rows a leap year / 2000 / '
               '1900 / a common year; a typical-year mix of leap and common years per month; dates before and after 1 March): at every solarangles call of the run the site data in force are the LOCATION '
               'values, the zenith is bit-identical to the stand-alone routine for (header lat, lon, zone; clock '
               'month, day, second) and agrees with the %s to %s' % (refname, tol),
               mismatches=bad, branches=branches)

# ----------------------------------------------------------------------------- round 5: the sun inside the step loop
def sun_every_step(chk, fc):
    """C12 quantifies over EVERY time step of the day. The kernel ties evaluate `solarangles` for any second; the live
    ties so far ran at dtsim >= 90 s and looked only at the calls that were made. Here the REAL float loop of
    `simulate()` runs with the REAL SolarCalcs (everything after the solar update stubbed: v3_util.sun_driver_run) for
    sub-minute and off-minute time steps, and the state is read BETWEEN the solar update and the rest of the step: the
    sun position in use must be that of the step's own instant (computed from the start date and the step count, not
    from the model's clock), refreshed at every step, and the horizontal irradiance handed to the rural site and the
    roofs must be direct-normal x cos(zenith of this step) + diffuse."""
    import simdriver
    import u3_util as U3
    import v3_util as V3
    rng = chk.rng
    quick = chk.tier == 'quick'
    work = os.path.join(chk.work(), 'sunloop')
    os.makedirs(work, exist_ok=True)
    probe = (6, 15, 36010, 42.37, -71.02, -5.0)
    c_probe = fc.cosz(*probe)
    if c_probe is not None and abs(c_probe - ascoded_cosz(*probe)) < 1e-9:
        ref, tol, refname = ascoded_cosz, 1e-9, 'as-coded transcription'
    elif c_probe is not None and abs(c_probe - noaa_cosz(*probe)) < 2e-4:
        ref, tol, refname = noaa_cosz, 2e-4, 'NOAA'
    else:   # the routine matches neither transcription (a kernel defect the exact tie reports): judge the loop by the routine
        ref, tol, refname = None, None, 'none'
    src = U3.load_rows(simdriver.epw_path())
    files = {}

    def site_path(site):
        if site not in files:
            files[site] = U3.site_file(src, site[0], site[1], site[2], os.path.join(work, 'site%d.epw' % len(files)))
        return files[site]
    starts = [(6, 21), (12, 21), (3, 20), (9, 30), (1, 1), (7, 4), (2, 28), (12, 31), (4, 30)]
    if quick:
        dts = [rng.choice([1, 2, 3])] + rng.sample([4, 5, 6, 8, 9, 10], 2) + rng.sample([12, 15, 16, 18, 20], 2) + \
            rng.sample([24, 25, 30], 2) + rng.sample(V3.OFFMINUTE, 2) + [rng.choice([60, 120, 300, 600])]
        plan = [(dt, rng.choice(SITES4), rng.choice(starts), 1, 3000) for dt in dts]
        plan.append((rng.choice([15, 20, 30, 40]), rng.choice(SITES4), rng.choice([(2, 28), (4, 30), (12, 31)]), 2, None))
    else:
        plan = [(dt, rng.choice(SITES4), rng.choice(starts), 1, None) for dt in V3.DIVISORS if dt <= 900]
        plan += [(dt, rng.choice(SITES4), st, 3, None) for dt in (10, 20, 30, 45) for st in ((2, 27), (12, 30))]
    bad, nsteps, nsun, nruns, br = 0, 0, 0, 0, {}
    for (dt, site, (mo, dy), nday, budget) in plan:
        if (mo, dy) == (12, 31) and nday > 1:
            mo, dy = 12, 30         # (a window past 31 Dec is refused by the reader: not this property)
        hdr = tuple(float(x) for x in site)
        case = {'LOCATION(lat, lon, zone)': list(site), 'rows': 'those of the shipped Singapore file', 'month': mo,
                'day': dy, 'nday': nday, 'dtsim': dt}
        try:
            with core.quiet():
                m = simdriver.build_model(mo, dy, nday, dt, epw=site_path(site))
        except Exception as e:  # noqa: BLE001
            chk.notes.append('sun-loop run %s not built: %s' % (case, str(e)[:80]))
            continue
        run = V3.sun_driver_run(m, mo, dy, hdr, lambda a, b, c: fc.zen(a, b, c, *hdr), budget=budget, ref=ref, tol=tol)
        nruns += 1
        nsteps += run.steps
        nsun += run.sunlit
        k = 'dt<=30' if dt <= 30 else 'off-minute' if dt % 60 else 'whole minutes'
        br[k] = br.get(k, 0) + 1
        if run.error:
            chk.notes.append('sun-loop run %s: %s' % (case, run.error))
        if (hdr[0], hdr[1], hdr[2]) != (m.RSM.lat, m.RSM.lon, m.RSM.gmt):
            run.problems.insert(0, ('site of the model is not the LOCATION line', {}, (m.RSM.lat, m.RSM.lon, m.RSM.gmt), hdr))
        if run.skipped:
            br['steps without exactly one solar update (information)'] = \
                br.get('steps without exactly one solar update (information)', 0) + run.skipped
        for (kind, at, obs, exp) in run.problems[:1]:
            bad += 1
            if bad <= 3:
                chk.violation('impl-violation', 'the sun inside the step loop: ' + kind, case=dict(case, **at),
                              observed=obs, expected=exp,
                              how='v3_util.sun_driver_run: real simulate() with the real SolarCalcs, the physics after the '
                                  'solar update stubbed, state read at rural.SurfFlux (first call after the solar update)')
    if nruns and not nsun:
        raise core.Infra('sun-loop: no sunlit step observed')
    chk.direct('sun-in-use-at-every-step(real loop, dtsim 1..30 s, off-minute and whole-minute steps)', nsteps, nruns,
               'the REAL float loop of simulate() with the REAL SolarCalcs, physics after the solar update stubbed, observed '
               'BETWEEN the solar update and the rest of the step; rows of the shipped Singapore file under LOCATION lines '
               'drawn from 7 sites (both hemispheres, zones -10 .. +10, fractional); starts 6/21, 12/21, 3/20, 9/30, 1/1, '
               '7/4, 2/28, 12/31, 4/30. Quick: one dtsim of {1, 2, 3}, two of {4..10}, two of {12..20}, two of {24, 25, 30}, '
               'two off-minute (40, 45, 48, 50, 72, 75, 80, 90, 100, ...), one whole-minute; each observed until 3000 sunlit '
               'steps have been judged; plus a 2-day window across a month end. Thorough: all divisors of 3600 up to 900 '
               'for a whole day, 3-day windows across 28 Feb / 31 Dec. Per step: the radiation model.solar worked with = the '
               'forcing in force; zenith in use bit-identical to the stand-alone routine for '
               '(header site; TRUE instant = start + it x dt from an independent calendar) and within %s of the %s; '
               'rural site and roofs receive max(cos(zenith) x direct-normal, 0) + diffuse bit for bit; all-zero when the '
               'row reports no sun' % (tol, refname), mismatches=bad,
               branches=dict(br, sunlit_steps=nsun))


# ----------------------------------------------------------------------------- round 4: routes, histories, circumstances
SITES4 = [('52.0', '15.0', '1.0'), ('-35.0', '150.0', '10.0'), ('38.72', '-9.14', '0.0'), ('28.6', '77.2', '5.5'),
          ('47.6', '-52.7', '-3.5'), ('-17.5', '-149.6', '-10.0'), ('64.13', '-21.9', '0.0')]


def routes_and_histories(chk):
    """The parts of C12 that hold on the unchanged tree, judged at EVERY solarangles call of real runs (u3_util.SunMonitor):
    (a) the site handed to the sun-position routine is the LOCATION line of the rural file in force and the zenith is
    the routine's own value for that site and the clock; (b) the date of the sun is the date of the forcing row.
    Explored: which route built the model, what the dictionary / the object went through before, what the command
    line offers - none of which is an input of the sun position. Silent about the recorded deviation (the zenith is
    compared with the routine itself, not with astronomy)."""
    import generic as G
    import uwgutil as UU
    import u3_util as U3
    rng = chk.rng
    quick = chk.tier == 'quick'
    uwg = UU.uwg_mod()
    work = os.path.join(chk.work(), 'routes12')
    os.makedirs(work, exist_ok=True)
    src = U3.load_rows(UU.rp(UU.EPW_SGP))
    sa, sb = rng.sample(SITES4, 2)
    fa = U3.site_file(src, sa[0], sa[1], sa[2], os.path.join(work, 'siteA.epw'), city='A')
    fb = U3.site_file(src, sb[0], sb[1], sb[2], os.path.join(work, 'siteB.epw'), city='B')
    month, day = rng.choice([(6, 21), (12, 21), (3, 1), (2, 28), (9, 30), (12, 31), (1, 1)])
    params = dict(bldheight=10, blddensity=0.5, vertohor=0.8, grasscover=0.1, treecover=0.1, zone='1A', month=month,
                  day=day, nday=1, dtsim=300, bld=[('largeoffice', 'pst80', 0.6), ('midriseapartment', 'new', 0.4)])
    case0 = {'site_A(lat,lon,zone)': sa, 'site_B(lat,lon,zone)': sb, 'month': month, 'day': day, 'nday': 1, 'dtsim': 300,
             'rows': 'those of the shipped Singapore file'}
    nbad = [0]
    br = {}

    def bad(what, case, observed, expected):
        nbad[0] += 1
        if nbad[0] <= 4:
            chk.violation('impl-violation', what, case=dict(case0, **case), observed=observed, expected=expected)

    def judge(label, r, ref=None, route_case=None):
        br[label.split(':')[0]] = br.get(label.split(':')[0], 0) + 1
        case = dict(route_case or {}, scenario=label, rural_file_in_force='site B')
        mon = r['monitors'].get('sun', {})
        for pr in mon.get('problems', [])[:1]:
            bad('sun position inside a real run (%s)' % label, case, pr,
                'site = LOCATION line of the rural file in force; date of the sun = date of the forcing row')
        if r.get('error') or r.get('rc'):
            bad('run refused / failed (%s)' % label, case, '%s %s' % (r.get('error', r.get('rc')), r.get('error_msg', '')),
                'simulated like the model set up directly for the file')
            return
        if not mon.get('problems') and mon.get('counts', {}).get('calls', 0) == 0:
            bad('no sun-position call seen (%s)' % label, case, str(mon.get('counts')), 'daylight steps')
        if ref is not None and r.get('site') is not None and tuple(r['site']) != tuple(float(x) for x in sb):
            bad('site of the model (%s)' % label, case, str(r['site']), 'LOCATION line of site B %s' % (sb,))
        if ref is not None and r.get('hash') != ref['hash']:
            fd = G.first_diff(r.get('records') or [], ref['records']) if r.get('records') else None
            bad('result differs from the model set up directly for the rural file in force (%s)' % label, case,
                'written file %s%s' % (str(r.get('hash'))[:12], '' if not fd else '; first differing record %s: %r' % (fd[0], fd[1])),
                'written file %s%s' % (ref['hash'][:12], '' if not fd else ': %r' % (fd[2],)))

    # ---- reference: parameters -> dictionary -> model directly for file B
    fresh = uwg.UWG.from_param_args(**params)
    d0 = fresh.to_dict()
    ref = U3.run_scenario(d0, fb, work, 'ref.epw', monitors=('sun',))
    judge('from_dict(fresh dictionary)', ref, None)
    # ---- the dictionary at every stage of a donor's life (donor generated for ANOTHER site)
    donor = uwg.UWG.from_param_args(epw_path=fa, new_epw_dir=work, new_epw_name='donor.epw', **params)
    stages = [('fresh donor', lambda: None), ('donor after generate()', donor.generate),
              ('donor after simulate()', donor.simulate), ('donor after write_epw()', donor.write_epw)]
    dicts = []
    dict_diffs = []
    for sname, op in stages:
        with core.quiet():
            op()
        d = donor.to_dict()
        dicts.append((sname, d))
        dict_diffs.append((sname, d, G.where_differs(d0, d)))
        br['to_dict'] = br.get('to_dict', 0) + 1
        w = G.where_differs(d0, d)
        if w and not any(x[0] != sname and x[2] for x in dict_diffs):
            bad('to_dict() depends on what the model has been through (%s)' % sname,
                {'stage': sname, 'donor_rural_file': 'site A'}, w,
                'the dictionary of a model is a function of its parameters: equal to the one taken before generate()')
    derived = {k: v for k, v in vars(donor).items() if not k.startswith('_') and k not in d0
               and (isinstance(v, (int, float, str, bool)) or v is None)}
    derived.update(site=[donor.lat, donor.lon, donor.gmt], epw_path=fa, location=sa)
    dicts.append(('hand-written dictionary with keys named like derived attributes of a generated model (%s)'
                  % ', '.join(sorted(derived)[:12]), dict(d0, **json.loads(json.dumps(derived, default=str)))))
    jsons = {}
    for i, (sname, d) in enumerate(dicts):
        dj = json.loads(json.dumps(d))
        jsons[sname] = dj
        if quick and i in (0, 2):          # quick tier: after generate(), after write_epw(), derived keys
            continue
        r = U3.run_scenario(dj, fb, work, 'h%d.epw' % i, monitors=('sun',))
        judge('from_dict(JSON of the dictionary of a %s)' % sname if i < 4 else 'from_dict(%s)' % sname, r, ref,
              {'dictionary_from': sname, 'extra_keys': sorted(set(dj) - set(d0))})
    # ---- other library routes to the same parameters on file B
    def lib_run(label, build):
        import s2_util as S2
        out = {'error': None, 'monitors': {}}
        with U3.Patch() as p:
            mon = U3.SunMonitor(p)
            try:
                m = build(mon)
                with core.quiet():
                    m.simulate()
                    m.write_epw()
                out.update(records=U3.records_list(m), hash=G.file_hash(m.new_epw_path), site=[m.lat, m.lon, m.gmt])
            except Exception as e:  # noqa: BLE001
                out.update(error=type(e).__name__, error_msg=str(e)[:160])
            out['monitors']['sun'] = mon.result()
        return out

    def route_kwargs(mon):
        m = uwg.UWG.from_param_args(epw_path=fb, new_epw_dir=work, new_epw_name='kw.epw', **params)
        with core.quiet():
            m.generate()
        mon.register(m, fb)
        return m

    def route_refile(mon):
        m = uwg.UWG.from_param_args(epw_path=fa, new_epw_dir=work, new_epw_name='refile.epw', **params)
        with core.quiet():
            m.generate()
            mon.register(m, fa)
            if rng.random() < 0.5:
                m.simulate()
            m.epw_path = fb
            m.generate()
        mon.by_forc.clear()
        mon.register(m, fb)
        return m

    def route_redate(mon):
        m = uwg.UWG.from_param_args(epw_path=fb, new_epw_dir=work, new_epw_name='redate.epw',
                                    **dict(params, month=(month + 5) % 12 + 1, day=min(day, 28)))
        with core.quiet():
            m.generate()
            m.month, m.day = month, day
            m.generate()
        mon.register(m, fb)
        return m
    judge('from_param_args', lib_run('kwargs', route_kwargs), ref)
    judge('generated for site A [simulated], epw_path = file B, generate() again', lib_run('refile', route_refile), ref)
    judge('start date assigned after generate(), generate() again', lib_run('redate', route_redate), ref)

    # a start date assigned after generate() WITHOUT generating again: whatever date the run then has, sun and rows agree
    def route_stale(mon):
        m = uwg.UWG.from_param_args(epw_path=fb, new_epw_dir=work, new_epw_name='stale.epw', **params)
        with core.quiet():
            m.generate()
        m.month, m.day = (month + 5) % 12 + 1, min(day, 28)
        mon.register(m, fb)
        return m
    judge('start date assigned after generate(), no second generate()', lib_run('stale', route_stale), None)
    # ---- rural-file variant: the YEAR cells of the data rows of file B re-stamped (8760 rows, 365-day clock): not an input
    import w3_util as W3
    stamp = rng.choice(['years-all-2024(leap)', 'years-typical-mixed(leap and not, per month)'] if quick
                       else sorted(W3.YEAR_STAMPS))
    for k, stamp_name in enumerate([stamp] if quick else sorted(W3.YEAR_STAMPS)):
        rows_b = W3.stamp_years(U3.load_rows(fb), stamp_name)
        fby = os.path.join(work, 'siteB_years%d.epw' % k)
        with open(fby, 'w', newline='') as f:
            csv.writer(f, lineterminator='\n').writerows(rows_b)
        first = rows_b[8 + 24 * (INOBIS[month - 1] + day - 1)][0]
        r = U3.run_scenario(json.loads(json.dumps(d0)), fby, work, 'years%d.epw' % k, monitors=('sun',))
        lab = 'from_dict(fresh dictionary) on file B with the data rows stamped %s' % stamp_name
        judge('year cells of the data rows', r, None, {'year_cells': stamp_name, 'year_cell_of_the_first_simulated_row': first})
        if not r.get('error') and r.get('records') != ref.get('records'):
            fd = G.first_diff(r.get('records') or [], ref['records'])
            bad('the year printed in the data rows of the rural file changes the result (%s)' % lab,
                {'scenario': lab, 'year_cells': stamp_name, 'year_cell_of_the_first_simulated_row': first,
                 'data_rows': len(rows_b) - 8},
                'first differing hourly record %s: %r' % (fd[0], fd[1]),
                'the records of the run on file B as shipped (same LOCATION line, same date, same clock time => same '
                'sun): %r' % (fd[2],))
    # ---- the command line: the same dictionaries, the shipped parameter file, and everything else it offers
    jp = os.path.join(work, 'fresh.json')
    with open(jp, 'w') as f:
        json.dump(jsons['fresh donor'], f)
    for i, sname in enumerate(['donor after generate()'] if quick else list(jsons)):
        pth = os.path.join(work, 'cli%d.json' % i)
        with open(pth, 'w') as f:
            json.dump(jsons[sname], f)
        r = U3.child_call(work, 'cli%d' % i, 'cli_scenario', epw=fb, monitors=['sun'], outfile=os.path.join(work, 'cli%d.epw' % i),
                          args=['simulate', 'model', pth, fb, '--new-epw-dir', work, '--new-epw-name', 'cli%d.epw' % i])
        judge('uwg simulate model <JSON of the dictionary of a %s>' % sname, r, ref, {'dictionary_from': sname})
    rc, path, err = G.cli_simulate_model(jsons['donor after simulate()'], fb, os.path.join(work, 'realcli'), name='real.epw')
    judge('python -m uwg simulate model (real subprocess, dictionary of a donor after simulate())',
          {'rc': rc, 'hash': G.file_hash(path) if path else None, 'monitors': {'sun': {'counts': {'calls': 1}}},
           'error_msg': err[-200:]}, ref)
    import s3_util as S3
    pf = S3.write_param_file(UU.rp(UU.PARAM_SGP), os.path.join(work, 'oneday.uwg'),
                             {'nday': '1', 'month': str(month), 'day': str(day)})
    pm = uwg.UWG.from_param_file(pf, epw_path=fb, new_epw_dir=work, new_epw_name='pf.epw')

    def route_param(mon):
        with core.quiet():
            pm.generate()
        mon.register(pm, fb)
        return pm
    pref = lib_run('param', route_param)
    judge('from_param_file(shipped .uwg with the start date and nDay = 1)', pref, None)
    r = U3.child_call(work, 'clip', 'cli_scenario', epw=fb, monitors=['sun'], outfile=os.path.join(work, 'clip.epw'),
                      args=['simulate', 'param', pf, fb, '--new-epw-dir', work, '--new-epw-name', 'clip.epw'])
    judge('uwg simulate param <shipped .uwg>', r, pref)
    # what else does the command line offer? (options without a counterpart among the library calls)
    surf = U3.child_call(work, 'surface', 'cli_surface')
    extra_cmds = sorted(set(surf) - set(U3.CLI_OPTIONS))
    explored = 0
    for cmd, prms in sorted(surf.items()):
        known = U3.CLI_OPTIONS.get(cmd)
        for ent in prms:
            if ent['kind'] != 'option' or known is None or any(nm in known for nm in ent['names']):
                continue
            if cmd not in ('uwg simulate model', 'uwg simulate param'):
                chk.notes.append('command line: option %s of `%s` has no counterpart in the unchanged tree (not explored)'
                                 % (ent['names'], cmd))
                continue
            base_args = (['simulate', 'model', jp, fb] if cmd.endswith('model') else ['simulate', 'param', pf, fb])
            base_ref = ref if cmd.endswith('model') else pref
            for k, member in enumerate(U3.option_members(ent)):
                explored += 1
                nm = 'opt%d_%d.epw' % (explored, k)
                r = U3.child_call(work, 'opt%d' % explored, 'cli_scenario', epw=fb, monitors=['sun'],
                                  outfile=os.path.join(work, nm),
                                  args=base_args + ['--new-epw-dir', work, '--new-epw-name', nm] + member)
                lab = '`%s %s`: an option the library calls have no counterpart for' % (cmd, ' '.join(member))
                br['cli-only option'] = br.get('cli-only option', 0) + 1
                mon = r['monitors'].get('sun', {})
                for pr in mon.get('problems', [])[:1]:
                    bad('sun position inside a run started with ' + lab, {'command': cmd, 'option': member,
                                                                          'declared_type': ent}, pr,
                        'site = LOCATION line of the rural file in force; date of the sun = date of the forcing row')
                if r['rc'] == 0 and not mon.get('problems') and r.get('hash') != base_ref['hash']:
                    bad('the command line produces a result no library call produces: ' + lab,
                        {'command': cmd, 'option': member, 'declared_type': ent},
                        'exit 0, written file %s' % str(r.get('hash'))[:12],
                        'the file of the library calls on the same model and rural file (%s)' % base_ref['hash'][:12])
    if extra_cmds:
        chk.notes.append('command line offers commands unknown to the unchanged tree: %s' % extra_cmds)
    chk.direct('sun-site-and-date(routes x dictionary histories x command line)', sum(br.values()), sum(br.values()),
               'real 1-day runs (dtsim 300; rows of the Singapore file under two synthetic LOCATION lines A, B drawn from 7 '
               'sites; start drawn from 6/21, 12/21, 3/1, 2/28, 9/30, 12/31, 1/1) on rural file B with every solarangles '
               'call judged: site in force == LOCATION line of B, zenith bit-identical to the routine stand-alone for '
               '(B; clock), forcing in force (dir, dif, T, p, infra) == the rural row stamped with the clock\'s date and '
               'hour. Routes: from_dict of a fresh dictionary; from_dict of the JSON of to_dict() of a DONOR model for '
               'site A taken fresh / after generate() / after simulate() / after write_epw() (and: to_dict() equal at all '
               'stages); a dictionary with extra keys named like every derived scalar attribute of a generated model '
               '(lat, lon, gmt, nSoil, site, epw_path ...); from_param_args; an object generated [and simulated] for A, '
               'then epw_path = B and generate(); start date assigned after generate() with and without a second '
               'generate(); file B with the YEAR cells of its 8760 data rows re-stamped (all rows a leap year / a typical-year '
               'mix of leap and common years; thorough: 6 stampings) - same hourly records as on file B; from_param_file; `uwg simulate model` / `uwg simulate param` executed inside a monitored child '
               'and as a real subprocess; every option the command line declares beyond those of the unchanged tree, '
               'with members drawn from its declared click type. All routes with equal parameters give the file of '
               'the model set up directly for B',
               mismatches=nbad[0], branches=br)
    chk.measurements['cli_surface'] = {k: [e['names'] for e in v if e['kind'] == 'option'] for k, v in surf.items()}

    # ---- [3] python -O at kernel level
    probs, nk = U3.kernel_verdict_problems(chk, 'C12', epw=fb)
    for lab, obs, exp in probs[:2]:
        chk.violation('impl-violation', 'kernel call under python -O / verdict of a refusal: ' + lab, case={'call': lab},
                      observed=obs, expected=exp)
    chk.direct('kernel-calls-under-python-O(solarangles, generate, SimParam, _read_epw)', nk, nk,
               'circumstance [3]: solarangles (two sites), _read_epw of file B, SimParam, and the refusals of the unchanged '
               'tree (month 13, aspect 0, generate() without a rural file, dt 7) in this process and in a fresh '
               'interpreter under python -O: identical outcomes bit for bit, each refusal of the same class',
               mismatches=len(probs))

    # ---- [1]-[6] on one live scenario
    data = json.loads(json.dumps(d0))
    nbd = U3.default_data(month=(month % 12) + 1, day=5)
    res, probs = U3.live_circumstances(chk, data, fb, ('sun',), 'live12', neighbour=(nbd, fa))
    for circ, obs, exp in probs[:3]:
        chk.violation('impl-violation', 'sun position in a live run under a circumstance that must not matter: ' + circ,
                      case=dict(case0, circumstance=circ, rural_file_in_force='site B', neighbour_model='site A'),
                      observed=obs, expected=exp)
    chk.direct('live-run-under-circumstances(sun monitor)', res['plain']['monitors']['sun']['counts'].get('calls', 0),
               len(res),
               'the run on file B with the sun monitor, repeated [1] rendered after construction / generate() / every 41st '
               'step / at the end, [2] under DEBUG logging, [3] under python -O, [4] through the command line (real '
               'subprocess and monitored child), [5] with a model for ANOTHER site (file A) generated and simulated '
               'between generate() and simulate(), [6] caller\'s dictionary compared before / after: records, written '
               'file and verdict equal the plain run, site and date oracles hold everywhere',
               mismatches=len(probs), branches={k: 1 for k in res})



def _next_day(mo, dy):
    return (mo, dy + 1) if dy < MDAYS[mo - 1] else (mo % 12 + 1, 1)


def run(chk):
    from props import epwheader
    chk.proof(MODULE, THEOREMS + epwheader.SITE_THEOREMS, extra_modules=[epwheader.MODULE])
    if chk.tier == 'thorough':
        chk.leanchecker([MODULE, epwheader.MODULE])
    chk.notes.append(NOAA_TEXT)
    sites = [epw_header(p) for p in epw_files()]
    chk.notes.append('shipped weather files: ' + ', '.join(epw_files()))
    pkg = fracexec.load()
    SC = pkg.solarcalcs.SolarCalcs

    n = 1200 if chk.tier == 'quick' else 10000
    main = [gen_main(chk.rng, sites) for _ in range(n)]
    # the witness of the finding (Singapore, 1 January 09:00) and every shipped header at 09:00 on
    # 1 January and on the equinox
    for _, la, lo, tz in sites:
        for mo, dy in ((1, 1), (3, 21)):
            main.append(dict(month=mo, day=dy, secDay=32400, lat=F(la), lon=F(lo), gmt=F(tz),
                             canAspect=F(3, 2), inobis=None, kind='shipped-header'))
    # twins: the same instant and site with ONE header field changed, evaluated right after the
    # original in the same process (a result remembered under an incomplete key would show here)
    twins = []
    for cs in main[:80 if chk.tier == 'quick' else 600]:
        for fld, delta in (('gmt', F(2)), ('lat', F(7)), ('lon', F(-11))):
            tw = dict(cs)
            tw[fld] = cs[fld] + delta if abs(cs[fld] + delta) <= (14 if fld == 'gmt' else 66 if fld == 'lat' else 180) \
                else cs[fld] - delta
            tw['kind'] = 'twin-' + fld
            twins.append(tw)
    main += twins
    main += clamp_probes(SC, chk.rng, sites, 40 if chk.tier == 'quick' else 200)
    header_handover(chk)
    edge = [gen_edge(chk.rng, sites) for _ in range(120 if chk.tier == 'quick' else 600)]

    real_main = [run_exact(SC, cs) for cs in main]
    real_edge = [run_exact(SC, cs) for cs in edge]
    withha = all(h for _, h in real_main + real_edge)
    if not withha:      # local `ha` no longer exists: compare without it
        chk.notes.append('local variable `ha` not observable in solarangles; compared without it')
        strip = lambda s: ' '.join(w for w in s.split(' ') if not w.startswith('ha='))
        real_main = [(strip(a), h) for a, h in real_main]
        real_edge = [(strip(a), h) for a, h in real_edge]

    impl_lines = [line_of(cs, 'impl', withha) for cs in main + edge]
    spec_lines = [line_of(cs, 'spec', withha) for cs in main]
    answers = chk.lean_run('C12', impl_lines + spec_lines)
    m_impl, m_spec = answers[:len(impl_lines)], answers[len(impl_lines):]
    real_all = [a for a, _ in real_main + real_edge]
    bad_impl = [i for i, (r, m) in enumerate(zip(real_all, m_impl)) if r != m]
    bad_spec = [i for i, (r, m) in enumerate(zip(real_all[:len(main)], m_spec)) if r != m]
    model_differs = sum(1 for a, b in zip(m_impl[:len(main)], m_spec) if a != b)
    chk.log('real vs Impl: %d/%d mismatches; real vs Spec: %d/%d mismatches; Impl vs Spec differ on %d/%d' % (
        len(bad_impl), len(impl_lines), len(bad_spec), len(spec_lines), model_differs, len(main)))
    chk.measurements['model_separation'] = {
        'in_range_cases': len(main), 'cases_where_Impl_and_Spec_answers_differ': model_differs}

    kinds = {}
    for cs in main + edge:
        kinds[cs['kind']] = kinds.get(cs['kind'], 0) + 1
    chk.extra_cov['input_kinds'] = kinds

    rule_common = ('fractionised SolarCalcs.solarangles (SimpleNamespace stand-ins for UCM/simTime/RSM) on '
                   'valid dates x integer seconds x shipped and synthetic headers (lat +-66, lon +-180, integer / '
                   'fractional / natural / arbitrary zones), probes steered into the tanzen clamps%s; exact '
                   'equality of ut, ad, eqtime, decsol, ha, zenith, tanzen, critOrient')
    fc = FloatCode()
    npts, differs, unexplained, first_unexpl = float_measure(chk, fc, sites)
    epw_measure(chk, fc)
    live_sun(chk, fc)
    sun_every_step(chk, fc)
    routes_and_histories(chk)

    if not bad_impl:
        verdict = 'known-finding'
        chk.correspond('solarangles~solaranglesImpl', 'C12',
                       list(zip(impl_lines, real_all)),
                       rule=rule_common % ', plus out-of-range seconds, months 0/13, malformed month tables, '
                                          'canAspect 0 (error classes)' + ' against the AS-CODED model',
                       classify=branch_of)
        finding = load_finding(chk)
        if finding is not None and model_differs > 0:
            chk.report_known(finding)
            chk.notes.append('signature matched: ' + finding['signature'])
        else:
            # the deviation is there but not registered: that is a violation, not a pass
            chk.violation('impl-violation', 'solarangles equals the as-coded model (west-positive offsets, '
                          'hours-as-days fractional year) and no known finding is registered',
                          case=line_of(main[0], 'impl', withha), observed=real_all[0], expected=m_spec[0])
    elif not bad_spec:
        verdict = 'agrees-with-spec'
        chk.correspond('solarangles~solaranglesSpec', 'C12',
                       list(zip(spec_lines, real_all[:len(main)])),
                       rule=rule_common % '' + ' against the NOAA SPECIFICATION model (the code has been repaired)',
                       classify=branch_of)
        chk.notes.append('solarangles agrees with solaranglesSpec on every in-range case: the recorded '
                         'deviation is gone; no KNOWN-FINDING reported')
    else:
        verdict = 'neither'
        chk.correspond('solarangles~solaranglesImpl', 'C12',
                       list(zip(impl_lines, real_all)),
                       rule=rule_common % ', plus edge cases' + ' against the AS-CODED model (agrees with neither '
                                          'model: a different defect)',
                       classify=branch_of)
        if first_unexpl is not None:
            chk.violation('impl-violation', 'cos(zenith) of solarangles vs NOAA solar position', how=HOW,
                          case=first_unexpl, observed='cos zenith = %r' % first_unexpl['cos_zenith_real'],
                          expected='NOAA cos zenith = %r (the recorded west-positive / fractional-year deviation '
                                   'would give %r)' % (first_unexpl['cos_zenith_noaa'],
                                                       first_unexpl['cos_zenith_recorded_deviation']))
        i = bad_impl[0]
        chk.violation('impl-violation', 'solarangles agrees with neither solaranglesImpl nor solaranglesSpec', how=HOW,
                      case=impl_lines[i], observed=real_all[i],
                      expected='as-coded model: %s || NOAA spec: %s' % (
                          m_impl[i], m_spec[i] if i < len(m_spec) else '(edge case, no spec)'))
    chk.measurements['verdict_path'] = verdict
    chk.direct('noaa-oracle(float solarangles)', npts, npts - fc.errors,
               'cos(zenith) of the real float code vs independent NOAA on the measurement grid; a point counts '
               'as a mismatch only if it differs from NOAA by > 2e-4 AND from the recorded deviation pattern by '
               '> 1e-9 (i.e. is not explained by the known finding)',
               mismatches=unexplained,
               branches={'differs_from_noaa': differs, 'unexplained': unexplained})
    # the site itself: LOCATION cells 6..8 (and the ground line) as read by the real _read_epw vs the model
    epwheader.run_header(chk, 'site')
    chk.assumptions.append('solarangles is exercised through fracexec (exact rationals, stub trigonometry); '
                           'double rounding, libm and math.acos domain errors are outside the model')
    chk.assumptions.append('simTime.secDay is an integer number of seconds (dt is an integer); EPW longitude is '
                           'east-positive and the time zone is hours east of UTC (EnergyPlus weather format)')


def replay(chk, path):
    v = json.load(open(path))
    case = v.get('case')
    print('replay of %s' % path)
    print(json.dumps(v, indent=1, default=str)[:3000])
    if isinstance(case, dict) and 'secDay' in case:
        fc = FloatCode()
        a = (case['month'], case['day'], case['secDay'], case['lat'], case['lon'], case['gmt'])
        print('now: real cos zenith = %r, NOAA = %r, recorded deviation = %r' % (
            fc.cosz(*a), noaa_cosz(*a), ascoded_cosz(*a)))
    elif isinstance(case, str):
        pkg = fracexec.load()
        kv = dict(w.split('=') for w in case.split(' ')[1:])
        cs = dict(month=int(kv['month']), day=int(kv['day']), secDay=int(kv['secDay']), lat=F(kv['lat']),
                  lon=F(kv['lon']), gmt=F(kv['gmt']), canAspect=F(kv['canAspect']),
                  inobis=[int(x) for x in kv['inobis'][1:-1].split(';') if x] if 'inobis' in kv else None)
        print('now: real = %s' % run_exact(pkg.solarcalcs.SolarCalcs, cs)[0])
        print('model = %s' % chk.lean_run('C12', [case])[0])
    return 0
