"""Fifth-round helpers of C01 / C02 / C03 / C04 / C05 / C09 (strengthening agent V1).

Families added here (each check judges them with ITS OWN oracle):

  1. `FloatLoop`      the REAL float step loop of `UWG.simulate` (physics stubbed from outside, real `SimParam`) over
                      every one of the 45 hour-dividing time steps and over realistic horizons, with a per-step oracle
                      evaluated inline (no trace is stored): clock fields, day type, traffic / building schedule
                      look-ups, month and depth index of the ground / water temperature look-up, rural row index,
                      record count on return. Expressions such as `int(24 / (dt / 3600.))` or `((it - 1) * ph) % 24`
                      are exact in rational arithmetic and one ulp off in doubles for dt in {3, 6, 12, 24, 48} on
                      particular day offsets - only the float loop over many days sees them.
                      Also `midnight probes`: the real loop body entered at step k*steps_per_day - 2 (the loop's
                      `range` is substituted for this one call, the object state is the one the calendar predicts for
                      that step) and run across the k-th midnight: every (dt, day offset k) costs a handful of steps.
  2. hand-over twins  (C03) what `generate()` hands to `simulate()` (the complete initial state except the window
                      containers) and what the loop hands to the physics at every step (forcing incl. deep / water
                      temperature, clock, day type, schedule values), compared between twin rural files / window
                      lengths - for off-grid pavement thicknesses and ground records with 0..6 depths; a difference is
                      confirmed by a pair of un-stubbed runs before it is reported in the property's own terms.
  3. size sequences   (C05) models whose DERIVED sizes differ (padding slices below the pavement, pavement slices,
                      ground depths of the rural file, stock rows, boundary-layer cells, reference heights) generated
                      one after the other in one interpreter, larger-then-smaller and smaller-then-larger, against
                      the same parameters generated first in a fresh interpreter.
  4. output names     (C01) output names NEAR the rural name (stem, other case of the extension, trailing dot / blank,
                      extension doubled or dropped, `./` spellings) - the refusal is decided on one representation of
                      the name, the file is opened under another.
  5. interrupted runs (C01) `simulate()` that fails or is interrupted (Exception and BaseException kinds) at a chosen
                      step, the caller catches it and goes on with `write_epw()`, then with the normal sequence.

Nothing here uses `assert` (parts of the module run inside `python -O` children)."""
import contextlib
import datetime
import hashlib
import os
import shutil
import sys
import types

import core
import uwgutil as U

MDAYS = [31, 28, 31, 30, 31, 30, 31, 31, 30, 31, 30, 31]
DIVISORS = [d for d in range(1, 3601) if 3600 % d == 0]
YEAR = 365 * 86400
_BASE = datetime.datetime(2023, 1, 1)          # non-leap; 1 January 2023 was a Sunday


def doy0(month, day):
    return sum(MDAYS[:month - 1]) + day - 1


def date_of(j):
    """(month, day) of day-of-year index j (0 = 1 January)"""
    for m in range(12):
        if j < MDAYS[m]:
            return m + 1, j + 1
        j -= MDAYS[m]
    raise ValueError(j)


def _day_entry(j):
    t = _BASE + datetime.timedelta(days=j)
    wd = t.weekday()                           # Monday = 0 ... Sunday = 6
    return (t.month, t.day, j, 3 if wd == 6 else 2 if wd == 5 else 1)


# independent calendar: (month, day of month, day of year, day type) per day of the year (index 365: 1 Jan of the next year)
DAYTAB = [_day_entry(j) for j in range(367)]
MONTH_STARTS = [sum(MDAYS[:m]) for m in range(12)]      # day-of-year index of the first of each month


def fhash(path):
    try:
        with open(path, 'rb') as f:
            return hashlib.sha256(f.read()).hexdigest()
    except OSError:
        return None


# =====================================================================================================================
# 1. the real float loop
# =====================================================================================================================
class _Stop(BaseException):
    """(harness) raised by the observer to leave the loop once a witness has been recorded"""


class _Solar(object):
    def __init__(self, UCM, BEM, simTime, RSM, forc, geoParam, rural):
        self._r = (rural, UCM, BEM)

    def solarcalcs(self):
        return self._r


def _noop(*a, **k):
    return None


class FloatLoop(object):
    """One generated model (shipped Singapore parameters; rural window = the whole year) on which the REAL
    `UWG.simulate` is run again and again with a fresh REAL `SimParam(dt, 3600, month, day, days)` - what generate()
    would have made for these four parameters - and the physics stubbed from outside. The look-up tables of the object
    are index-encoding (traffic[d][h] = 100 d + h with sensanth = 1; Tsoil[i][m] = 100 i + m + 1; first building's
    electricity schedule likewise), so the values that reach the physics name the (day type, hour), the depth index and
    the month they were looked up with. The forcing values of the reused window are NOT judged here (C02 does that on
    freshly generated objects); the row INDEX is."""

    def __init__(self, buildings=1):
        import simdriver
        with core.quiet():
            self.model = simdriver.build_model(1, 1, 365, 3600)
        m = self.model
        self.nb = min(buildings, len(m.BEM))
        m.BEM = m.BEM[:self.nb]
        m.Sch = m.Sch[:self.nb]
        self.nsoil = m.nSoil
        self.si1 = m._soilindex1
        m.Tsoil = [[100 * i + mm + 1 for mm in range(12)] for i in range(max(m.nSoil, 3))]
        m._schtraffic = [[100 * d + h for h in range(24)] for d in range(3)]
        m._sensanth = 1
        if self.nb:
            s = m.Sch[0]
            s._elec = [[100 * d + h for h in range(24)] for d in range(3)]
            s._q_elec = 1
        self.steps = 0
        self.runs = 0

    # ------------------------------------------------------------------------------------------------
    @contextlib.contextmanager
    def _stubbed(self, observer, warp=None):
        import uwg.uwg as UU
        m = self.model
        saved = {k: getattr(UU, k) for k in ('SolarCalcs', 'urbflux')}
        had_range = 'range' in vars(UU)
        old_range = vars(UU).get('range')
        inst = [(m.UCM, 'UCModel'), (m.UBL, 'ublmodel'), (m.rural, 'SurfFlux'), (m.RSM, 'vdm')]
        try:
            UU.SolarCalcs, UU.urbflux = _Solar, observer
            for o, name in inst:
                setattr(o, name, _noop)
            if warp is not None:
                UU.range = warp
            yield
        finally:
            for k, v in saved.items():
                setattr(UU, k, v)
            for o, name in inst:
                try:
                    delattr(o, name)
                except AttributeError:
                    pass
            if warp is not None:
                if had_range:
                    UU.range = old_range
                else:
                    try:
                        del UU.range
                    except AttributeError:
                        pass

    # ------------------------------------------------------------------------------------------------
    def run(self, dt, month, day, days, first=None, last=None):
        """The real simulate() for this time step / start / length. `first`/`last` (step numbers): a midnight probe -
        the loop is entered at step `first` with the object in the state the calendar predicts for the end of step
        first-1, and left after step `last`. Returns None, or a witness dict for the first step whose observation is not
        what the independent calendar says."""
        from uwg.simparam import SimParam
        from uwg.forcing import Forcing
        m = self.model
        m._month, m._day, m._nday, m._dtsim = month, day, days, dt
        m.forc = Forcing()                              # as generate() leaves it
        m.__dict__.pop('dayType', None)
        st = SimParam(dt, 3600, month, day, days)
        m.simTime = st
        t0 = doy0(month, day) * 86400
        nb = self.nb
        si1 = self.si1
        tab = DAYTAB
        nsteps = days * 86400 // dt
        box = {'it': 0, 'bad': None}
        it0 = 1
        if first is not None:
            it0 = first
            te = t0 + (first - 1) * dt                  # end of the step before the probe
            q, s = divmod(te, 86400)
            e = tab[q]
            st.month, st.day, st.julian, st.secDay, st.hourDay = e[0], e[1], e[2], float(s) if q > t0 // 86400 else s, s // 3600
            m.dayType = e[3]
            # the look-ups of step first-1 were made with the month at ITS beginning
            qb = (te - dt) // 86400 if first > 1 else q
            m.forc.deepTemp = 100 * si1 + tab[qb][0]
            m.forc.waterTemp = 200 + tab[qb][0]
            box['it'] = first - 1
        # expected day entries at the beginning (B) and at the end (E) of the coming step
        qb0 = (t0 + (it0 - 1) * dt) // 86400
        cur = {'B': tab[qb0], 'E': tab[qb0]}
        three = self.nsoil >= 3

        def observer(UCM, UBL, BEM, forc, geoParam, simTime, RSM):
            it = box['it'] + 1
            box['it'] = it
            te = t0 + it * dt
            q, s = divmod(te, 86400)
            if s == 0:
                cur['E'] = tab[q]
            elif s == dt:
                cur['B'] = cur['E'] = tab[q]
            if te >= YEAR:                              # 31 Dec 24:00 is outside the domain of the property
                return UCM, UBL, BEM
            E = cur['E']
            B = cur['B']
            h = s // 3600
            code = 100 * (E[3] - 1) + h
            if (simTime.month != E[0] or simTime.day != E[1] or simTime.julian != E[2] or simTime.secDay != s
                    or simTime.hourDay != h or m.dayType != E[3] or UCM.sensAnthrop != code
                    or (three and (forc.deepTemp != 100 * si1 + B[0] or forc.waterTemp != 200 + B[0]))
                    or (nb and BEM[0].elec != code)
                    or m.ceil_time_step != (it * dt + 3599) // 3600 - 1):
                box['bad'] = {
                    'step': it, 'instant (seconds after the start)': it * dt,
                    'observed': {'month': simTime.month, 'day': simTime.day, 'day_of_year': simTime.julian,
                                 'secDay': simTime.secDay, 'hourDay': simTime.hourDay, 'dayType': m.dayType,
                                 'traffic look-up (day type - 1, hour)': [int(UCM.sensAnthrop) // 100, int(UCM.sensAnthrop) % 100],
                                 'schedule look-up (day type - 1, hour)': [int(BEM[0].elec) // 100, int(BEM[0].elec) % 100] if nb else None,
                                 'deep temperature look-up (depth index, month)': [int(forc.deepTemp) // 100, int(forc.deepTemp) % 100] if three else None,
                                 'water temperature look-up (depth index, month)': [int(forc.waterTemp) // 100, int(forc.waterTemp) % 100] if three else None,
                                 'rural row index': m.ceil_time_step},
                    'expected': {'month': E[0], 'day': E[1], 'day_of_year': E[2], 'secDay': s, 'hourDay': h, 'dayType': E[3],
                                 'traffic look-up (day type - 1, hour)': [E[3] - 1, h],
                                 'schedule look-up (day type - 1, hour)': [E[3] - 1, h] if nb else None,
                                 'deep temperature look-up (depth index, month)': [si1, B[0]] if three else None,
                                 'water temperature look-up (depth index, month)': [2, B[0]] if three else None,
                                 'rural row index': (it * dt + 3599) // 3600 - 1}}
                raise _Stop()
            if it == last:
                raise _Stop()
            return UCM, UBL, BEM

        warp = None
        if first is not None:
            used = []

            def warp(*a):
                if len(a) == 3 and a[0] == 1 and a[2] == 1 and a[1] == st.nt and not used:
                    used.append(1)
                    return iter(range(first, a[1]))
                return range(*a)
        err = None
        with self._stubbed(observer, warp):
            with core.quiet():
                try:
                    m.simulate()
                except _Stop:
                    pass
                except Exception as e:  # noqa: BLE001 - judged below
                    err = '%s: %s' % (type(e).__name__, str(e)[:160])
        done = box['it'] - (it0 - 1)
        self.steps += done
        self.runs += 1
        bad = box['bad']
        if bad is None and err is not None:
            bad = {'step': box['it'] + 1, 'observed': 'simulate raised ' + err, 'expected': 'a complete run'}
        if bad is None and (first is None or last is None):     # the loop ran to its own end
            if box['it'] != nsteps:
                bad = {'step': None, 'observed': 'the loop ended after step %d' % box['it'],
                       'expected': 'after step %d = %d days / %d s' % (nsteps, days, dt)}
            else:
                N = 24 * days
                lens = [len(getattr(m, k)) for k in ('WeatherData', 'UCMData', 'UBLData', 'RSMData')]
                taken = [sum(1 for x in getattr(m, k) if x is not None) for k in ('WeatherData', 'UCMData')]
                want = N if first is None else nsteps * dt // 3600 - (first - 1) * dt // 3600
                if lens != [N] * 4 or taken != [want, want]:
                    bad = {'step': None, 'observed': {'record lists (WeatherData, UCMData, UBLData, RSMData)': lens,
                                                      'records taken (WeatherData, UCMData)': taken},
                           'expected': '%d slots in each list, %d records taken in the steps executed' % (N, want)}
        if bad is not None:
            bad.update({'dtsim': dt, 'month': month, 'day': day, 'nday': days})
            if first is not None and last is not None:
                bad['probe'] = ('the real loop body entered at step %d (two steps before the midnight %d days after the start) with the '
                                'clock, day type and ground temperatures of the calendar, left after step %d' % (
                                    first, (first + 2) * dt // 86400, last))
            elif first is not None:
                bad['probe'] = ('the real loop body entered at step %d with the clock, day type and ground temperatures of the '
                                'calendar and run to the end of the loop' % first)
        return bad


# day offsets grouped by the binade of 24*k (the float effects of expressions in hours are homogeneous inside a binade):
# first / middle / last offset of each
def binade_offsets(limit=364):
    out = []
    lo = 1
    while lo <= limit:
        hi = lo
        while hi + 1 <= limit and (24 * (hi + 1)).bit_length() == (24 * lo).bit_length():
            hi += 1
        out.append((lo, (lo + hi) // 2, hi))
        lo = hi + 1
    return out


def start_for_month_change(rng, k, room=0):
    """a start date k days before the first of a random month (so that the midnight k days after the start is a month
    change), leaving `room` further days inside the year; None if no month start is that far into the year"""
    cands = [ms for ms in MONTH_STARTS[1:] if ms >= k and ms + room + 1 <= 365]
    if not cands:
        return None
    return date_of(rng.choice(cands) - k)


def start_for_daytype_change(rng, max_doy=364):
    """a Friday, Saturday or Sunday of the model year (1 January = Sunday): the coming midnight changes the day type"""
    while True:
        j = rng.randint(0, max_doy - 1)
        if DAYTAB[j][3] != DAYTAB[j + 1][3]:
            return date_of(j)


# =====================================================================================================================
# 2. hand-over twins (C03)
# =====================================================================================================================
# what generate() builds for simulate() to start from - everything except the containers of the window itself
# (forcIP / weather / simTime / forc hold the rural rows of the window and its length by construction)
INITIAL_NAMES = ('BEM', 'Sch', 'road', 'rural', 'UCM', 'UBL', 'RSM', 'USM', 'geoParam', 'r_glaze_total', 'SHGC_total',
                 'alb_wall_total', 'lat', 'lon', 'gmt', 'nSoil', 'Tsoil', 'depth_soil', '_soilindex1', '_soilindex2')
FORC_FIELDS = ('infra', 'wind', 'uDir', 'hum', 'pres', 'temp', 'rHum', 'prec', 'dif', 'dir', 'deepTemp', 'waterTemp')
BEM_FIELDS = ('elec', 'light', 'Nocc', 'Qocc', 'swh', 'gas')
BLD_FIELDS = ('cool_setpoint_day', 'heat_setpoint_day', 'vent', 'int_heat_day', 'int_heat_f_rad', 'int_heat_flat')
HANDOVER_NAMES = tuple('forc.' + f for f in FORC_FIELDS) + ('month', 'day', 'secDay', 'hourDay', 'julian', 'dayType',
                                                            'sensAnthrop', 'canHum')


def plain_state(o, depth=0, path=frozenset()):
    """nested plain data of an object graph (floats as exact reprs, objects as dicts of their attributes)"""
    if o is None or isinstance(o, (bool, int, str)):
        return o
    if isinstance(o, float):
        return repr(o)
    if depth > 10:
        return '<deep>'
    if isinstance(o, (list, tuple)):
        return [plain_state(x, depth + 1, path) for x in o]
    if isinstance(o, dict):
        return {repr(k): plain_state(v, depth + 1, path) for k, v in sorted(o.items(), key=lambda kv: repr(kv[0]))}
    if isinstance(o, (types.FunctionType, types.BuiltinFunctionType, types.MethodType, type, types.ModuleType)):
        return '<code>'
    if hasattr(o, '__dict__'):
        if id(o) in path:
            return '<cycle>'
        return {'<%s>' % type(o).__name__: {k: plain_state(v, depth + 1, path | {id(o)})
                                            for k, v in sorted(vars(o).items()) if k != 'logger'}}
    return repr(type(o))


def initial_digests(m):
    return {k: U.fingerprint(getattr(m, k, '<unset>')) for k in INITIAL_NAMES}


def initial_difference(da, mb, remake_a):
    """None, or (attribute of the model, where inside it) for the first difference between what two generated models
    hand to simulate(). da: initial_digests of the reference taken right after ITS generate(); mb: the freshly generated
    twin; remake_a(): generates the reference once more (only called to locate a difference)."""
    import generic as G
    db = initial_digests(mb)
    for k in INITIAL_NAMES:
        if da[k] != db[k]:
            ma = remake_a()
            w = G.where_differs(plain_state(getattr(ma, k, None)), plain_state(getattr(mb, k, None)), path=k)
            return k, w or '%s: digests differ' % k
    return None


@contextlib.contextmanager
def stubbed(model, observer):
    """the real simulate loop with the physics stubbed from outside; `observer(model, UCM, BEM, forc, simTime)` is called
    where urbflux is called (after the hand-over of the step is complete)"""
    import uwg.uwg as UU

    def _urbflux(UCM, UBL, BEM, forc, geoParam, simTime, RSM):
        observer(model, UCM, BEM, forc, simTime)
        return UCM, UBL, BEM
    saved = {k: getattr(UU, k) for k in ('SolarCalcs', 'urbflux')}
    inst = [(model.UCM, 'UCModel'), (model.UBL, 'ublmodel'), (model.rural, 'SurfFlux'), (model.RSM, 'vdm')]
    try:
        UU.SolarCalcs, UU.urbflux = _Solar, _urbflux
        for o, name in inst:
            setattr(o, name, _noop)
        yield
    finally:
        for k, v in saved.items():
            setattr(UU, k, v)
        for o, name in inst:
            try:
                delattr(o, name)
            except AttributeError:
                pass


def handover_trace(m, max_steps=None):
    """per step: everything the loop of simulate() hands to the physics (forcing incl. deep / water temperature, clock,
    day type, traffic heat, canyon humidity, per building the schedule values and set points)"""
    trace = []

    def obs(model, UCM, BEM, forc, st):
        row = [getattr(forc, f) for f in FORC_FIELDS]
        row += [st.month, st.day, st.secDay, st.hourDay, st.julian, model.dayType, UCM.sensAnthrop, UCM.canHum]
        for b in BEM:
            row += [getattr(b, f) for f in BEM_FIELDS]
            row += [getattr(b.building, f) for f in BLD_FIELDS]
        trace.append(row)
        if max_steps and len(trace) >= max_steps:
            raise _Stop()
    with stubbed(m, obs):
        with core.quiet():
            try:
                m.simulate()
            except _Stop:
                pass
    return trace


def handover_name(i, nbem):
    if i < len(HANDOVER_NAMES):
        return HANDOVER_NAMES[i]
    i -= len(HANDOVER_NAMES)
    b, j = divmod(i, len(BEM_FIELDS) + len(BLD_FIELDS))
    return 'BEM[%d].%s' % (b, (BEM_FIELDS + tuple('building.' + f for f in BLD_FIELDS))[j])


def handover_difference(ta, tb, upto_steps, mean_tol=None):
    """None, or (step number, name, value a, value b): first difference of the two hand-over traces in steps 1..upto.
    mean_tol: relative tolerance for deep / water temperature (files with < 3 ground depths, window mean kept by
    swapping two later rows: the order of the float additions differs)"""
    for n in range(min(upto_steps, max(len(ta), len(tb)))):
        if n >= len(ta) or n >= len(tb):
            return n + 1, 'steps executed', len(ta), len(tb)
        a, b = ta[n], tb[n]
        if a == b:
            continue
        for i, (x, y) in enumerate(zip(a, b)):
            if x != y and not (x != x and y != y):
                if mean_tol and i in (10, 11) and abs(x - y) <= mean_tol * max(1.0, abs(x)):
                    continue
                return n + 1, handover_name(i, 0), x, y
        if len(a) != len(b):
            return n + 1, 'number of values handed over', len(a), len(b)
    return None


# ---- geometry / ground-record members: (label, ground depths as written in the file or None = shipped 0.5/2/4 m,
#      extra parameters). Pavement thicknesses off the 5 cm grid and off the ground depths, depths to the millimetre.
GEOMETRY_POOL = [
    ('pavement 0.3 m over the shipped depths 0.5/2/4 m (4 soil slices padded)', None, {'droad': 0.3}),
    ('pavement 0.1 m over the shipped depths (8 soil slices padded)', None, {'droad': 0.1}),
    ('pavement 0.3048 m (one foot) over the shipped depths', None, {'droad': 0.3048}),
    ('pavement 0.25 m over the shipped depths', None, {'droad': 0.25}),
    ('pavement 0.62 m: below the first depth, padded down to 2 m', None, {'droad': 0.62}),
    ('pavement 1.25 m over depths 0.5/2/4 m', None, {'droad': 1.25}),
    ('depths to the millimetre 0.503/1.97/3.62 m, pavement 0.3 m', ['0.503', '1.97', '3.62'], {'droad': 0.3}),
    ('first depth 0.51 m under a 0.52 m pavement (matched to the second depth 1.5 m)', ['0.51', '1.5', '3'], {'droad': 0.52}),
    ('four depths 0.5/1/2/4 m, pavement 0.75 m', ['0.5', '1', '2', '4'], {'droad': 0.75}),
    ('six depths 0.25/0.5/1/2/4/8 m, pavement 0.4 m', ['0.25', '0.5', '1', '2', '4', '8'], {'droad': 0.4}),
    ('first depth 2 m, shipped pavement 0.5 m (30 soil slices padded)', ['2', '4', '6'], {}),
    ('shipped pavement and depths, building height 17.3 m, sensor heights 9.7 / 2.4 m', None,
     {'bldheight': 17.3, 'h_wind': 9.7, 'h_temp': 2.4}),
]
FEWDEPTH_POOL = [
    ('two ground depths 0.5/2 m (deep temperature = window mean)', ['0.5', '2'], {}),
    ('one ground depth 0.5 m', ['0.5'], {}),
    ('no ground depth at all (GROUND TEMPERATURES,0)', [], {}),
    ('two ground depths 0.503/1.97 m, pavement 0.3 m', ['0.503', '1.97'], {'droad': 0.3}),
]


def ground_rows(base, depths):
    import s1_util as S
    rows = S.copy_rows(base)
    if depths is not None:
        rows[3] = S.ground_line(depths, temps=lambda i, m: '%.2f' % (24.5 + 0.7 * i + 0.3 * m))
    return rows


# =====================================================================================================================
# 3. size sequences (C05)
# =====================================================================================================================
# (key, label, ground depths of the rural file or None = shipped, parameters). The DERIVED sizes differ: soil slices padded
# below the pavement, pavement slices, ground records, stock rows, levels of the vertical column, boundary-layer cells.
SIZE_CONFIGS = [
    ('S', 'shipped parameters (0.5 m pavement on a 0.5 m ground record: no padding)', None, {}),
    ('P4', 'pavement 0.3 m (4 soil slices padded)', None, {'droad': 0.3}),
    ('P8', 'pavement 0.1 m (8 soil slices padded)', None, {'droad': 0.1}),
    ('P28', 'pavement 0.62 m (padded down to the 2 m record)', None, {'droad': 0.62}),
    ('G30', 'rural file whose first ground depth is 2 m (30 soil slices padded)', ['2', '4', '6'], {}),
    ('G6', 'rural file with six ground depths, pavement 0.4 m (2 slices padded)', ['0.25', '0.5', '1', '2', '4', '8'],
     {'droad': 0.4}),
    ('B1', 'one stock row', None, {'bld': [('midriseapartment', 'pst80', 1.0)]}),
    ('B5', 'five stock rows', None, {'bld': [('largeoffice', 'pst80', 0.2), ('midriseapartment', 'pre80', 0.2),
                                             ('hospital', 'new', 0.2), ('smalloffice', 'pst80', 0.2),
                                             ('warehouse', 'new', 0.2)]}),
    ('Hhi', 'tall district: buildings 40 m, reference height 300 m, characteristic length 4000 m', None,
     {'bldheight': 40, 'h_ref': 300, 'charlength': 4000, 'h_ubl2': 120}),
    ('Hlo', 'low district: buildings 4 m, reference height 60 m, characteristic length 250 m', None,
     {'bldheight': 4, 'h_ref': 60, 'charlength': 250, 'h_ubl2': 40}),
]
SIZE_BY_KEY = {c[0]: c for c in SIZE_CONFIGS}


def size_summary(m):
    """the derived sizes of a generated model and the bit-exact digest of everything a simulation starts from"""
    def n(x):
        try:
            return len(x)
        except TypeError:
            return None
    rsm = getattr(m, 'RSM', None)
    return {'road slices': n(m.road.layer_thickness_lst), 'road depth': repr(sum(m.road.layer_thickness_lst)),
            'rural slices': n(m.rural.layer_thickness_lst), 'rural depth': repr(sum(m.rural.layer_thickness_lst)),
            'ground depths': m.nSoil, 'ground-depth index (road, rural)': [getattr(m, '_soilindex1', None), getattr(m, '_soilindex2', None)],
            'buildings': n(m.BEM), 'wall slices': [n(b.wall.layer_thickness_lst) for b in m.BEM],
            'column levels (nz0, nzref, nzfor, nz10)': [getattr(rsm, k, None) for k in ('nz0', 'nzref', 'nzfor', 'nz10')],
            'state digest': U.model_state(m)}


def size_model(key, epw, outdir, outname, window=(1, 1, 1, 300)):
    label, depths, attrs = SIZE_BY_KEY[key][1:]
    a = dict(month=window[0], day=window[1], nday=window[2], dtsim=window[3])
    a.update({k: ([tuple(x) for x in v] if k == 'bld' else v) for k, v in attrs.items()})
    return U.new_model(epw=epw, outdir=outdir, outname=outname, **a)


def size_run(key, epw, outdir, outname, simulate=False, window=(1, 1, 1, 300)):
    """generate (and, if asked, simulate + write) the configuration; returns the summary (JSON-able); an exception of
    the package is returned as {'raised': ...}"""
    os.makedirs(outdir, exist_ok=True)
    m = size_model(key, epw, outdir, outname, window)
    try:
        with core.quiet():
            m.generate()
    except Exception as e:  # noqa: BLE001 - judged by the caller
        return {'raised': 'generate(): %s: %s' % (type(e).__name__, str(e)[:200])}
    out = size_summary(m)
    if simulate:
        try:
            with core.quiet():
                m.simulate()
                m.write_epw()
        except Exception as e:  # noqa: BLE001
            out['raised'] = 'simulate() / write_epw(): %s: %s' % (type(e).__name__, str(e)[:200])
            return out
        out['records'] = hashlib.sha256(repr(U.records(m)).encode()).hexdigest()
        out['file'] = fhash(m.new_epw_path)
    return out


def child_size_run(key, epw, outdir, outname, simulate, window):
    """(runs in a fresh interpreter) the configuration as the FIRST and only model of the process"""
    return size_run(key, epw, outdir, outname, simulate=simulate, window=tuple(window))


def size_rural_files(base_rows, work):
    """the rural files of SIZE_CONFIGS: {key: path}"""
    import s1_util as S
    out = {}
    for key, label, depths, attrs in SIZE_CONFIGS:
        if depths is None:
            out[key] = U.rp(U.EPW_SGP)
        else:
            out[key] = S.save_epw(ground_rows(base_rows, depths), os.path.join(work, 'size_%s.epw' % key))
    return out


# =====================================================================================================================
# 4. output names near the rural name (C01)
# =====================================================================================================================
def stem_of(name):
    """the name without its last extension ('a.epw.Epw' -> 'a.epw', 'noext' -> 'noext', '.epw' -> '.epw')"""
    i = name.rfind('.')
    return name[:i] if i > 0 else name


def near_names(name):
    """[(label, output name)] - names a user may type for "the same name", a different extension, a back-up ...: each is
    either ANOTHER file (then it must be written and the rural file left alone) or the rural file itself under another
    spelling (then the call must be refused). What a later normalisation step makes of the name must not matter."""
    st = stem_of(name)
    out = [('the stem (extension dropped)', st), ('the stem with a trailing dot', st + '.'),
           ('the stem + .epw', st + '.epw'), ('the stem + .EPW', st + '.EPW'), ('the stem + .Epw', st + '.Epw'),
           ('the name + .epw', name + '.epw'), ('the name + .EPW', name + '.EPW'),
           ('the name without its last character', name[:-1]), ('the name with a trailing blank', name + ' '),
           ('the name in upper case', name.upper()), ('the name in lower case', name.lower()),
           ('the name with swapped case', name.swapcase()), ('the stem + .epw.epw', st + '.epw.epw'),
           ('./ + the name', os.path.join('.', name)), ('./ + the stem', os.path.join('.', st)),
           ('the stem + _UWG (no extension)', st + '_UWG'), ('the stem + .epw with a trailing blank', st + '.epw '),
           ('the stem of the stem', stem_of(st)), ('the name + .bak', name + '.bak')]
    seen, res = set(), []
    for lab, n in out:
        if n and n not in seen and n not in ('.', '..'):
            seen.add(n)
            res.append((lab, n))
    return res


RURAL_NAMES = ['rural_site.epw', 'R.EPW', 'noext', 'a.epw.Epw', 'x.y.epw', 'SGP_Singapore.486980_IWEC.epw', 'weather.Epw',
               'site.epw.bak']


# =====================================================================================================================
# 5. interrupted / failed simulate (C01)
# =====================================================================================================================
FAILURES = [
    ('Exception("FATAL ERROR! ...") as the building model raises it', lambda: Exception(
        'FATAL ERROR! Try running a shorter simulation (for a fraction of the year) or try increasing the simulation time step')),
    ('ValueError', lambda: ValueError('math domain error')),
    ('ZeroDivisionError', lambda: ZeroDivisionError('float division by zero')),
    ('KeyboardInterrupt', lambda: KeyboardInterrupt()),
    ('SystemExit', lambda: SystemExit(3)),
    ('GeneratorExit', lambda: GeneratorExit()),
    ('MemoryError', lambda: MemoryError()),
]
FAIL_POINTS = ('in the first step', 'in the middle of hour h', 'in the step that completes hour h (its record is not taken)',
               'inside psychrometrics while the record of hour h is taken', 'in the last step of the run',
               'in the first step of the second day')


def fail_step(point, h, dt, nday):
    """(step at which urbflux raises or None, record call at which psychrometrics raises or None)"""
    sph = 3600 // dt
    if point == FAIL_POINTS[0]:
        return 1, None
    if point == FAIL_POINTS[1]:
        return h * sph + max(1, sph // 2), None
    if point == FAIL_POINTS[2]:
        return (h + 1) * sph, None
    if point == FAIL_POINTS[3]:
        return None, h + 1
    if point == FAIL_POINTS[4]:
        return 24 * nday * sph, None
    return 24 * sph + 1, None


@contextlib.contextmanager
def failing_physics(model, make_exc, at_step=None, at_record=None, stub=True):
    """simulate() of `model` fails from inside: `urbflux` raises make_exc() when it is called for the at_step-th time, or
    `psychrometrics` (as imported by uwg.uwg: the call that completes an hourly record) when it is called for the
    at_record-th time. stub: the rest of the physics is stubbed (no-ops); else the real physics runs up to that point."""
    import uwg.uwg as UU
    count = {'step': 0, 'rec': 0}
    real_urbflux, real_psy = UU.urbflux, UU.psychrometrics

    def _urbflux(UCM, UBL, BEM, forc, geoParam, simTime, RSM):
        count['step'] += 1
        if at_step is not None and count['step'] == at_step:
            raise make_exc()
        if stub:
            return UCM, UBL, BEM
        return real_urbflux(UCM, UBL, BEM, forc, geoParam, simTime, RSM)

    def _psy(*a, **k):
        count['rec'] += 1
        if at_record is not None and count['rec'] == at_record:
            raise make_exc()
        return real_psy(*a, **k)
    saved = {k: getattr(UU, k) for k in ('SolarCalcs', 'urbflux', 'psychrometrics')}
    inst = [(model.UCM, 'UCModel'), (model.UBL, 'ublmodel'), (model.rural, 'SurfFlux'), (model.RSM, 'vdm')] if stub else []
    try:
        UU.urbflux, UU.psychrometrics = _urbflux, _psy
        if stub:
            UU.SolarCalcs = _Solar
        for o, name in inst:
            setattr(o, name, _noop)
        yield count
    finally:
        for k, v in saved.items():
            setattr(UU, k, v)
        for o, name in inst:
            try:
                delattr(o, name)
            except AttributeError:
                pass


def window_rows_rewritten(rural_rows, out_rows, s, n, cols=(6, 7, 8, 21)):
    """how many of the n window rows (data rows s..s+n-1) of the written file differ from the rural file in a morphed
    column, and the first window row that does not"""
    k, first_same = 0, None
    for i in range(n):
        a, b = rural_rows[8 + s + i], out_rows[8 + s + i]
        if any(a[c] != b[c] for c in cols):
            k += 1
        elif first_same is None:
            first_same = i
    return k, first_same
