"""Regenerates MANIFEST.json from the table below (run by hand after adding a check)."""
import json, os
VERIF = os.path.dirname(os.path.dirname(os.path.abspath(__file__)))
TITLES = {}
for l in open(os.path.join(VERIF, 'properties.jsonl')):
    p = json.loads(l); TITLES[p['id']] = p['title']

# id -> (technique, level text, level note, design ref)
CLAIMED = {
 'C11': ('Lean 4 theorems over every ordered field (induction over layers, tridiagonal solver '
         'soundness + uniqueness) tied to Element.Conduction by exact rational differential execution',
         'Proof: energy conservation for both boundary kinds, steady/uniform fixed points, any sequence of '
         'steps and solver soundness are Lean theorems for every layer count, material and timestep; the '
         'model is checked equal to the real Conduction on exact rationals each run, and the property is '
         'also evaluated directly on the real result.',
         'Trusted: Lean kernel, propext/Classical.choice/Quot.sound, fracexec rewrite (floats->exact '
         'decimals), generators. Double rounding is outside the theorem.', 'DESIGN.md section 4 C11'),
 'C18': ('Lean 4 theorems (omega over all naturals for the season tests; field algebra for the partition) tied '
         'exhaustively over all 12x12x12 (month,start,end) to Element.SurfFlux and solarcalcs by exact rational execution',
         'Proof: the two season tests are the same predicate, equal to start<=month<=end for start<=end, and off season '
         'the modelled outputs do not depend on vegetation parameters; the tie enumerates the whole finite domain of the '
         'property on the real code (element fluxes, road albedo in the reflection model, vegetation heat).',
         'Trusted: Lean kernel, standard axioms, fracexec rewrite. Road albedo inside solarcalcs is observed through mr '
         'with non-reflecting walls.', 'DESIGN.md section 4 C18'),
 'C20': ('Lean 4 theorems over every floor-ring ordered field (Nat.ceil arithmetic, induction over layers and depths) '
         'tied to UWG._procmat and to the ground columns built by generate() by exact rational execution of the real source',
         'Proof: refinement preserves thickness/resistance/capacity (for mixed constructions: exactly those of the layers of at '
         'least 1 cm, each with its own material - procmat_preserves_thick) and yields >=2 sub-layers <=5 cm; padding picks the '
         'first depth at or below the pavement and ends within one layer of it (exactly for whole-layer gaps). The model is '
         'checked equal to the real _procmat and to the columns the real generate() builds on synthetic EPW headers. The '
         'ground-temperature line itself is modelled (Model/EpwHeader: read back exactly for every number of depths) and tied '
         'to the real _read_epw; a road below the deepest depth is a modelled refusal (columnOutcome, column_index_set).',
         'Trusted: Lean kernel, standard axioms, fracexec. Float effects in ceil(droad/0.05) are outside the exact model. '
         'The monthly deep temperature (T5) is checked on real runs, not proved.', 'DESIGN.md section 4 C20'),
 'C17': ('Lean 4 theorem over an abstract object machine with uninterpreted physics (induction over operation '
         'histories), tied to real UWG objects by history-level correspondence of an abstraction plus bitwise differential runs',
         'Proof: for every history and every machine, generate;simulate gives what a fresh object with the current '
         'parameters gives. The tie drives the same histories on real objects, compares an abstraction of the library state '
         'after every operation with the Lean machine, and compares final hourly records and deep state digests with a fresh object. '
         'Composition E models generate() itself as one Lean function (Model/Generate: _compute_input incl. the complete '
         'RSMDef.__init__) with theorems that its result is a function of the listed arguments only, and closes the whole '
         'program uwgMain = parameters + rural file -> morphed file; the real generate() is tied to it exactly (complete '
         'configuration + state).',
         'Trusted: Lean kernel, standard axioms, the abstraction function in harness/props/c17.py, the state serialisation '
         'of props/step.py. The archetype payload of the library is data handed to the model; histories, interrupted calls, '
         'other models in the process and fresh-process twins are explored by the tie, not proved.',
         'DESIGN.md section 4 C17'),
 'C05': ('Lean 4 non-interference theorem over a world of objects (induction over interleavings, any machine), tied to the '
         'code by a static frame scan, a dynamic monitor of all package-level state, interleaving correspondence and '
         'cross-process differential runs',
         'Proof: in the world machine every interleaving leaves each object in the state its own operations produce. The '
         'frame condition that links it to the code (operations write only their own object) is checked syntactically on every '
         'function body and dynamically by digesting all module/class-level data around every operation; outputs of isolated, '
         'repeated, interleaved and cross-process (different PYTHONHASHSEED) runs are compared byte for byte.',
         'Trusted: Lean kernel, CPython, pickle, the OS. The theorem is about the abstract machine; its link to the code is '
         'the frame check.', 'DESIGN.md section 4 C05'),
 'C16': ('Lean 4 theorems over every ordered field (invariant carried through elimination and forward substitution; '
         'M-matrix rows) tied to RSMDef.diffusion_equation and both invert copies by exact rational differential execution',
         'Proof: bottom Dirichlet value, equal top levels and interior conservation for every returning call; discrete '
         'maximum principle and definedness for every admissible input (cd>=0, positive spacing/density); solver exactness and '
         'uniqueness for every system with non-zero pivots, in particular every strictly diagonally dominant one. The model '
         'mirrors Python error behaviour and is checked equal to the real code on exact rationals; a live float run checks '
         'the same statements with rounding tolerance.',
         'Trusted: Lean kernel, standard axioms, fracexec. Rounding in doubles is outside the theorem (live run uses a '
         '1e-9 relative tolerance).', 'DESIGN.md section 4 C16'),
 'C09': ('Lean 4 theorems over the reals (Real.exp/log/rpow; algebraic cancellation, strict monotonicity without calculus) '
         'about a symbol-generic model of the psychrometric routines, tied to the real source by exact rational execution with shared stubs',
         'Proof: feeding the RH that psychrometrics reports back through hum_from_rhum_temp returns the humidity ratio times '
         'the constant 0.62198/0.621945 for every temperature; the record chain staHum->canHum->psychrometrics adds nothing; RH '
         'and dew point strictly increase with humidity ratio and RH strictly decreases with temperature on -40..50 C. The model '
         'is checked operation by operation against the real routines; real simulations check every written row by a rigorous '
         'interval test at precision 1 and 4.',
         'Trusted: Lean kernel, standard axioms, Mathlib real analysis, fracexec + stub table. Dew-point *accuracy* of the '
         'empirical correlation and output rounding are measured, not proved.', 'DESIGN.md section 4 C09'),
 'C12': ('Lean 4 theorems over the reals about two symbol-generic models (solar position as coded, and the NOAA algorithm '
         'with EPW conventions), tied to the real solarangles by exact rational execution; known-finding logic',
         'Proof of what is true: the spherical zenith formula for both models, the exact relation between the coded and the NOAA '
         'hour angle / fractional year, a machine-checked counterexample to the full property for the code as it stands, and a '
         'lower bound of 21 degrees on the hour-angle error at the Singapore header for every instant. The property is FALSE of '
         'the code (known finding, pinned by tests); the check passes only while the real routine equals the as-coded model '
         'exactly (KNOWN-FINDING) or the NOAA model (repaired), and reports any other deviation as a violation. The site itself is '
         'modelled (Model/EpwHeader: latitude, longitude, time zone = cells 6..8 of the LOCATION line, nothing else) and tied '
         'exactly to the real _read_epw.',
         'Trusted: Lean kernel, standard axioms, Mathlib trigonometry, fracexec + stub table; the NOAA specification I wrote. '
         'Agreement with the radiation columns of data files is measured, not proved.', 'DESIGN.md section 4 C12'),
 'C13': ('Lean 4 theorems over every ordered field (and over the reals for sqrt/trig facts) about a symbol-generic model of '
         'UCMDef geometry, solarcalcs and infracalcs, tied by exact rational execution; known-finding logic for the reflection closure',
         'Proof: view-factor reciprocity/closure/bounds, beam budget and exact split identity, non-negative received radiation, '
         'no-sun zero, long-wave antisymmetry and equilibrium; for the coded reflection closure the exact characterisation '
         'absorbed<=entering iff cR<=1, a rational witness that it creates energy (known finding, pinned by a test), and energy '
         'balance for the radiosity fixed point. The check passes while the real solarcalcs equals the as-coded model exactly and '
         'every energy-creating input is explained by cR>1; anything else is a violation.',
         'Trusted: Lean kernel, standard axioms, fracexec + stub table (true rational roots supplied for Pythagorean aspects); '
         'the radiosity specification.', 'DESIGN.md section 4 C13'),
 'C01': ('Lean 4 theorems (core Lean, List Char automaton, Int/Nat rounding arithmetic) about a model of the csv reader subset, '
         'the repaired writer, fixed-point formatting and write_epw, tied to csv.reader, CPython format and the real write_epw byte for byte',
         'Proof: parse(render(row)) = row for every newline-free row, write_epw changes exactly columns 6,7,8,21 of the window '
         'rows and preserves every other cell and every field count, formatted numbers have the shape -?d+(.d{p})? with correct '
         'half-even rounding, and the default output name differs from the input name. The model is checked against csv.reader on '
         'all short strings over {a , "} plus random ones, against CPython formatting on exact doubles, and against the real '
         'write_epw on synthetic and end-to-end files; the statement is also evaluated independently on every written file. Composition D instantiates the pipeline with the concrete readers (EpwHeader, Weather), the concrete physics step and the writer (no hypothesis on the physics left) and ties the real generate;simulate;write_epw to it byte for byte for 1-3 hours.',
         'Trusted: Lean kernel (core only), the percent-encoding of the line protocol, Python csv as oracle for the reader tie. '
         'Text encoding, CRLF translation, -0.0/NaN/Inf and file-system aliasing are outside the model (hashing observes the rural file).',
         'DESIGN.md section 4 C01'),
 'C14': ('Lean 4 theorems over every ordered field about a branch-faithful model of Building.BEMCalc, tied by exact rational '
         'execution of the real routine on generated and captured live states; known-finding logic for free cooling',
         'Proof: exclusivity, capacity bounds, exact set-point tracking below capacity (via load(T) = H1 - H2*T + gains, so a '
         'dropped term breaks it), energy = load/COP resp. /efficiency, rejected-heat formulas and non-negativity under stated '
         'hypotheses. Free cooling (no branch taken but load removed) is proved to exceed capacity with zero energy and is a '
         'recorded known finding.',
         'Trusted: Lean kernel, standard axioms, fracexec; psychrometrics is an uninterpreted parameter (indoorRhum not compared); '
         'live float runs use a 1e-9 relative tolerance.', 'DESIGN.md section 4 C14'),
 'C15': ('Lean 4 theorems over every ordered field (convex-combination arguments, induction over buildings and UBL cells) about '
         'models of UCModel, the indoor balance, ublmodel and nightforc, tied by exact rational execution and live wrapped runs',
         'Proof: isothermal fixed point, convexity (range of exchanged temperatures) and monotonicity in the source for the canyon, '
         'indoor and boundary-layer nodes, and the night boundary-layer temperature as the mean of its cells under the loop-count '
         'hypothesis (whose range of validity is enumerated).',
         'Trusted: Lean kernel, standard axioms, fracexec + stub table for **(1/3). Indoor monotonicity is stated per HVAC branch. '
         'Night loop count int(charLength)//int(paralLength) equals the cell count for charLength 1..62498 (enumerated, hypothesis of night_mean).',
         'DESIGN.md section 4 C15'),
 'C19': ('translator regenerates a packed Lean table of both libraries from the working tree on every run; Lean kernel decides '
         'table equality and well-formedness (decide +kernel) and a theorem bridges well-formedness to the conduction solver (C11)',
         'Proof over the regenerated table: shipped pickle = reader output for all 768 archetypes (structural fields bit-exact '
         'plus SHA-256 of every attribute), all archetypes well-formed, every well-formed construction solvable by Conduction '
         'for any timestep/temperatures/fluxes. Simulability in hot and cold climates is executed (6 archetypes quick, all 768 x 2 '
         'thorough), not proved.',
         'Trusted: Lean kernel (no axioms: decide +kernel), the extractor harness/extract/reftables.py, SHA-256 for attributes not '
         'exported structurally, pickle.', 'DESIGN.md section 4 C19'),
 'C04': ('Lean 4 theorems over Nat (induction over clock advances with an explicit invariant; finite calendar tables by decide) '
         'about a model of SimParam and the day-type rule, against an independent calendar specification; tied to the real '
         'SimParam and simulate look-ups by exact integer traces',
         'Proof: for every valid start date, every timestep dividing an hour and every number of advances inside the year the '
         'clock fields equal the true non-leap calendar instant and the day type equals the true weekday class (1 Jan = Sunday); '
         'the constructor accepts exactly the divisors of 3600 and the timestep exception is then unreachable; the year-end state '
         'is stated exactly. The real SimParam is stepped from all 365 start dates and for all 45 divisors and compared with the '
         'model and with Python datetime. The look-up clause is also proved at the concrete per-building block of the loop body '
         '(Props/Step.step_schedule_lookups: every building gets the entries of the step day type and hour, idle hour or not).',
         'Trusted: Lean kernel (core only), the calendar specification (month lengths), Python datetime as second oracle. '
         'secDay is a Python float after midnight (exact for these integers).', 'DESIGN.md section 4 C04'),
 'C02': ('Lean 4 theorems over Nat giving the closed form of the whole step loop (row index, clock, record trigger, record '
         'counter, written row and stamp), tied to the real simulate by driver-only execution (physics stubbed) for all 45 timesteps',
         'Proof: for every hour-dividing timestep, valid start and window inside the year: each step reads row (it*dt-1)/3600, '
         'record n is taken at it*dt = 3600(n+1) from row n, exactly 24*days records exist with no index error, record n is written '
         'to the row stamped start+n hours, and the recorded wind is max(rural wind, minimum wind). The float formula replaced by '
         'the repair is proved wrong at dt=48, it=525. The tie runs the real loop with the physics stubbed for all 45 divisors and '
         'full real runs incl. write_epw. The source of every record is modelled too: Weather.__init__ + str2fl (Model/Weather) '
         'with theorems that record i is a function of the ten modelled cells of row HI+i, that its humidity is '
         'hum_from_rhum_temp of that row, and that a later row cannot change an earlier record; tied exactly to the real class.',
         'Trusted: Lean kernel (core only); stubbing of the physics in harness/simdriver.py (the physics cannot influence time, '
         'row selection or recording - checked by un-stubbed runs).', 'DESIGN.md section 4 C02'),
 'C03': ('Lean 4 theorems about the whole simulate loop with an arbitrary (uninterpreted) physics step, built on the proved '
         'closed form of the control trace (C02); tied by running the REAL loop with a toy physics against the model, a footprint '
         'scan and paired real runs on perturbed rural files',
         'Proof: for every physics, the records of hours 0..h are identical for rural windows agreeing on rows 0..h (monthly '
         'ground temperatures), longer windows extend shorter ones, rows outside the window and unmodelled columns are irrelevant, '
         'and with fewer than three ground depths the window mean is the only extra dependence. The model of the loop is checked '
         'against the real simulate with a toy physics that folds everything a step may read; paired real runs compare records '
         'and written rows bit for bit. The theorems are instantiated at the CONCRETE physics: Model/Step composes the tied '
         'kernel models (solar, SurfFlux, vdm, urbflux with BEMCalc, UCModel, ublmodel, record) into the whole loop body, and the '
         'real loop body is tied to it exactly (complete post-state) on small configurations.',
         'Trusted: Lean kernel, standard axioms. That the real loop body equals the composed Step.step is an exact tie on small '
         'configurations for one or two passes (exact rationals explode beyond), supported by the footprint scan and by paired '
         'full runs; libm symbols uninterpreted.',
         'DESIGN.md section 4 C03'),
 'C10': ('Lean 4 theorems on the same loop model (complete records on return, refusal of non-dividing timesteps, bounds '
         'preserved through records, zero-load arithmetic) plus watchdog-guarded execution of the real reader and simulations',
         'Proof: a normal return holds exactly 24*days records; a timestep that is zero or does not divide an hour ends in an '
         'exception before the first step; every record is stored after that step\'s validity check; the internal-load '
         'fractions are defined for all non-negative loads. Executed: every dt 1..3600 against the constructor, the loop with '
         'raising toy steps, every single-token corruption of the shipped parameter file under an alarm (hang = violation), '
         'real runs scanned for missing / non-finite / out-of-bound records and non-numeric written fields, zero-load schedules.',
         'Trusted: Lean kernel (core + Mathlib ordered fields for T4). NaN/Inf propagation, hangs inside libm or the OS and the '
         'reader totality (modelled under C06) are outside these theorems; they are covered by the scans and the watchdog.',
         'DESIGN.md section 4 C10'),
 'C07': ('Lean 4 theorems (lists, permutations, association maps; rationals for fractions) about a model of the bld setter, '
         '_customize_reference_data and _compute_BEM, tied to the real routines on injected synthetic libraries and the shipped library',
         'Proof: on success the simulated (type, era, fraction) list is a permutation of the aggregated stock, every entry is the '
         'library cell of the proxy zone, fractions are preserved; an unmatched row always refuses; customs replace or extend; '
         'splitting a row into identical rows changes nothing. Pre-repair behaviours are proved as counter-examples.',
         'Trusted: Lean kernel, standard axioms, the injection of synthetic libraries in harness/props/c07.py.',
         'DESIGN.md section 4 C07'),
 'C08': ('Lean 4 theorems on the same model: each override, at every accepted value, is carried by every entry and enters the '
         'totals; unset overrides leave reference values; independence across all 64 subsets; same ties as C07',
         'Proof: override_applied / override_unset / totals_formula / override_independent for all six overrides and all values '
         '(0 and 1 included). The ties exercise all 64 subsets with boundary values on synthetic and shipped libraries.',
         'Trusted: as C07.', 'DESIGN.md section 4 C08'),
 'C06': ('Lean 4 theorems (core Lean: JSON trees, association maps, structural recursion over rows) about models of the setters, '
         'to_dict/from_dict of every class, the keyword route and the .uwg reader; parameter table regenerated from the source by a '
         'translator on every run; tied to the real routines and to byte-identical simulations over all routes',
         'Proof: from_dict(to_dict) is the identity on every valid model incl. custom reference vectors, to_dict is stable, the reader '
         'returns the same map for every layout (permuted blocks, comments and blank rows between blocks, key case, spaces, number '
         'spelling), keyword / dict / file routes give the same record, and the regenerated parameter table is closed (every name has '
         'a recognised setter, is emitted, consumed and readable). Routes are also run end to end (kwargs, dict, JSON, file, both CLI '
         'commands) and must give byte-identical EPW files and equal records; float-order effects at the cover-sum boundary are probed.',
         'Trusted: Lean kernel (core only), the ast translator harness/extract/paramtable.py (fingerprints of bespoke setters), '
         'Python csv/json/click layers, the simulation itself for "equal records simulate identically".', 'DESIGN.md section 4 C06'),
}
NOT_YET = 'check not built yet in this session (work in progress; see DESIGN.md section 4)'

def main():
    checks = []
    for pid in sorted(CLAIMED):
        tech, text, note, ref = CLAIMED[pid]
        checks.append({
            'property_id': pid,
            'quick_cmd': 'bin/check %s --tier quick' % pid,
            'thorough_cmd': 'bin/check %s --tier thorough' % pid,
            'evidence_file': 'evidence/%s.json' % pid,
            'replay_cmd_template': 'bin/check %s --replay {path}' % pid,
            'engine': 'lean4-proof+exact-correspondence',
            'level_claimed': {'category': 'proof', 'text': text, 'design_ref': ref},
            'level_note': note,
            'technique': tech,
        })
    na = [{'property_id': pid, 'reason': NOT_YET} for pid in sorted(TITLES) if pid not in CLAIMED]
    m = {
        'version': 1,
        'setup_cmd': 'cd lean && lake build',
        'hooks': {'guard': 'LADYBUG_TOOLS_UWG_VERIF', 'enable': 'no source hooks: all observation is '
                  'from outside (fractionised re-execution of the working-tree sources and wrappers '
                  'installed by the harness)',
                  'baseline_off_cmd': 'cd /repo && /venv/bin/python -m pytest -q -p no:cacheprovider --timeout=900',
                  'source_commits': [], 'add_only': True},
        'engines': [{'name': 'lean4-proof+exact-correspondence', 'path': 'bin/check',
                     'serves_properties': sorted(CLAIMED),
                     'kind_free_text': 'Lean 4.33 theorems about executable models (lean/UwgVerif), tied to '
                     '/repo by running model and real source on the same inputs over exact rationals'}],
        'checks': checks,
        'not_applicable': na,
        'notes': 'See DESIGN.md. Exit 2 from a check means infrastructure failure or time limit, never a verdict.',
    }
    json.dump(m, open(os.path.join(VERIF, 'MANIFEST.json'), 'w'), indent=1)
    print('claimed', sorted(CLAIMED), 'not applicable', len(na))
main()
