"""Shared helpers of the third strengthening round (used by props/c01.py, c02.py, c03.py, c05.py, c09.py).

Families of inputs that the shipped examples never vary and that these helpers build:

  * `BOUNDARY` / `boundary_window`   every modelled rural column at and beyond the limits the EPW data dictionary
                                     allows, and in every spelling the package documents as readable (`str2fl`):
                                     RH 0 .. 110 % incl. fractional readings, dry bulb -70 .. 70 incl. -0.0 and values
                                     next to 0, calm and 10*k m/s winds, pressure 31000 .. 120000 Pa incl. a thousands
                                     separator ("100,900"), exponent / '+' / leading-blank spellings;
  * `degenerate_prefix`              windows whose first hours hold a *degenerate series* in a modelled column (all
                                     readings <= 1, all zero, all equal, all at a limit) followed by ordinary rows:
                                     what a whole-window statistic (max / min / mean / "looks like a fraction") of a
                                     column would need in order to change the early hours;
  * `decimal_columns`                rural files whose humidity-relevant columns carry decimals, as written by uwg
                                     itself at epw_precision >= 1 (a morphed file used as rural input);
  * `ENV_PRELUDE` / `env_members`    the environment of the process as a hidden input: wall-clock date (incl. leap
                                     years, 29 Feb, the epoch, 2100), time zone, working directory, umask, locale,
                                     hash seed, and what is already stored under the output name.
"""
import math
import os

MODELLED = [6, 8, 9, 12, 14, 15, 20, 21]
NAMES = {6: 'dry bulb', 7: 'dew point', 8: 'relative humidity', 9: 'pressure', 12: 'infrared', 14: 'direct normal',
         15: 'diffuse horizontal', 20: 'wind direction', 21: 'wind speed'}


def num(text):
    """The number a rural cell stands for (independent of the package): decimal / exponent text, optional sign and
    blanks, thousands separators dropped (the reading utilities.str2fl documents)."""
    return float(text.replace(',', ''))


def ind_hum(rh, t_c, p):
    """Humidity ratio of (RH %, dry bulb C, pressure Pa), written independently of uwg.psychrometrics (ASHRAE
    saturation pressure over liquid water, the constant 0.62198 of hum_from_rhum_temp)."""
    t = t_c + 273.15
    pws = math.exp(-5.8002206e3 / t + 1.3914993 - 4.8640239e-2 * t + 4.1764768e-5 * t * t
                   - 1.4452093e-8 * t * t * t + 6.5459673 * math.log(t))
    pw = rh * pws / 100.0
    return 0.62198 * pw / (p - pw)


# ------------------------------------------------------------------------------------------ boundary values
# EPW data dictionary: dry bulb -70..70 C, RH 0..110 %, pressure 31000..120000 Pa, radiation >= 0, wind direction
# 0..360, wind speed 0..40 m/s. All members are legal values in a spelling float() reads.
BOUNDARY = {
    6: ['-70.0', '70.0', '0.0', '-0.0', '-0.04', '0.05', '-9.95', '10', '+12.5', ' 7.3', '1.25e1', '24.55'],
    8: ['0', '1', '0.4', '99', '100', '100.0', '101', '103', '105.5', '110', ' 87', '95.38'],
    9: ['31000', '120000', '100,900', '101,325', '99950.5', '1.009E5', ' 100900', '60000'],
    12: ['0', '1', '99', '450', '700', '362.5'],
    14: ['0', '1', '1100', '1,050', '512.5'],
    15: ['0', '1', '700', '255.5'],
    20: ['0', '360', '359', '180.5', '1', ' 90'],
    21: ['0', '0.0', '0.04', '0.05', '0.95', '1.0', '9.95', '10.0', '10', '20.0', '30.0', '40.0', '19.9', '20.1',
         '1E1', ' 3.2'],
}
# the members a real (un-stubbed) Singapore day can carry without leaving the physics' comfort zone
MILD = {
    6: ['24.55', '+25.0', ' 26.1', '2.5e1'],
    8: ['100', '101', '103', '110', '100.0', '95.38', '105.5', '99'],
    9: ['100,900', '101,325', '1.009E5', '99950.5'],
    12: ['362.5', '450'],
    14: ['0'],
    15: ['0', '1'],
    20: ['0', '360', '180.5'],
    # (30 m/s trips the model's own FATAL ERROR fail-stop at dtsim 300: left to the driver-only family)
    21: ['0', '0.04', '10.0', '20.0', '10', '0.95', '9.95', '1E1'],
}


def boundary_window(rows, first, nh, shift=0, table=None, every=1):
    """Put boundary members into the modelled columns of rows first .. first+nh-1 (in place). Hour n gets member
    (n + shift + column) mod len of each column's list - so that with nh >= 16 every member of every list occurs -
    when (n + column + shift) % every == 0, and keeps its shipped value otherwise. Returns {(n, col): text}."""
    table = table or BOUNDARY
    marks = {}
    for n in range(nh):
        for c, vals in table.items():
            if (n + c + shift) % every == 0:
                v = vals[(n // every + shift + c) % len(vals)]
                rows[first + n][c] = v
                marks[(n, c)] = v
    return marks


# ------------------------------------------------------------------------------------------ degenerate prefixes
# name -> {column: function(hour) -> text}; every member is a legal reading
DEGENERATE = {
    'rh<=1 (looks like a fraction)': {8: lambda n: ['1', '0.4', '0.75', '1.0', '0.9', '0.55'][n % 6]},
    'rh all zero then <=1': {8: lambda n: '0' if n < 3 else ['0.5', '1'][n % 2]},
    'rh all 100': {8: lambda n: '100'},
    'rh 100..110': {8: lambda n: ['100', '104', '110', '101'][n % 4]},
    'wind all calm': {21: lambda n: '0.0'},
    'wind all equal': {21: lambda n: '3.0'},
    'wind direction all zero': {20: lambda n: '0'},
    'radiation all zero': {14: lambda n: '0', 15: lambda n: '0'},
    'infrared all equal': {12: lambda n: '400'},
    'dry bulb all equal': {6: lambda n: '25.0'},
    'dry bulb all <= 1': {6: lambda n: ['0.5', '1.0', '0.0', '0.8'][n % 4]},
    'pressure all equal at the lower limit': {9: lambda n: '31000'},
    'pressure all equal': {9: lambda n: '100000'},
}
# members that a real Singapore / temperate day can carry together (one prefix exercises all of them at once)
COMBINED_LOW = ['rh<=1 (looks like a fraction)', 'wind all calm', 'wind direction all zero', 'radiation all zero',
                'infrared all equal', 'dry bulb all equal', 'pressure all equal']
COMBINED_HIGH = ['rh 100..110', 'wind all equal', 'infrared all equal', 'dry bulb all equal']


def degenerate_prefix(rows, first, upto, names):
    """Fill hours 0..upto-1 of the window starting at row `first` with the degenerate series `names` (in place)."""
    for name in names:
        for c, f in DEGENERATE[name].items():
            for n in range(upto):
                rows[first + n][c] = f(n)


# ------------------------------------------------------------------------------------------ decimal columns
def decimal_columns(rows, first=8, last=None, places=2):
    """Humidity-relevant columns with `places` decimals, as uwg itself writes them (dry bulb, dew point, RH) plus a
    fractional pressure every third row: the values stay within +-0.5 of the shipped ones (RH within 0..110)."""
    k = 0
    for i in range(first, last if last is not None else len(rows)):
        r = rows[i]
        f = ((37 * k + 11) % 100) / 100.0               # 0.00 .. 0.99, row-identifying
        r[6] = '%.*f' % (places, float(r[6]) + f - 0.5)
        r[7] = '%.*f' % (places, float(r[7]) + f - 0.5)
        r[8] = '%.*f' % (places, min(109.99, max(0.0, float(r[8]) + f - (0.5 if float(r[8]) >= 1 else 0))))
        if k % 3 == 0:
            r[9] = '%.1f' % (float(r[9].replace(',', '')) + 0.5)
        k += 1
    return rows


# ------------------------------------------------------------------------------------------ environment
# Python source run at the very start of a child process, BEFORE anything imports the package: installs the wall
# clock FAKE_EPOCH_ (seconds since 1970; empty = real clock) in `time` and `datetime` (so that `from datetime import
# date` inside the package binds the faked class), then applies cwd / umask / locale.
ENV_PRELUDE = r'''
import os, sys
_fe = os.environ.get("FAKE_EPOCH_", "")
if _fe:
    import time as _t, datetime as _dt
    _real = _t.time
    _off = float(_fe) - _real()
    _t.time = lambda: _real() + _off
    _t.time_ns = lambda: int((_real() + _off) * 1e9)
    for _n in ("localtime", "gmtime", "ctime"):
        def _mk(orig):
            return lambda secs=None: orig(_t.time() if secs is None else secs)
        setattr(_t, _n, _mk(getattr(_t, _n)))
    _sf = _t.strftime
    _t.strftime = lambda fmt, tt=None: _sf(fmt, _t.localtime() if tt is None else tt)
    class date(_dt.date):
        @classmethod
        def today(cls):
            return cls.fromtimestamp(_t.time())
    class datetime(_dt.datetime):
        @classmethod
        def now(cls, tz=None):
            return cls.fromtimestamp(_t.time(), tz)
        @classmethod
        def utcnow(cls):
            return cls.fromtimestamp(_t.time(), _dt.timezone.utc).replace(tzinfo=None)
        @classmethod
        def today(cls):
            return cls.fromtimestamp(_t.time())
    _dt.date = date
    _dt.datetime = datetime
if os.environ.get("CWD_"):
    os.chdir(os.environ["CWD_"])
if os.environ.get("UMASK_"):
    os.umask(int(os.environ["UMASK_"], 8))
if os.environ.get("LOCALE_"):
    import locale
    try:
        locale.setlocale(locale.LC_ALL, os.environ["LOCALE_"])
    except locale.Error:
        pass
'''


def epoch(y, mo, d, h=12, mi=0):
    import calendar
    return calendar.timegm((y, mo, d, h, mi, 0))


def env_members(rng, work, n):
    """n environments (dicts: label, env additions, pre-existing output content kind). The first ones are fixed so
    that each kind of hidden input occurs in every run; the rest are random combinations."""
    tzs = ['UTC', 'Pacific/Kiritimati', 'America/Los_Angeles', 'Asia/Kolkata', 'Europe/Berlin', 'Pacific/Pago_Pago']
    clocks = [('2028-03-01 (leap year)', epoch(2028, 3, 1)), ('2028-02-29', epoch(2028, 2, 29, 23, 59)),
              ('2027-02-01', epoch(2027, 2, 1)), ('2032-12-31 23:59', epoch(2032, 12, 31, 23, 59)),
              ('2000-01-01 00:00', epoch(2000, 1, 1, 0)), ('1970-01-02', epoch(1970, 1, 2)),
              ('2100-06-15 (century, no leap year)', epoch(2100, 6, 15)), ('2024-12-31', epoch(2024, 12, 31)),
              ('2038-01-19 03:14', epoch(2038, 1, 19, 3, 14)), ('2026-07-04 Saturday', epoch(2026, 7, 4))]
    pre = ['absent', 'empty', 'shorter', 'longer-other-model', 'much-longer-text', 'own-previous-output',
           'longer-binary']
    locs = ['C', 'C.UTF-8', 'de_DE.UTF-8', 'tr_TR.UTF-8', 'POSIX']
    umasks = ['000', '022', '077', '027']
    cwds = [work, '/', '/tmp', os.path.join(work, 'cwd sub')]
    os.makedirs(cwds[-1], exist_ok=True)
    fixed = [
        dict(label='wall clock ' + clocks[0][0], clock=clocks[0]),
        dict(label='output name holds a longer file of another model', pre='longer-other-model'),
        dict(label='wall clock %s, TZ %s' % (clocks[1][0], tzs[1]), clock=clocks[1], tz=tzs[1]),
        dict(label='umask 077, cwd /, locale de_DE.UTF-8, output name holds much longer text', umask='077',
             cwd='/', locale='de_DE.UTF-8', pre='much-longer-text'),
        dict(label='wall clock %s, TZ %s, output name empty' % (clocks[3][0], tzs[2]), clock=clocks[3], tz=tzs[2],
             pre='empty'),
        dict(label='hash seed 4242, output name holds the own previous output', hashseed='4242',
             pre='own-previous-output'),
    ]
    out = fixed[:n]
    while len(out) < n:
        m = {}
        if rng.random() < 0.7:
            m['clock'] = rng.choice(clocks)
        if rng.random() < 0.5:
            m['tz'] = rng.choice(tzs)
        if rng.random() < 0.3:
            m['cwd'] = rng.choice(cwds)
        if rng.random() < 0.3:
            m['umask'] = rng.choice(umasks)
        if rng.random() < 0.3:
            m['locale'] = rng.choice(locs)
        if rng.random() < 0.3:
            m['hashseed'] = str(rng.randint(0, 4294967295))
        if rng.random() < 0.6:
            m['pre'] = rng.choice(pre)
        m['label'] = ', '.join('%s %s' % (k, v[0] if k == 'clock' else v) for k, v in sorted(m.items())) or 'plain'
        out.append(m)
    return out


def env_of(member, base_env):
    env = dict(base_env)
    env['FAKE_EPOCH_'] = str(member['clock'][1]) if member.get('clock') else ''
    if member.get('tz'):
        env['TZ'] = member['tz']
    env['CWD_'] = member.get('cwd', '')
    env['UMASK_'] = member.get('umask', '')
    env['LOCALE_'] = member.get('locale', '')
    if member.get('locale'):
        env['LC_ALL'] = member['locale']
        env['LANG'] = member['locale']
    env['PYTHONHASHSEED'] = member.get('hashseed', '0')
    return env


def prepare_output(path, kind, reference_bytes, other_bytes):
    """Store `kind` of pre-existing content under the output name. reference_bytes: what the model under test
    writes; other_bytes: a longer morphed file of another model (higher precision)."""
    if os.path.lexists(path):
        os.remove(path)
    if kind in (None, 'absent'):
        return
    if kind == 'empty':
        data = b''
    elif kind == 'shorter':
        data = reference_bytes[:len(reference_bytes) // 3]
    elif kind == 'longer-other-model':
        data = other_bytes
    elif kind == 'much-longer-text':
        data = other_bytes + b'# trailing notes of another program\n' * 2000
    elif kind == 'own-previous-output':
        data = reference_bytes
    elif kind == 'longer-binary':
        data = bytes(range(256)) * (len(reference_bytes) // 256 + 40)
    else:
        raise KeyError(kind)
    with open(path, 'wb') as f:
        f.write(data)
