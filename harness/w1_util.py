"""Round-6 helpers (sub-agent W1): families for C03 / C04 / C05 / C09.

* C05: a model object that crosses a pickle / copy / process boundary (before and after generate(), with and without
  custom reference vectors) must stay the same function of its parameters.
* C03: windows of extreme air temperature (every hour far below / above the fixed 293 K ground start) and rural files
  whose hour-stamp column follows other legal conventions.
* C04: runs that cross month boundaries, the monthly / seasonal look-ups judged per step against an independent calendar.
"""
import copy
import hashlib
import io
import os
import pickle

import core
import uwgutil as U


# ================================================================================================ C05: boundaries
def boundary_configs(quick=True):
    """name -> description; customs that override DOE archetypes named in bld, customs under new type names, none."""
    names = ['revised3', 'override2', 'none']
    if not quick:
        names += ['new3', 'new5+revised']
    return names


_REFDOE = None


def fresh_model(name, outdir, outname, nday=1):
    """fresh parameter objects -> model (NOT generated)"""
    import s2_util as S
    uwg = U.uwg_mod()
    if name == 'none':
        return S.live_model([('largeoffice', 'pst80', 0.4), ('midriseapartment', 'pst80', 0.6)], zone='1A', month=7,
                            nday=nday, outdir=outdir, outname=outname)
    if name == 'override2':
        # two customs that override the two DOE archetypes of bld (other glazing ratio / cop / wall emissivity)
        spec = [dict(type='largeoffice', era='pst80', src=(3, 1, 0), cop=5.2, emis=0.55),
                dict(type='midriseapartment', era='pst80', src=(5, 1, 0), cop=1.7)]
        extra, zone, month = [], '1A', 3
    else:
        spec, extra, zone, month = S.custom_config(name)
    global _REFDOE
    if _REFDOE is None:
        _REFDOE = uwg.UWG.load_refDOE()         # the shipped library, only read: every custom is a deep copy of a cell
    bv, sv = S.custom_vector(uwg, spec, ref=_REFDOE[0], sch=_REFDOE[1])
    if name == 'override2':
        bv[0].building.glazingRatio = 0.75
    m = S.live_model(S.bld_for(spec, extra), zone=zone, month=month, nday=nday, outdir=outdir, outname=outname)
    m.ref_bem_vector, m.ref_sch_vector = m._check_reference_data(bv, sv)
    return m


def observe(m, simulate=False, generate=True):
    """generate [-> simulate -> write] the model; what a run of these parameters shows"""
    import s2_util as S
    with core.quiet():
        if generate:
            m.generate()
        out = {'order': [list(x) for x in S.bem_order(m)], 'digest': S.gen_digest(m)}
        if simulate:
            m.simulate()
            m.write_epw()
            out['records'] = hashlib.sha256(repr(U.records(m)).encode()).hexdigest()
            out['epw'] = hashlib.sha256(open(m.new_epw_path, 'rb').read()).hexdigest()
    return out


def worker(blob_or_model, simulate, generate=True):
    """runs in another process: the model arrives as an argument (pickled by multiprocessing) or as pickle bytes"""
    m = pickle.loads(blob_or_model) if isinstance(blob_or_model, bytes) else blob_or_model
    try:
        return observe(m, simulate=simulate, generate=generate)
    except Exception as e:  # noqa: BLE001
        return {'error': '%s: %s' % (type(e).__name__, str(e)[:200])}


def crossings(quick=True):
    """name -> function(model) -> the model on the other side of the boundary (same process)"""
    fam = [
        ('pickle (default protocol) round trip', lambda m: pickle.loads(pickle.dumps(m))),
        ('pickle protocol 2 round trip', lambda m: pickle.loads(pickle.dumps(m, 2))),
        ('copy.deepcopy', copy.deepcopy),
        ('copy.copy', copy.copy),
    ]
    if not quick:
        fam += [('pickle protocol 0 round trip', lambda m: pickle.loads(pickle.dumps(m, 0))),
                ('deepcopy of a deepcopy', lambda m: copy.deepcopy(copy.deepcopy(m))),
                ('pickle of a shallow copy', lambda m: pickle.loads(pickle.dumps(copy.copy(m))))]
    return fam


def first_key(got, ref):
    for key in ('error', 'order', 'digest', 'records', 'epw'):
        if got.get(key) != ref.get(key):
            return key
    return None


def boundary_family(chk, work):
    """C05: the model object pickled / deep-copied / shallow-copied / sent to a spawn worker, before and after
    generate(), with and without custom reference vectors. Every copy must generate (and simulate) exactly what a fresh
    model of the same parameters does in this process."""
    import multiprocessing as mp
    quick = chk.tier == 'quick'
    cfgs = boundary_configs(quick)
    sim_cfg = cfgs[1]
    n = bad = 0
    br = {}

    def differs(name, route, stage, got, ref):
        nonlocal bad
        bad += 1
        key = first_key(got, ref)
        obs, exp = got.get(key), ref.get(key)
        if key == 'order':
            obs = [' '.join(x[:3]) + ' e_wall=%s cop=%s' % (x[3], x[4]) for x in got['order']]
            exp = [' '.join(x[:3]) + ' e_wall=%s cop=%s' % (x[3], x[4]) for x in ref['order']]
        if bad <= 3:
            chk.violation('impl-violation', 'purity across a copy / pickle / process boundary: the model after "%s" (%s '
                          'generate()) differs from a fresh model of the same parameters (%s)' % (route, stage, key),
                          case={'configuration': name, 'boundary': route, 'crossed': stage + ' generate()',
                                'customs': 'none' if name == 'none' else 'ref_bem_vector / ref_sch_vector set (see '
                                'harness/w1_util.py fresh_model)'},
                          observed={key: obs}, expected={key: exp},
                          how='harness/w1_util.py boundary_family: fresh_model(name) -> boundary -> observe()')

    # workers first (they run beside the in-process members)
    ctx = mp.get_context('spawn')
    pool = ctx.Pool(2)
    pending = []
    refs = {}
    try:
        for name in cfgs:
            sim = name == sim_cfg
            pending.append((name, 'argument of a multiprocessing spawn worker', 'before',
                            pool.apply_async(worker, (fresh_model(name, work, 'w1_wk_%s.epw' % name), sim))))
        for name in cfgs:
            sim = name == sim_cfg
            refs[name] = observe(fresh_model(name, work, 'w1_ref_%s.epw' % name), simulate=sim)
        # a generated model sent to a worker, simulated there
        g = fresh_model(sim_cfg, work, 'w1_wkg.epw')
        with core.quiet():
            g.generate()
        pending.append((sim_cfg, 'argument of a multiprocessing spawn worker', 'after',
                        pool.apply_async(worker, (g, True, False))))
        for name in cfgs:
            for route, cross in crossings(quick):
                stages = ('before', 'after') if (not quick or (name == sim_cfg and route in (
                    'copy.deepcopy', 'pickle (default protocol) round trip'))) else ('before',)
                for stage in stages:
                    sim = name == sim_cfg and route in ('copy.deepcopy', 'pickle (default protocol) round trip') \
                        and (stage == 'before') == (route == 'copy.deepcopy')
                    if not quick:
                        sim = name == sim_cfg
                    m = fresh_model(name, work, 'w1_x.epw')
                    if stage == 'after':
                        with core.quiet():
                            m.generate()
                    try:
                        other = cross(m)
                        got = observe(other, simulate=sim, generate=(stage == 'before'))
                    except Exception as e:  # noqa: BLE001
                        got = {'error': '%s: %s' % (type(e).__name__, str(e)[:200])}
                    n += 1
                    br[route] = br.get(route, 0) + 1
                    ref = refs[name]
                    if any(got[k] != ref.get(k) for k in got):
                        differs(name, route, stage, got, ref)
        for name, route, stage, res in pending:
            try:
                got = res.get(timeout=600)
            except Exception as e:  # noqa: BLE001
                raise core.Infra('spawn worker failed: %s: %s' % (type(e).__name__, str(e)[:300]))
            n += 1
            br[route] = br.get(route, 0) + 1
            ref = refs[name]
            if any(got[k] != ref.get(k) for k in got):
                differs(name, route, stage, got, ref)
    finally:
        pool.terminate()
    chk.direct('model objects across pickle / copy / process boundaries', n, n,
               'parameter sets %s (revised3 = a first / revised / third custom of hospital new + a new type; override2 = '
               'customs replacing both DOE archetypes of bld with other cop / glazing / wall emissivity; none = no customs'
               '%s): the model object is pickled and loaded (default protocol, protocol 2%s), copy.deepcopy-ed, copy.copy-ed '
               'and handed as an argument to a multiprocessing spawn worker - before generate() and (quick: deepcopy / default pickle / worker of one configuration) after - and '
               'then generated / simulated on the other side. Compared with a fresh model of the same parameters run here: '
               'order of BEM (type, era, which custom, wall emissivity, cop, fraction), bit-exact digest of the generated '
               'state; for %s also 1 simulated day: hourly records and EPW bytes'
               % (', '.join(cfgs), '' if quick else '; new3 / new5+revised = new non-DOE types',
                  '' if quick else ', protocol 0, copies of copies', sim_cfg),
               mismatches=bad, branches=br)
    return bad


# ================================================================================================ C03: families
TORONTO_EPW = 'tests/epw/CAN_ON_Toronto.716240_CWEC.epw'
TORONTO_PARAM = 'tests/parameters/initialize_toronto.uwg'


def data_file(rel):
    """a data file of the tree under test (mutation copies may hold only uwg/: fall back to /repo)"""
    for base in (core.REPO, '/repo'):
        f = os.path.join(base, rel)
        if os.path.exists(f):
            return f
    raise core.Infra('data file %s not found' % rel)


def doy0(month, day):
    return [0, 31, 59, 90, 120, 151, 181, 212, 243, 273, 304, 334][month - 1] + day - 1


def shifted_window(rows, first, nrows, col6, rh=None):
    """copy of rows whose dry bulb in [first, first+nrows) is col6(old value, n); dew point follows; RH optionally set"""
    out = [list(r) for r in rows]
    for n in range(nrows):
        r = out[first + n]
        t = col6(float(r[6]), n)
        r[7] = '%.1f' % (float(r[7]) + t - float(r[6]))
        r[6] = '%.1f' % t
        if rh is not None:
            r[8] = '%d' % rh
    return out


def extreme_members(rng, sgp_rows, tor_rows, quick=True):
    """windows whose EVERY hour lies far from the fixed 293 K start of the ground (colder than -10 C / hotter than 50 C),
    beside windows that only touch those ranges. -> (label, rows, param, month, day, note)"""
    fam = [('Toronto 3 February as shipped (every hour of 3 and 4 February below -10 C)', tor_rows, TORONTO_PARAM, 2, 3)]
    md = rng.choice([(1, 12), (2, 20), (12, 5), (1, 27)])
    f = 8 + 24 * doy0(*md)
    lo = rng.choice([-31.0, -24.5, -18.0])
    fam.append(('Toronto %d/%d with a deep freeze: three days of dry bulb %.1f .. %.1f C' % (md[0], md[1], lo, lo + 7.9),
                shifted_window(tor_rows, f, 72, lambda t, n: lo + 4.0 + 3.9 * __import__('math').sin((n - 9) * 0.2618)),
                TORONTO_PARAM, md[0], md[1]))
    md2 = rng.choice([(4, 11), (6, 29), (8, 20)])
    f2 = 8 + 24 * doy0(*md2)
    up = rng.choice([26.5, 29.0])
    fam.append(('Singapore %d/%d as a desert heat wave: three days of dry bulb + %.1f K (all above 50 C), RH 12 %%'
                % (md2[0], md2[1], up), shifted_window(sgp_rows, f2, 72, lambda t, n: t + up, rh=12),
                U.PARAM_SGP, md2[0], md2[1]))
    if not quick:
        fam.append(('Toronto 27 January as shipped', tor_rows, TORONTO_PARAM, 1, 27))
        fam.append(('Toronto 22 February as shipped', tor_rows, TORONTO_PARAM, 2, 22))
        f3 = 8 + 24 * doy0(1, 5)
        fam.append(('Toronto 5 January, first day below -10 C, second day ordinary',
                    shifted_window(tor_rows, f3, 24, lambda t, n: -21.0 + 0.3 * n), TORONTO_PARAM, 1, 5))
    return fam


STAMP_VARIANTS = ('hours stamped 0..23 in the whole file', 'two hour stamps edited: first record of the window 24, second 1',
                  'minute column 0 instead of 60', 'minute column 30', 'year column: one actual year 2021 in every row',
                  'first day of the window stamped 24, 1, 2 .. 23', 'hour stamps 1..24 written as 01..24',
                  'hour column 1 in every row of the window')


def stamp_variant(rows, name, first):
    """same rural data, other date / time stamp cells (columns 0, 3, 4 of the data rows: never read by Weather)"""
    out = [list(r) for r in rows]
    if name == STAMP_VARIANTS[0]:
        for r in out[8:]:
            r[3] = str(int(r[3]) - 1)
    elif name == STAMP_VARIANTS[1]:
        out[first][3], out[first + 1][3] = '24', '1'
    elif name == STAMP_VARIANTS[2]:
        for r in out[8:]:
            r[4] = '0'
    elif name == STAMP_VARIANTS[3]:
        for r in out[8:]:
            r[4] = '30'
    elif name == STAMP_VARIANTS[4]:
        for r in out[8:]:
            r[0] = '2021'
    elif name == STAMP_VARIANTS[5]:
        for n in range(24):
            out[first + n][3] = str(24 if n == 0 else n)
    elif name == STAMP_VARIANTS[6]:
        for r in out[8:]:
            r[3] = '%02d' % int(r[3])
    elif name == STAMP_VARIANTS[7]:
        for n in range(24):
            out[first + n][3] = '1'
    else:
        raise KeyError(name)
    return out


# ================================================================================================ C04: month-crossing runs
class _StopRun(Exception):
    pass


def season_trace(model):
    """The real simulate() with the REAL SolarCalcs and the real rural SurfFlux (the two routines that ask the vegetation
    season question) and the real monthly ground-temperature look-up; the canyon / boundary-layer / diffusion physics
    stubbed from outside. Per step, observed where urbflux is called: (it, clock month, clock day, secDay, sunlit,
    UCM.treeSensHeat, UCM.treeLatHeat, UCM.SolRecRoad, rural.solRec, rural.lat, forc.deepTemp, forc.waterTemp).
    Returns (steps, error text or None)."""
    import uwg.uwg as UU
    steps = []
    st = model.simTime

    def _urbflux(UCM, UBL, BEM, forc, geoParam, simTime, RSM):
        import sys
        it = sys._getframe(1).f_locals.get('it')
        steps.append((it, st.month, int(st.day), int(st.secDay), (forc.dir + forc.dif) > 0, UCM.treeSensHeat,
                      UCM.treeLatHeat, UCM.SolRecRoad, model.rural.solRec, model.rural.lat, forc.deepTemp, forc.waterTemp))
        return UCM, UBL, BEM

    def _noop(*a, **k):
        return None
    saved = UU.urbflux
    inst = [(model.UCM, 'UCModel'), (model.UBL, 'ublmodel'), (model.RSM, 'vdm')]
    err = None
    try:
        UU.urbflux = _urbflux
        for o, name in inst:
            setattr(o, name, _noop)
        with core.quiet():
            model.simulate()
    except Exception as e:  # noqa: BLE001
        err = '%s: %s' % (type(e).__name__, str(e)[:160])
    finally:
        UU.urbflux = saved
        for o, name in inst:
            try:
                delattr(o, name)
            except AttributeError:
                pass
    return steps, err


MDAYS = [31, 28, 31, 30, 31, 30, 31, 31, 30, 31, 30, 31]


def season_members(rng, quick=True):
    """(label, vegstart, vegend, start month, start day, nday, dt): runs that enter / leave the vegetation season at a
    month boundary, for the shipped season (April .. October) and other legal seasons, beside control runs that cross a
    boundary inside / outside the season."""
    def last(m):
        return (m, MDAYS[m - 1])
    fam = []
    dts = [300, 600, 900, 1800, 450, 1200]
    fam.append(('shipped season 4..10, entering: 31 March -> 1 April', 4, 10) + last(3) + (2, rng.choice(dts)))
    fam.append(('shipped season 4..10, leaving: 31 October -> 1 November', 4, 10) + last(10) + (2, rng.choice(dts)))
    vs = rng.choice([2, 3, 5, 6, 7])
    ve = rng.choice([8, 9, 11])
    fam.append(('season %d..%d, entering' % (vs, ve), vs, ve) + last(vs - 1) + (2, rng.choice(dts)))
    fam.append(('season %d..%d, leaving' % (vs, ve), vs, ve) + last(ve) + (2, rng.choice(dts)))
    m1 = rng.choice([5, 6, 8, 9])
    fam.append(('one-month season %d..%d, entered two days before its end and left' % (m1, m1), m1, m1,
                m1, MDAYS[m1 - 1] - 1, 3, rng.choice([600, 900, 1800])))
    c = rng.choice([1, 5, 7, 11])
    fam.append(('shipped season, boundary inside / outside it (control): end of month %d' % c, 4, 10) + last(c) +
               (2, rng.choice(dts)))
    if not quick:
        for m in range(1, 12):
            fam.append(('shipped season, end of month %d' % m, 4, 10) + last(m) + (2, rng.choice(dts)))
        for (a, b) in [(1, 12), (12, 12), (1, 1), (2, 2), (6, 8), (3, 11)]:
            for m in sorted(set([max(1, a - 1), b])):
                if m <= 11:
                    fam.append(('season %d..%d, end of month %d' % (a, b, m), a, b) + last(m) + (2, rng.choice(dts)))
        fam.append(('shipped season, 28 March + 5 days', 4, 10, 3, 28, 5, 600))
        fam.append(('shipped season, 30 September + 33 days (two boundaries)', 4, 10, 9, 30, 33, 1800))
    return fam
