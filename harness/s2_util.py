"""Shared helpers of the strengthening round "custom reference vectors and object identity".

Used by props/c05.py, c06.py, c07.py, c13.py, c19.py (and by the child processes of C05).

  * `identity_structure`      which stateful sub-objects (BEMDef, Building, Element, the lists they own) are ONE
                              object in two entries of a list of BEMDefs (or between two lists)
  * `custom_vector`           deterministic custom BEMDef/SchDef vectors built from shipped archetypes: new
                              (non-DOE) type names with distinct wall emissivities, first + revised custom of one
                              type + era, customs that share an Element / a Building object (the way a caller
                              who defines a construction once and uses it in two building types writes it)
  * `bem_order` / `gen_digest` what generate() made of a custom vector: order of BEM, per-entry markers, state digest
  * `SolarMonitor`, `InfraMonitor`, `StepCounter`   wrappers around the live simulation loop
"""
import copy
import hashlib
import sys

import core
import uwgutil as U

ROLES = ('building', 'wall', 'roof', 'mass')
# new (non-DOE) type names; chosen so that their set order differs from their list order under most hash seeds
NEW_TYPES = ('brickterrace', 'timberschool', 'metalcladlab', 'glasspavilion', 'adobecourt')
EMIS = (0.9, 0.25, 0.6, 0.45, 0.75)


# --------------------------------------------------------------------------------- identity structure
def _is_material(o):
    return type(o).__name__ == 'Material'


def stateful_objects(bem):
    """{id: path} of every mutable object reachable from one BEMDef: instances of package classes and the
    lists / dicts they own. Material instances are parameters that no routine writes to: not followed."""
    out = {}

    def walk(o, path):
        if o is None or isinstance(o, (str, int, float, bool, tuple, bytes)) or _is_material(o):
            return
        if id(o) in out:
            return
        if isinstance(o, list):
            out[id(o)] = path
            for i, x in enumerate(o):
                walk(x, '%s[%d]' % (path, i))
        elif isinstance(o, dict):
            out[id(o)] = path
            for k, x in o.items():
                walk(x, '%s[%r]' % (path, k))
        elif hasattr(o, '__dict__'):
            out[id(o)] = path
            for k, x in vars(o).items():
                walk(x, path + '.' + k.lstrip('_'))
    walk(bem, '')
    return out


def identity_structure(bems, others=None, names=None):
    """Sorted list of 'a<path> is b<path>' for every stateful object that two different entries of `bems` have
    in common (others=None), or that an entry of `bems` has in common with an entry of `others`.
    Only the outermost shared object of a shared sub-tree is listed (a shared Element, not also its lists)."""
    names = names or ['BEM[%d]' % i for i in range(len(bems))]
    maps = [stateful_objects(b) for b in bems]
    res = []
    if others is None:
        pairs = [(i, j, maps[i], maps[j], names[i], names[j])
                 for i in range(len(bems)) for j in range(i + 1, len(bems))]
    else:
        omaps = [stateful_objects(b) for b in others]
        pairs = [(i, j, maps[i], omaps[j], names[i], 'given[%d]' % j)
                 for i in range(len(bems)) for j in range(len(others))]
    for i, j, ma, mb, na, nb in pairs:
        common = [(ma[k], mb[k]) for k in ma if k in mb]
        common.sort()
        kept = []
        for pa, pb in common:
            if any(pa.startswith(qa) and pa != qa and pa[len(qa):len(qa) + 1] in '.[' for qa, _ in common):
                continue
            kept.append('%s%s is %s%s' % (na, pa or '', nb, pb or ''))
        res += kept
    return sorted(res)


def library_sharing(ref, cells):
    """identity structure among the cells [(i, j, k), ...] of a pristine library"""
    return identity_structure([ref[i][j][k] for i, j, k in cells],
                              names=['%s/%s' % (ref[i][j][k].bldtype, ref[i][j][k].builtera)
                                     for i, j, k in cells])


# --------------------------------------------------------------------------------- custom vectors
def custom_vector(uwg, spec, ref=None, sch=None):
    """spec: list of dicts(type=, era=, src=(i, j, k) shipped archetype to start from, emis= wall emissivity or
    None, cop= or None, share= None | (index of an earlier entry, roles...) : this entry uses the SAME objects as
    the earlier entry for the named roles). Returns (bem_vector, sch_vector) of fresh objects."""
    if ref is None:
        ref, sch = uwg.UWG.load_refDOE()
    bv, sv = [], []
    for n, sp in enumerate(spec):
        i, j, k = sp['src']
        b = copy.deepcopy(ref[i][j][k])
        s = copy.deepcopy(sch[i][j][k])
        b.bldtype = s.bldtype = sp['type']
        b.builtera = s.builtera = sp['era']
        b.zonetype = 'c%d' % n                      # marker: which custom this is (attribute used in testing only)
        if sp.get('emis') is not None:
            b.wall.emissivity = sp['emis']
        if sp.get('cop') is not None:
            b.building.cop = sp['cop']
        if sp.get('share'):
            src = bv[sp['share'][0]]
            for role in sp['share'][1:]:
                setattr(b, role, getattr(src, role))
        bv.append(b)
        sv.append(s)
    return bv, sv


def spec_new_types(n=3, eras=('pst80', 'new', 'pre80', 'new', 'pst80')):
    """n new types with pairwise different wall emissivity"""
    srcs = [(3, 1, 0), (5, 2, 0), (11, 0, 0), (7, 1, 0), (2, 2, 0)]
    return [dict(type=NEW_TYPES[i], era=eras[i], src=srcs[i], emis=EMIS[i]) for i in range(n)]


def spec_first_revised(typ='largeoffice', era='pst80', cops=(1.8, 5.5)):
    """a first and a revised custom of the same type + era (documented: the later one replaces the earlier)"""
    i = 3
    return [dict(type=typ, era=era, src=(i, 1, 0), cop=cops[0]),
            dict(type=typ, era=era, src=(i, 1, 0), cop=cops[1])]


def spec_shared(roles=('wall',), types=('rowhouse', 'rowhouseretrofit'), era='new', src=((5, 2, 0), (5, 1, 0))):
    """two customs that share the objects of the named roles (one construction used by two building types)"""
    return [dict(type=types[0], era=era, src=src[0]),
            dict(type=types[1], era=era, src=src[1], share=(0,) + tuple(roles))]


def bld_for(spec, extra=()):
    """equal fractions over the distinct (type, era) of a spec plus extra DOE rows; dyadic where possible"""
    keys = []
    for sp in spec:
        if (sp['type'], sp['era']) not in keys:
            keys.append((sp['type'], sp['era']))
    keys += [k for k in extra if k not in keys]
    n = len(keys)
    fr = [round(1.0 / n, 3)] * n
    fr[-1] = round(1.0 - sum(fr[:-1]), 3)
    return [(t, e, f) for (t, e), f in zip(keys, fr)]


def bem_order(m):
    """what generate() selected, in list order: (type, era, marker, wall emissivity, cop, frac)"""
    return [(b.bldtype, b.builtera, b.zonetype, U.fnum(b.wall.emissivity), U.fnum(b.building.cop),
             U.fnum(b.frac)) for b in m.BEM]


def gen_digest(m):
    """digest of everything a simulation starts from + the order of BEM / Sch"""
    h = hashlib.sha256()
    h.update(repr(bem_order(m)).encode())
    h.update(repr([(s.bldtype, s.builtera) for s in m.Sch]).encode())
    h.update(U.model_state(m).encode())
    return h.hexdigest()


def churn(rng, uwg, keep):
    """allocate / free objects of the package's own classes so that the next construction meets another heap
    layout (results must not depend on where the allocator puts parameter objects)"""
    ref, sch = uwg.UWG.load_refDOE()
    n = rng.randint(1, 40)
    keep.append([copy.deepcopy(ref[rng.randrange(16)][rng.randrange(3)][rng.randrange(16)]) for _ in range(n)])
    keep.append([object() for _ in range(rng.randint(0, 3000))])
    if len(keep) > 6 and rng.random() < 0.5:
        del keep[rng.randrange(len(keep))]


# --------------------------------------------------------------------------------- live monitors
class Patch(object):
    """context manager: replace attributes of modules / classes, restore on exit"""

    def __init__(self):
        self.saved = []

    def set(self, owner, name, value):
        self.saved.append((owner, name, getattr(owner, name)))
        setattr(owner, name, value)

    def __enter__(self):
        return self

    def __exit__(self, *a):
        for owner, name, old in reversed(self.saved):
            setattr(owner, name, old)
        return False


def mod(name):
    U.uwg_mod()
    __import__(name)
    return sys.modules[name]


class StepCounter(object):
    """counts, per Element object, the calls of SurfFlux during a run (urbflux advances wall and roof of every
    entry of BEM with one SurfFlux call each; mass with one Conduction call)"""

    def __init__(self, patch):
        el = mod('uwg.element').Element
        self.surf = {}
        self.steps = 0
        orig = el.SurfFlux
        counter = self

        def SurfFlux(self_, *a, **k):
            counter.surf[id(self_)] = counter.surf.get(id(self_), 0) + 1
            return orig(self_, *a, **k)
        patch.set(el, 'SurfFlux', SurfFlux)
        um = mod('uwg.uwg')
        orig_urb = um.urbflux

        def urbflux(*a, **k):
            counter.steps += 1
            return orig_urb(*a, **k)
        patch.set(um, 'urbflux', urbflux)


class SolarMonitor(object):
    """after every live SolarCalcs.solarcalcs(): every wall / roof / the road must have received exactly the
    prescribed irradiance of its kind (recomputed from the routine's own beam split and reflection terms with the
    same floating-point expression), and exactly zero without sun"""

    def __init__(self, patch, limit=5):
        sc = mod('uwg.solarcalcs').SolarCalcs
        self.n_sun = self.n_nosun = 0
        self.problems = []
        self.limit = limit
        orig = sc.solarcalcs
        mon = self

        def solarcalcs(self_):
            res = orig(self_)
            mon.judge(self_, res)
            return res
        patch.set(sc, 'solarcalcs', solarcalcs)

    def note(self, msg, s):
        if len(self.problems) < self.limit:
            st = s.simTime
            self.problems.append('%s/%s %ds: %s' % (st.month, st.day, int(st.secDay), msg))
        else:
            self.problems.append(None)

    def judge(self, s, res):
        rural, ucm, bem = res
        if (s.forc.dir + s.forc.dif) > 0.:
            self.n_sun += 1
            wall = s.bldSol + (1 - 2 * ucm.wallConf) * s.mw + ucm.wallConf * s.mr
            road = s.roadSol + (1 - ucm.roadConf) * s.mw
            roof = s.horSol + s.dif
            # the first-incidence amounts are the beam split plus the sky view of the diffuse part
            if s.bldSol != s.horSol * s.Kw_term + ucm.wallConf * s.dif or \
                    s.roadSol != s.horSol * s.Kr_term + ucm.roadConf * s.dif:
                self.note('first incidence is not beam split + sky view', s)
        else:
            self.n_nosun += 1
            wall = road = roof = 0.
        if ucm.road.solRec != road:
            self.note('road receives %r W/m2, prescribed %r' % (ucm.road.solRec, road), s)
        if rural.solRec != roof:
            self.note('rural site receives %r W/m2, prescribed %r' % (rural.solRec, roof), s)
        for j, b in enumerate(bem):
            if b.wall.solRec != wall:
                self.note('wall of BEM[%d] (%s %s) receives %r W/m2 but the canyon wall irradiance is %r'
                          % (j, b.bldtype, b.builtera, b.wall.solRec, wall), s)
            if b.roof.solRec != roof:
                self.note('roof of BEM[%d] (%s %s) receives %r W/m2, prescribed %r'
                          % (j, b.bldtype, b.builtera, b.roof.solRec, roof), s)
            if b.wall.solRec < 0 or b.roof.solRec < 0:
                self.note('negative received short-wave on BEM[%d]' % j, s)


class InfraMonitor(object):
    """per live urbflux() call: log of the infracalcs calls made inside it and of the surface temperature of every
    Element after each of its SurfFlux updates. Oracles (C13 long-wave clause on the canyon as simulated):
      * one long-wave evaluation per entry of BEM (each at the surface temperature its wall has at that moment)
        and one for the road;
      * the road is evaluated against the stock-average wall temperature: sum_j frac_j * T_j over ALL entries of
        BEM, fractions summing to one, T_j a surface temperature the wall of entry j took in this step after an
        update (one candidate unless a wall is advanced several times per step), same floating-point accumulation
        -> bit-exact;  UCM.wallTemp is that number;
      * road <-> wall exchange of the canyon: w * (road<-walls) + 2h * sum_j frac_j (wall_j<-road) = 0.  As
        simulated the wall side is evaluated before and the road side after the walls' update of the step, so the
        raw sum is only bounded (tol, W per m2 of road); evaluated at one time level (walls before their update on
        both sides) it must vanish up to the non-linearity of T^4 over the stock (tol_sync);
      * replay of the step with road, walls, indoor and canyon air and sky at one temperature: net long-wave of
        the road and of the first wall = 0."""
    SIGMA = 5.67e-8

    def __init__(self, patch, tol=25.0, tol_sync=0.5, eq_tol=2.0, eq_every=48, limit=5):
        self.tol, self.tol_sync, self.eq_tol, self.eq_every, self.limit = tol, tol_sync, eq_tol, eq_every, limit
        self.um = mod('uwg.urbflux')
        self.uwgm = mod('uwg.uwg')
        self.calls = None
        self.temps = None
        self.n = self.n_eq = 0
        self.problems = []
        self.worst = self.worst_sync = self.worst_eq = 0.0
        self.multi = 0                      # steps in which some wall was advanced more than once
        mon = self
        orig_infra = self.um.infracalcs

        def infracalcs(UCM, forc, e_road, e_wall, T_road, T_wall):
            res = orig_infra(UCM, forc, e_road, e_wall, T_road, T_wall)
            if mon.calls is not None:
                mon.calls.append((e_road, e_wall, T_road, T_wall, res))
            return res
        patch.set(self.um, 'infracalcs', infracalcs)
        self.orig_infra = orig_infra
        el = mod('uwg.element').Element
        orig_sf = el.SurfFlux

        def SurfFlux(self_, *a, **k):
            r = orig_sf(self_, *a, **k)
            if mon.temps is not None:
                mon.temps.setdefault(id(self_), []).append(self_.layerTemp[0])
            return r
        patch.set(el, 'SurfFlux', SurfFlux)
        orig_urb = self.uwgm.urbflux
        self.orig_urb = orig_urb

        def urbflux(UCM, UBL, BEM, forc, parameter, simTime, RSM):
            if mon.eq_every and mon.n % mon.eq_every == 7:
                mon.equilibrium(UCM, UBL, BEM, forc, parameter, simTime, RSM)
            walls_before = [b.wall.layerTemp[0] for b in BEM]
            mon.calls, mon.temps = [], {}
            try:
                res = orig_urb(UCM, UBL, BEM, forc, parameter, simTime, RSM)
            finally:
                calls, mon.calls = mon.calls, None
                temps, mon.temps = mon.temps, None
            mon.judge(res[0], res[2], forc, simTime, calls, temps, walls_before)
            return res
        patch.set(self.uwgm, 'urbflux', urbflux)

    def note(self, msg, st):
        if len(self.problems) < self.limit:
            self.problems.append('%s/%s %ds: %s' % (st.month, st.day, int(st.secDay), msg))
        else:
            self.problems.append(None)

    def judge(self, ucm, bem, forc, st, calls, temps, walls_before):
        import itertools
        self.n += 1
        n = len(bem)
        if len(calls) != n + 1:
            self.note('%d long-wave evaluations for %d simulated archetypes + the road (one per wall and one '
                      'for the road expected)' % (len(calls), n), st)
        cands = [temps.get(id(b.wall), []) for b in bem]
        if any(len(c) > 1 for c in cands):
            self.multi += 1
        fsum = sum(b.frac for b in bem)
        final = 0.
        for b in bem:
            final = final + b.frac * b.wall.layerTemp[0]
        if calls:
            e_road, e_wall, t_road, t_wall, (road_infra, _) = calls[-1]
            ok = False
            if all(cands) and abs(fsum - 1.) < 1e-9:
                for combo in itertools.product(*cands):
                    acc = 0.
                    for b, t in zip(bem, combo):
                        acc = acc + b.frac * t
                    if acc == t_wall:
                        ok = True
                        break
            if not ok:
                self.note('road long-wave evaluated against a wall temperature of %.3f K; the stock-average wall '
                          'temperature sum frac_j T_wall_j is %.3f K (fractions of BEM sum to %.6f; walls at %s K)'
                          % (t_wall, final, fsum, ', '.join('%.3f' % b.wall.layerTemp[0] for b in bem)), st)
            if ucm.road.infra != road_infra:
                self.note('road.infra is not the value of the road evaluation', st)
            if ucm.wallTemp != t_wall:
                self.note('UCM.wallTemp = %r but the road was evaluated against %r' % (ucm.wallTemp, t_wall), st)
        # area-weighted exchange road <-> walls of the canyon as simulated
        if len(calls) == n + 1 and n:
            w, h = ucm.canWidth, ucm.bldHeight
            e_road, e_wall, t_road, t_wall, _ = calls[-1]
            zf = type('F', (), {'infra': forc.infra})()

            def road_from_walls(tw):
                return self.orig_infra(ucm, zf, e_road, e_wall, t_road, tw)[0] - \
                    self.orig_infra(ucm, zf, e_road, 0., t_road, tw)[0]
            walls_from_road = 0.
            before = 0.
            for b, tb, (er, ew, tr, tw, _) in zip(bem, walls_before, calls[:-1]):
                x = self.orig_infra(ucm, zf, er, ew, tr, tw)[1] - self.orig_infra(ucm, zf, 0., ew, tr, tw)[1]
                walls_from_road += b.frac * x
                before = before + b.frac * tw
            imb = (w * road_from_walls(t_wall) + 2 * h * walls_from_road) / w
            imb_sync = (w * road_from_walls(before) + 2 * h * walls_from_road) / w
            self.worst = max(self.worst, abs(imb))
            self.worst_sync = max(self.worst_sync, abs(imb_sync))
            if abs(imb) > self.tol or abs(imb_sync) > self.tol_sync:
                self.note('road <-> wall long-wave exchange does not cancel: w*(road<-walls) + 2h*sum frac_j '
                          '(wall_j<-road) = %.3f W per m2 of road as simulated, %.3f at one time level'
                          % (imb, imb_sync), st)

    def equilibrium(self, UCM, UBL, BEM, forc, parameter, simTime, RSM):
        """the same step on a copy with road, walls, indoor air, canyon air and sky at one temperature"""
        ucm, ubl, bem, fc, par, st, rsm = copy.deepcopy((UCM, UBL, BEM, forc, parameter, simTime, RSM))
        T = ucm.canTemp
        ucm.roadTemp = T
        ucm.road.layerTemp = [T] * len(ucm.road.layerTemp)
        seen = set()
        for b in bem:
            for el in (b.wall, b.roof, b.mass):
                if id(el) not in seen:
                    seen.add(id(el))
                    el.layerTemp = [T] * len(el.layerTemp)
                    el.solRec = 0.
            b.building.indoor_temp = T
        ucm.road.solRec = 0.
        fc.infra = self.SIGMA * T ** 4.
        fc.temp = T
        saved = (self.calls, self.temps)
        self.calls, self.temps = [], None
        try:
            self.orig_urb(ucm, ubl, bem, fc, par, st, rsm)
        except Exception:                                        # noqa: BLE001 (auxiliary run: no verdict)
            self.calls, self.temps = saved
            return
        calls = self.calls
        self.calls, self.temps = saved
        self.n_eq += 1
        self.worst_eq = max(self.worst_eq, abs(ucm.road.infra))
        if abs(ucm.road.infra) > self.eq_tol:
            self.note('road, walls, air and sky at %.2f K: net long-wave of the road is %.3f W/m2, not 0'
                      % (T, ucm.road.infra), simTime)
        if calls and abs(calls[0][4][1]) > 1e-6:
            self.note('road, walls, air and sky at %.2f K: net long-wave of the first wall is %.3g W/m2'
                      % (T, calls[0][4][1]), simTime)


def live_model(bld, zone='1A', epw=U.EPW_SGP, month=7, day=1, nday=1, dtsim=300, outdir=None,
               outname='s2_live.epw', **kw):
    return U.new_model(epw=epw, outdir=outdir, outname=outname, nday=nday, dtsim=dtsim, month=month,
                       day=day, bld=bld, zone=zone, **kw)


# --------------------------------------------------------------------------------- C05: custom configurations
def custom_config(name):
    """named parameter sets with custom vectors -> (spec, extra DOE rows, zone, month). The ORDER of the vector
    is part of the parameters (a later custom of one type + era replaces an earlier one; new types get their rows
    in listing order), so a configuration is only ever compared with itself."""
    if name == 'new3':
        return spec_new_types(3), [('largeoffice', 'pst80')], '1A', 7
    if name == 'new3-reversed':
        return list(reversed(spec_new_types(3))), [('largeoffice', 'pst80')], '1A', 7
    if name == 'new5+revised':
        spec = spec_new_types(5)
        # first + revised custom of a DOE archetype, and of a new type (different wall emissivity)
        spec = spec[:2] + [spec_first_revised()[0]] + spec[2:] + [spec_first_revised()[1]]
        spec.append(dict(spec[0], emis=0.35))
        return spec, [('midriseapartment', 'pre80')], '5A', 1
    if name == 'revised3':
        a, b = spec_first_revised('hospital', 'new', (2.2, 4.4))
        c = dict(a, cop=3.3)
        return [a, dict(type='warehouse', era='pre80', src=(15, 0, 0), emis=0.5), b, c], [('smalloffice', 'pst80')], \
            '3B-CA', 4
    raise KeyError(name)


CUSTOM_CONFIGS = ('new3', 'new5+revised', 'revised3', 'new3-reversed')


def run_custom(name, outdir, outname, simulate=False, nday=1):
    """fresh parameter objects -> model -> generate [-> simulate -> write]; returns a dict of observations"""
    uwg = U.uwg_mod()
    spec, extra, zone, month = custom_config(name)
    bv, sv = custom_vector(uwg, spec)
    m = live_model(bld_for(spec, extra), zone=zone, month=month, nday=nday, outdir=outdir, outname=outname)
    m.ref_bem_vector, m.ref_sch_vector = m._check_reference_data(bv, sv)
    with core.quiet():
        m.generate()
    out = {'order': [list(x) for x in bem_order(m)], 'digest': gen_digest(m)}
    if simulate:
        with core.quiet():
            m.simulate()
            m.write_epw()
        out['records'] = hashlib.sha256(repr(U.records(m)).encode()).hexdigest()
        out['epw'] = hashlib.sha256(open(m.new_epw_path, 'rb').read()).hexdigest()
    return out, m
