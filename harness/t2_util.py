"""Shared helpers of the third strengthening round (C07, C08, C10, C17).

* C07  customs of ONE building type in several eras, every era with its own schedule set (`era_schedule_members`,
       `era_customs`): the schedule half of an archetype, twins under one / under separate type names;
* C08  values of the 0..1 overrides next to the limits of their range, as doubles and as exact rationals
       (`near_limit_floats`, `near_limit_fractions`);
* C10  spellings of "not a number" / infinity that `float()` reads (`NAN_TOKENS`, `INF_TOKENS`, `has_nan`), and
       schedule sets the SchDef constructor accepts: set-point sentinels that switch heating / cooling off,
       zero and large loads, integer entries (`schedule_members`, `build_schedule`);
* C17  a family of rural files made from the shipped Singapore file - every header part that generate() interprets
       changed on its own (LOCATION latitude / longitude / time zone / elevation, ground-temperature depths, values,
       number of depths), data rows, other shipped climates - (`rural_family`), and an engine for operation
       histories in which calls may FAIL (`apply_history`, `outcome`): the final generate(); simulate() of an object
       with a past is compared with the same two calls on a fresh object carrying the same current parameters.
"""
import copy
import csv
import math
import os
import shutil

import core
import uwgutil as U

ERAS = ('pre80', 'pst80', 'new')


# =========================================================================================== C07
# per era: cooling set point [C], heating set point [C], plug load [W/m2], occupants [1/m2]
ERA_SCHEDULE = {'pre80': (21.0, 18.0, 40.0, 0.10), 'pst80': (24.0, 20.0, 20.0, 0.05), 'new': (27.0, 15.0, 8.0, 0.02)}


def era_schedule_members(rng, quick):
    """Members of the family 'one type, several eras, one schedule set per era'. `slots` is the custom vector in
    LISTING order (era per slot); `rows` the stock rows that use the slots (slot, era text, fraction)."""
    def member(kind, base, listing, used, doe_rows, zone, simulate, text=None):
        n = len(used) + len(doe_rows)
        fr = {1: [1.0], 2: [0.5, 0.5], 3: [0.5, 0.25, 0.25], 4: [0.25] * 4}[n]
        rows = []
        for k, e in enumerate(used):
            t = (text or {}).get(e, e)
            rows.append((listing.index(e), t, fr[k]))
        doe = [(t, e, fr[len(used) + k]) for k, (t, e) in enumerate(doe_rows)]
        one = [base] * len(listing)
        sep = ['%s_%s' % (base if base not in _DOE else 'annex', e) for e in listing]
        return {'kind': kind, 'slots': list(listing), 'rows': rows, 'doe_rows': doe, 'zone': zone,
                'simulate': simulate, 'one_type': one, 'separate_types': sep,
                'describe': [(base, e) + ERA_SCHEDULE[e][0:1] + ERA_SCHEDULE[e][2:3] + (k,)
                             for k, e in enumerate(listing)],
                'bld': [(base, t, f) for _, t, f in rows] + doe}
    ms = [
        member('new type, 2 eras, listed in era order', 'labtower', ['pre80', 'new'], ['pre80', 'new'],
               [('midriseapartment', 'pst80')], '1A', True),
        member('new type, 2 eras, listed reversed', 'labtower', ['new', 'pre80'], ['pre80', 'new'], [], '5C', True,
               text={'pre80': 'Pre80', 'new': 'NEW'}),
        member('new type, 3 eras, listed rotated, stock uses two', 'rowhouse', ['pst80', 'new', 'pre80'],
               ['pre80', 'pst80'], [('hospital', 'new')], '4A', not quick),
        member('DOE type replaced in 2 eras, listed reversed', 'largeoffice', ['new', 'pre80'], ['pre80', 'new'],
               [('hospital', 'pst80')], '1A', not quick),
    ]
    if not quick:
        import itertools
        for perm in itertools.permutations(ERAS):
            ms.append(member('new type, 3 eras, listing %s' % '/'.join(perm), 'labtower', list(perm), list(ERAS),
                             [('smalloffice', 'new')] if rng.random() < 0.5 else [], rng.choice(['2A', '3C', '6A', '8']),
                             True))
        ms.append(member('DOE type replaced in 3 eras', 'warehouse', ['pst80', 'pre80', 'new'], list(ERAS),
                         [('hospital', 'new')], '5A', True))
    return ms


_DOE = ('fullservicerestaurant', 'hospital', 'largehotel', 'largeoffice', 'medoffice', 'midriseapartment',
        'outpatient', 'primaryschool', 'quickservicerestaurant', 'secondaryschool', 'smallhotel', 'smalloffice',
        'standaloneretail', 'stripmall', 'supermarket', 'warehouse')


def era_customs(uwg, mem, names):
    """Custom (BEMDef, SchDef) vectors of a member under the given type names (one per slot). With one common name
    the vector keeps the member's listing order; with separate names it is listed in era order, so that BEM has the
    same order in both twins (rows of new types are appended in listing order, eras of one row scanned in order)."""
    ref, sch = uwg.UWG.load_refDOE()
    order = list(range(len(mem['slots'])))
    if len(set(names)) > 1:
        order.sort(key=lambda i: ERAS.index(mem['slots'][i]))
    bv, sv = [], []
    for i in order:
        era = mem['slots'][i]
        cool, heat, q_elec, n_occ = ERA_SCHEDULE[era]
        b = copy.deepcopy(ref[3][2][0])
        s = copy.deepcopy(sch[3][2][0])
        b.bldtype = s.bldtype = names[i]
        b.builtera = s.builtera = era
        b.zonetype = s.zonetype = 'era-%s' % era
        b.building.cop = {'pre80': 2.4, 'pst80': 3.0, 'new': 3.6}[era]
        s.cool = [[cool] * 24 for _ in range(3)]
        s.heat = [[heat] * 24 for _ in range(3)]
        s.q_elec = q_elec
        s.n_occ = n_occ
        bv.append(b)
        sv.append(s)
    return bv, sv


# =========================================================================================== C08
def near_limit_floats():
    """(accepted, refused) doubles next to the limits of [0, 1]: a hair inside (must be accepted and carried
    unchanged), a hair outside (must be refused)."""
    one_m = math.nextafter(1.0, 0.0)
    inside = [5e-324, 2.2250738585072014e-308, 1e-300, 1e-30, 1e-12, 5e-11, 9.99e-11, 1e-10, 1.5e-10, 1e-9, 1e-6,
              1 - 1e-6, 1 - 1e-9, 1 - 1.5e-10, 1 - 5e-11, 1 - 1e-12, 1 - 1e-15, one_m]
    outside = [-5e-324, -1e-300, -1e-12, -5e-11, -1e-10, -1e-9, math.nextafter(1.0, 2.0), 1 + 1e-15, 1 + 1e-12,
               1 + 5e-11, 1 + 1e-10, 1 + 1e-9]
    return inside, outside


def near_limit_fractions():
    """the same for the exact-rational run of the setters: (inside, outside) Fractions"""
    from fractions import Fraction as F
    inside = [F(1, 10 ** k) for k in (9, 10, 11, 12, 15, 30, 300)] + \
             [1 - F(1, 10 ** k) for k in (9, 10, 11, 12, 15, 30)] + [F(1, 2 ** 60), 1 - F(1, 2 ** 60)]
    outside = [-F(1, 10 ** k) for k in (9, 10, 11, 12, 30, 300)] + [1 + F(1, 10 ** k) for k in (9, 10, 11, 12, 30)]
    return inside, outside


# =========================================================================================== C10
NAN_TOKENS = ['nan', 'NaN', 'NAN', '+nan', '-nan', ' nan', 'nan ', ' NaN ', '-NaN', '+NAN']
INF_TOKENS = ['inf', '-inf', '+inf', 'Infinity', '-Infinity', 'INF', '1e999', '-1e999', ' inf ']


def has_nan(x):
    if isinstance(x, float):
        return x != x
    if isinstance(x, (list, tuple)):
        return any(has_nan(y) for y in x)
    return False


def nan_parameters(m):
    """names of the parameters of a UWG object that read back as (or contain) NaN"""
    out = []
    for a in type(m).PARAMETER_LIST:
        try:
            if has_nan(getattr(m, a)):
                out.append(a)
        except AttributeError:
            pass
    return out


def _week(v):
    return [[v] * 24 for _ in range(3)]


def _hours(off, on, lo=8, hi=18):
    return [[off] * lo + [on] * (hi - lo) + [off] * (24 - hi) for _ in range(3)]


def _rows(wd, sat, sun):
    return [[wd] * 24, [sat] * 24, [sun] * 24]


def schedule_members(quick):
    """(label, climate, (month, day), overrides of the SchDef constructor arguments). Every member is a schedule
    set a user could write and that the constructor accepts; the sentinels lie in rows / hours the 1-day run visits
    (1 Jan is a Sunday in the model's calendar, 2 Jan a weekday, 7 Jan a Saturday)."""
    OFFH, OFFC = (-999, -9999.0, -274.0, -1e6), (999, 9999.0, 1e6)
    ms = []
    for v in OFFH[:2 if quick else None]:
        ms.append(('heating off (%r C) in every hour' % v, 'SGP', (1, 2), dict(heat=_week(v))))
    ms += [
        ('heating 21 C 08-18 h, off (-999) at night', 'SGP', (1, 2), dict(heat=_hours(-999, 21.0))),
        ('heating off (-999) on Sundays only, run on a Sunday', 'SGP', (1, 1), dict(heat=_rows(21.0, 21.0, -999))),
        ('heating off (-999) on Saturdays only, run on a Saturday', 'TOR', (1, 7), dict(heat=_rows(21.0, -999, 21.0))),
        ('heating off (-999) week-ends, run on a weekday', 'TOR', (1, 2), dict(heat=_rows(20.0, -999, -999))),
        ('heating off (-274 C, below 0 K) at night, cold climate', 'TOR', (1, 2), dict(heat=_hours(-274.0, 20.0))),
        ('cooling off (999 C) in every hour', 'SGP', (7, 3), dict(cool=_week(999))),
        ('cooling 24 C 08-18 h, off (999) at night', 'SGP', (7, 3), dict(cool=_hours(999, 24.0))),
        ('free-running building: heating -999, cooling 999', 'SGP', (1, 2), dict(heat=_week(-999), cool=_week(999))),
        ('cooling set point below 0 K (-999 C): cooling at capacity', 'SGP', (7, 3), dict(cool=_week(-999))),
        ('zero loads, no occupants, no ventilation, no hot water', 'SGP', (1, 2),
         dict(q_elec=0, q_gas=0, q_light=0, n_occ=0, vent=0, v_swh=0)),
        ('integer entries throughout', 'SGP', (1, 2),
         dict(elec=_week(1), light=_week(0), occ=_week(1), heat=_week(20), cool=_week(25), gas=_week(0), swh=_week(0))),
        ('load fractions above one', 'SGP', (1, 2), dict(elec=_week(1.5), light=_week(2), occ=_week(3))),
    ]
    if not quick:
        for v in OFFC:
            ms.append(('cooling off (%r C), cold climate' % v, 'TOR', (7, 3), dict(cool=_week(v))))
        for v in OFFH:
            ms.append(('heating off (%r C) at night, cold climate' % v, 'TOR', (1, 2), dict(heat=_hours(v, 21.0))))
        ms += [('heating set point equals cooling set point', 'SGP', (1, 2), dict(heat=_week(22.0), cool=_week(22.0))),
               ('heating set point above cooling set point', 'TOR', (1, 2), dict(heat=_week(30.0), cool=_week(20.0))),
               ('plug load 150 W/m2', 'SGP', (1, 2), dict(q_elec=150.0)),
               ('heating -inf (off)', 'TOR', (1, 2), dict(heat=_week(-float('inf'))))]
    return ms


_CACHE = {}


def build_schedule(uwg, over, ti=3, ei=1, zi=0):
    """(BEMDef, SchDef) for largeoffice/pst80: the shipped schedule set with the given constructor arguments
    replaced, built through the REAL SchDef constructor (which is what accepts or refuses the set)."""
    if 'lib' not in _CACHE:
        _CACHE['lib'] = uwg.UWG.load_refDOE()          # (read-only here: the BEMDef is deep-copied below)
    ref, sch = _CACHE['lib']
    s = sch[ti][ei][zi]
    kw = dict(elec=s.elec, gas=s.gas, light=s.light, occ=s.occ, cool=s.cool, heat=s.heat, swh=s.swh, q_elec=s.q_elec,
              q_gas=s.q_gas, q_light=s.q_light, n_occ=s.n_occ, vent=s.vent, v_swh=s.v_swh, bldtype=s.bldtype,
              builtera=s.builtera)
    kw.update(over)
    return copy.deepcopy(ref[ti][ei][zi]), uwg.SchDef(**kw)


# =========================================================================================== C17
def _read_lines(path):
    with open(path, newline='', errors='ignore') as f:
        return f.read().split('\n')


def rural_family(work):
    """name -> (path, what differs from the shipped Singapore file). Every member is a complete, legal 8760-row
    EPW; members named `loc-*` / `ground-*` differ from the base in ONE interpreted header part only."""
    import simdriver
    base = U.rp(U.EPW_SGP)
    lines = _read_lines(base)
    fam = {'base': (base, 'the shipped Singapore file')}

    def write(name, new, what):
        p = os.path.join(work, 'rural_%s.epw' % name)
        with open(p, 'w', newline='') as f:
            f.write('\n'.join(new))
        fam[name] = (p, what)

    def with_location(name, what, lat=None, lon=None, gmt=None, elev=None, city=None):
        new = list(lines)
        c = new[0].split(',')
        for idx, v in ((1, city), (6, lat), (7, lon), (8, gmt), (9, elev)):
            if v is not None:
                c[idx] = str(v)
        new[0] = ','.join(c)
        write(name, new, what)
    with_location('loc-toronto', 'LOCATION of Toronto (43.67, -79.63, GMT-5, 173 m), data rows of Singapore',
                  43.67, -79.63, -5.0, 173.0, 'Toronto Int')
    with_location('loc-lat', 'latitude -33.9 only', lat=-33.9)
    with_location('loc-lon', 'longitude 13.98 only', lon=13.98)
    with_location('loc-gmt', 'time zone 7.0 only', gmt=7.0)
    with_location('loc-elev', 'elevation 1600 m only', elev=1600.0)
    with_location('loc-city', 'city name only (not interpreted)', city='Elsewhere')
    g = lines[3].split(',')
    n = int(g[1])

    def ground(name, what, fn):
        new = list(lines)
        new[3] = ','.join(fn(list(g)))
        write(name, new, what)

    def shift(c):
        for k in range(n):
            for mth in range(12):
                i = 2 + 16 * k + 4 + mth
                c[i] = '%.2f' % (float(c[i]) - 6.0)
        return c

    def depths(c):
        for k, d in enumerate((1.0, 3.0, 6.0)[:n]):
            c[2 + 16 * k] = '%.1f' % d
        return c

    def one_depth(c):
        return [c[0], '1'] + c[2:18]
    ground('ground-values', 'ground temperatures 6 K lower', shift)
    ground('ground-depths', 'ground temperature depths 1 / 3 / 6 m instead of 0.5 / 2 / 4 m', depths)
    ground('ground-one', 'one ground temperature depth only', one_depth)
    rows = list(lines)
    for i in range(8, len(rows)):
        c = rows[i].split(',')
        if len(c) > 21:
            c[6] = '%.1f' % (float(c[6]) + 3.0)
            c[8] = '%d' % max(10, int(float(c[8])) - 15)
            c[21] = '%.1f' % (float(c[21]) + 1.5)
            rows[i] = ','.join(c)
    write('rows-warm', rows, 'data rows 3 K warmer, drier, windier')
    for tag, idx in (('toronto', 2), ('boston', 1)):
        fam[tag] = (simdriver.epw_path(simdriver.EPWS[idx]), 'the shipped %s file' % tag)
    return fam


def rewrite_in_place(dst, src):
    """the caller replaces the CONTENT of the rural file he named (same path)"""
    shutil.copyfile(src, dst)


def call(fn):
    """one tolerated call: None, or 'ExceptionClass: message'"""
    try:
        with core.quiet():
            fn()
    except Exception as e:  # noqa: BLE001 - a failing call is an operation of the history
        return '%s: %s' % (type(e).__name__, str(e).split('\n')[0][:120])
    return None


STATE_NAMES = ['BEM', 'Sch', 'road', 'rural', 'UCM', 'UBL', 'RSM', 'USM', 'forcIP', 'forc', 'simTime', 'geoParam',
               'weather', 'r_glaze_total', 'SHGC_total', 'alb_wall_total', 'lat', 'lon', 'gmt', 'nSoil', 'Tsoil',
               'depth_soil', '_soilindex1', '_soilindex2']


def state_parts(m):
    """the digest of uwgutil.model_state, kept per component so that a difference can be named"""
    return {k: U.fingerprint(getattr(m, k, '<unset>'), skip=('_climate_data',)) for k in STATE_NAMES}


def outcome(m):
    """generate(); simulate() on an object, whatever its past. A dict with the stage reached, the exception class
    of the failing call, the state digest after generate and the hourly records."""
    out = {'stage': 'generate', 'error': None, 'message': None, 'digest': None, 'records': None}
    err = call(m.generate)
    if err:
        out['error'], out['message'] = err.split(':')[0], err
        return out
    out['digest'] = state_parts(m)
    out['stage'] = 'simulate'
    err = call(m.simulate)
    if err:
        out['error'], out['message'] = err.split(':')[0], err
        out['records'] = sum(1 for u in m.UCMData if u is not None)
        return out
    out['stage'] = 'returned'
    out['records'] = U.records(m)
    return out


def outcome_text(o):
    if o['error']:
        return '%s() raised %s' % (o['stage'], o['message'])
    return 'generate() and simulate() returned (%d hourly records)' % len(o['records'])


def compare_outcomes(h, f):
    """None, or how the object with a past (h) differs from the fresh object (f) in the final generate; simulate"""
    if (h['stage'], h['error']) != (f['stage'], f['error']):
        return 'object with the past: %s; fresh object: %s' % (outcome_text(h), outcome_text(f))
    if h['digest'] != f['digest']:
        return 'state after generate() differs from the fresh object in: %s' % ', '.join(
            k for k in STATE_NAMES if h['digest'].get(k) != f['digest'].get(k))
    if h['records'] != f['records']:
        if isinstance(h['records'], tuple) and isinstance(f['records'], tuple):
            d = next((n for n, (a, b) in enumerate(zip(h['records'], f['records'])) if a != b), None)
            return 'hourly records differ from the fresh object (first differing hour %s: %s vs %s)' % (
                d, h['records'][d][:2] if d is not None and h['records'][d] else None,
                f['records'][d][:2] if d is not None and f['records'][d] else None)
        return 'records stored before the exception: %s vs %s on the fresh object' % (h['records'], f['records'])
    return None


def apply_history(m, ops, ctx):
    """Operations: ('gen',) ('sim',) tolerated calls (the outcome is logged); ('set', name, value);
    ('epw', member) point epw_path to a member of the rural family; ('rewrite', member) replace the content of the
    private rural file the object names (ctx['private']) by that member; ('write',) tolerated write_epw."""
    log = ctx.setdefault('log', [])
    for op in ops:
        k = op[0]
        if k == 'gen':
            log.append('generate: ' + (call(m.generate) or 'returned'))
        elif k == 'sim':
            log.append('simulate: ' + (call(m.simulate) or 'returned'))
        elif k == 'write':
            log.append('write_epw: ' + (call(m.write_epw) or 'returned'))
        elif k == 'set':
            setattr(m, op[1], copy.deepcopy(op[2]))
        elif k == 'epw':
            m.epw_path = ctx['family'][op[1]][0]
        elif k == 'private':
            rewrite_in_place(ctx['private'], ctx['family'][op[1]][0])
            m.epw_path = ctx['private']
        elif k == 'rewrite':
            rewrite_in_place(ctx['private'], ctx['family'][op[1]][0])
        else:
            raise core.Infra('unknown operation %r' % (op,))
    return log
