"""Exact execution of the REAL uwg source over rationals.

`load(repo)` returns a package object `uwgfrac` whose modules are the files of
<repo>/uwg/*.py, re-read from the working tree on every call, AST-rewritten so that all
arithmetic is exact:

  * float literal c            -> Fraction(repr(c))       (the decimal written in the source)
  * a / b                      -> DIV_(a, b)              (int/int gives a Fraction, not a float)
  * a ** b, pow(a,b), math.pow -> POW_(a, b)              (integral b exact, else stub rpow)
  * float(x)                   -> TOFRAC_(x)              (identity on rationals, parses strings)
  * float (as a type)          -> (float, Fraction)       (isinstance checks accept rationals)
  * math.<f>, from math import -> rational stub functions (same stubs as Lean's Symbols at Q)

The stubs are numerically meaningless; two programs that apply the same field operations to the
same symbol applications return the same rational, and programs that differ in a constant, an
argument, a sign or a dropped term do not (generically).  Nothing is cached between calls.
"""
import ast
import importlib.abc
import importlib.util
import os
import sys
from fractions import Fraction

PKG = 'uwgfrac'


# ----------------------------------------------------------------------------- stubs
class StubMath(object):
    """Rational stand-ins for libm. Must match lean/UwgVerif/Model/Symbols.lean (stubQ)."""
    pi = Fraction(355, 113)
    inf = float('inf')

    @staticmethod
    def exp(x):
        return 1 + Fraction(x) / 100

    @staticmethod
    def log(x):
        x = Fraction(x)
        if x <= 0:
            raise ValueError('math domain error')
        return x - 1

    @staticmethod
    def sqrt(x):
        x = Fraction(x)
        if x < 0:
            raise ValueError('math domain error')
        return (x + 1) / 2

    @staticmethod
    def cos(x):
        x = Fraction(x)
        return 1 - x * x / 2

    @staticmethod
    def sin(x):
        return Fraction(x)

    @staticmethod
    def tan(x):
        return Fraction(x)

    @staticmethod
    def acos(x):
        return 1 - Fraction(x)

    @staticmethod
    def asin(x):
        return Fraction(x)

    @staticmethod
    def ceil(x):
        import math
        return math.ceil(x)

    @staticmethod
    def floor(x):
        import math
        return math.floor(x)

    @staticmethod
    def pow(a, b):
        return POW_(a, b)

    @staticmethod
    def rpow(a, b):
        return Fraction(a) * Fraction(b) + 1


def POW_(a, b):
    if isinstance(b, int) or (isinstance(b, Fraction) and b.denominator == 1):
        b = int(b)
        a = Fraction(a)
        if b >= 0:
            return a ** b
        return 1 / (a ** (-b))
    return StubMath.rpow(a, b)


def DIV_(a, b):
    if isinstance(a, bool) or isinstance(b, bool):
        return Fraction(int(a)) / Fraction(int(b)) if isinstance(b, (int, bool)) else int(a) / b
    if isinstance(a, int) and isinstance(b, int):
        if b == 0:
            raise ZeroDivisionError('division by zero')
        return Fraction(a, b)
    return a / b


def TOFRAC_(x):
    if isinstance(x, str):
        return Fraction(x.strip())
    if isinstance(x, float):
        return Fraction(repr(x))
    if isinstance(x, (int, Fraction)):
        return Fraction(x)
    return x


def FRAC_(s):
    return Fraction(s)


# ----------------------------------------------------------------------------- rewriting
class _Rewriter(ast.NodeTransformer):
    def __init__(self, src):
        self.src = src

    def visit_Constant(self, node):
        if isinstance(node.value, float):
            text = ast.get_source_segment(self.src, node) or repr(node.value)
            try:
                Fraction(text)
            except Exception:
                text = repr(node.value)
            return ast.copy_location(
                ast.Call(func=ast.Name(id='FRAC_', ctx=ast.Load()),
                         args=[ast.Constant(value=text)], keywords=[]), node)
        return node

    def visit_BinOp(self, node):
        self.generic_visit(node)
        if isinstance(node.op, ast.Pow):
            return ast.copy_location(
                ast.Call(func=ast.Name(id='POW_', ctx=ast.Load()),
                         args=[node.left, node.right], keywords=[]), node)
        if isinstance(node.op, ast.Div):
            return ast.copy_location(
                ast.Call(func=ast.Name(id='DIV_', ctx=ast.Load()),
                         args=[node.left, node.right], keywords=[]), node)
        return node

    def visit_AugAssign(self, node):
        self.generic_visit(node)
        return node

    def visit_Call(self, node):
        if isinstance(node.func, ast.Name) and node.func.id == 'float' and len(node.args) == 1:
            node.func = ast.Name(id='TOFRAC_', ctx=ast.Load())
        self.generic_visit(node)
        return node

    def visit_Name(self, node):
        # `isinstance(x, (int, float))` must accept exact rationals too
        if node.id == 'float' and isinstance(node.ctx, ast.Load):
            return ast.copy_location(ast.Name(id='FLOATT_', ctx=ast.Load()), node)
        return node

    def visit_Attribute(self, node):
        self.generic_visit(node)
        if isinstance(node.value, ast.Name) and node.value.id == 'math':
            return ast.copy_location(
                ast.Attribute(value=ast.Name(id='MATH_', ctx=ast.Load()),
                              attr=node.attr, ctx=node.ctx), node)
        return node

    def visit_ImportFrom(self, node):
        if node.module == 'math' and node.level == 0:
            out = []
            for alias in node.names:
                tgt = alias.asname or alias.name
                out.append(ast.copy_location(ast.Assign(
                    targets=[ast.Name(id=tgt, ctx=ast.Store())],
                    value=ast.Attribute(value=ast.Name(id='MATH_', ctx=ast.Load()),
                                        attr=alias.name, ctx=ast.Load())), node))
            return out
        return node


def transform_source(src, filename):
    tree = ast.parse(src, filename)
    tree = _Rewriter(src).visit(tree)
    ast.fix_missing_locations(tree)
    return compile(tree, filename, 'exec')


class _Finder(importlib.abc.MetaPathFinder, importlib.abc.Loader):
    def __init__(self, repo):
        self.root = os.path.join(repo, 'uwg')

    def _path(self, fullname):
        parts = fullname.split('.')
        if parts[0] != PKG:
            return None, False
        rel = parts[1:]
        d = os.path.join(self.root, *rel)
        if os.path.isdir(d) and os.path.exists(os.path.join(d, '__init__.py')):
            return os.path.join(d, '__init__.py'), True
        f = os.path.join(self.root, *rel) + '.py'
        if os.path.exists(f):
            return f, False
        return None, False

    def find_spec(self, fullname, path, target=None):
        p, ispkg = self._path(fullname)
        if p is None:
            return None
        return importlib.util.spec_from_file_location(
            fullname, p, loader=self,
            submodule_search_locations=[os.path.dirname(p)] if ispkg else None)

    def create_module(self, spec):
        return None

    def exec_module(self, module):
        p, _ = self._path(module.__name__)
        with open(p, 'rb') as f:
            src = f.read().decode('utf-8').replace('\r\n', '\n')
        code = transform_source(src, p)
        g = module.__dict__
        g['FRAC_'] = FRAC_
        g['POW_'] = POW_
        g['DIV_'] = DIV_
        g['TOFRAC_'] = TOFRAC_
        g['MATH_'] = StubMath
        g['FLOATT_'] = (float, Fraction)
        exec(code, g)


def load(repo=None):
    """(Re)load the fractionised package from the working tree. Returns the package module."""
    repo = repo or os.environ.get('UWG_REPO', '/repo')
    for name in [n for n in sys.modules if n == PKG or n.startswith(PKG + '.')]:
        del sys.modules[name]
    sys.meta_path[:] = [f for f in sys.meta_path if not isinstance(f, _Finder)]
    sys.meta_path.insert(0, _Finder(repo))
    import importlib
    return importlib.import_module(PKG)


def frac_str(x):
    """Canonical p/q text of a rational (ints included)."""
    x = Fraction(x)
    return '%d/%d' % (x.numerator, x.denominator)


def frac_list(xs):
    return '[' + ';'.join(frac_str(x) for x in xs) + ']'
