"""Translator for C19: regenerates lean/UwgVerif/Gen/RefTables.lean from the working tree.

Two libraries are exported attribute by attribute, in the same format:
  * `shipped`      - what `UWG.load_refDOE()` unpickles from uwg/refdata/readDOE.pkl
  * `regenerated`  - what `readDOE(serialize_output=False)` builds from resources/DOERefBuildings/*.csv
Every double is exported exactly (numerator, denominator of the binary value)."""
import contextlib
import hashlib
import io
import json
import os
from fractions import Fraction

import core
import uwgutil as U

FRACS = [('building', 'glazing_ratio'), ('building', 'shgc'), ('building', 'int_heat_frad'),
         ('building', 'int_heat_flat'), ('building', 'heateff'),
         ('wall', 'albedo'), ('wall', 'emissivity'), ('wall', 'vegcoverage'),
         ('roof', 'albedo'), ('roof', 'emissivity'), ('roof', 'vegcoverage'),
         ('mass', 'albedo'), ('mass', 'emissivity'), ('mass', 'vegcoverage')]
POSITIVES = [('building', 'floor_height'), ('building', 'cop'), ('building', 'u_value'),
             ('building', 'coolcap'), ('building', 'heat_cap'), ('building', 'initial_temp')]
SCHED = ['elec', 'gas', 'light', 'occ', 'cool', 'heat', 'swh']


def canon(o, depth=0):
    """Canonical JSON-able tree of every attribute (floats exact)."""
    if isinstance(o, float):
        return 'f' + o.hex()
    if o is None or isinstance(o, (bool, int, str)):
        return o
    if isinstance(o, (list, tuple)):
        return [canon(x, depth + 1) for x in o]
    if isinstance(o, dict):
        return {str(k): canon(v, depth + 1) for k, v in sorted(o.items())}
    if hasattr(o, '__dict__'):
        return {'__class__': type(o).__name__,
                **{k: canon(v, depth + 1) for k, v in sorted(vars(o).items())}}
    return repr(o)


def dbl(x):
    fr = Fraction(x)
    return (fr.numerator, fr.denominator)


def rows_of(bem, sch):
    """-> (constructions list, rows) for one library."""
    cons, cons_idx, rows = [], {}, []
    for i in range(16):
        for j in range(3):
            for k in range(16):
                b, s = bem[i][j][k], sch[i][j][k]
                ids = []
                for el in (b.wall, b.roof, b.mass):
                    key = (tuple(el.layer_thickness_lst), tuple(el.layerThermalCond), tuple(el.layerVolHeat))
                    if key not in cons_idx:
                        cons_idx[key] = len(cons)
                        cons.append(key)
                    ids.append(cons_idx[key])
                digest = hashlib.sha256(json.dumps([canon(b), canon(s)], sort_keys=True).encode()).hexdigest()
                shape = []
                for nm in SCHED:
                    tab = getattr(s, nm)
                    shape.append(len(tab))
                    shape += [len(r) for r in tab]
                rows.append(dict(ids=ids, fracs=[dbl(getattr(getattr(b, o), a)) for o, a in FRACS],
                                 pos=[dbl(getattr(getattr(b, o), a)) for o, a in POSITIVES],
                                 digest=int(digest, 16), shape=shape,
                                 key=(b.bldtype, b.builtera, b.zonetype, s.bldtype, s.builtera, s.zonetype)))
    return cons, rows


def table_zone_headers(repo=None):
    """The zone names the source tables themselves give to their 16 data columns (row `Zone` of every
    resources/DOERefBuildings/BLDn/BLDn_LocationSummary.csv, one per era block; '7.000..' -> '7').
    -> {(n, era_block): [16 names]}; independent of the label constants of uwg/utilities.py."""
    import csv
    repo = repo or core.REPO
    out = {}
    base = os.path.join(repo, 'resources', 'DOERefBuildings')
    for n in range(1, 17):
        path = os.path.join(base, 'BLD%d' % n, 'BLD%d_LocationSummary.csv' % n)
        with open(path, encoding='latin-1', newline='') as f:
            rows = list(csv.reader(f))
        blk = 0
        for r in rows:
            if len(r) > 19 and r[1].strip() == 'Zone':
                names = []
                for c in r[4:20]:
                    c = c.strip()
                    if c.replace('.', '').isdigit():
                        c = str(int(float(c)))
                    names.append(c)
                out[(n, blk)] = names
                blk += 1
    return out


def table_construction_names(repo=None):
    """Construction-type names of the `TypeWall` / `TypeRoof` rows of the 16 LocationSummary tables and the names
    the reader's if/elif chains compare them with (read from the source text of readDOE.py).
    -> (names in tables {('wall'|'roof', name): [table numbers]}, names known to the reader {'wall': set, 'roof': set})"""
    import csv
    import re
    repo = repo or core.REPO
    base = os.path.join(repo, 'resources', 'DOERefBuildings')
    used = {}
    for n in range(1, 17):
        path = os.path.join(base, 'BLD%d' % n, 'BLD%d_LocationSummary.csv' % n)
        with open(path, encoding='latin-1', newline='') as f:
            rows = list(csv.reader(f))
        for r in rows:
            if len(r) > 19 and r[1].strip() in ('TypeWall', 'TypeRoof'):
                for c in r[4:20]:
                    used.setdefault(('wall' if r[1].strip() == 'TypeWall' else 'roof', c.strip()), set()).add(n)
    src = open(os.path.join(repo, 'uwg', 'readDOE.py'), encoding='utf-8', errors='ignore').read()
    known = {'wall': set(re.findall(r'TypeWall\[j\]\[k\]\s*==\s*["\']([^"\']+)["\']', src)),
             'roof': set(re.findall(r'TypeRoof\[j\]\[k\]\s*==\s*["\']([^"\']+)["\']', src))}
    return {k: sorted(v) for k, v in used.items()}, known


def element_sharing(bem):
    """how many cells of the 16 x 3 x 16 matrix hold one and the same Element object: [(role, cells, first cell,
    types involved)] for every Element held by more than one cell"""
    own = {}
    for i in range(16):
        for j in range(3):
            for k in range(16):
                for role in ('wall', 'roof', 'mass'):
                    own.setdefault((role, id(getattr(bem[i][j][k], role))), []).append((i, j, k))
    out = []
    for (role, _), cells in own.items():
        if len(cells) > 1:
            out.append((role, len(cells), cells[0], sorted({bem[c[0]][0][0].bldtype for c in cells})))
    return sorted(out)


def label_problems(bem, sch, consts, headers):
    """Agreement of the three places that say which matrix position is which archetype: the text labels stored
    in the objects, the ordered label constants (REF_BLDTYPE / REF_BUILTERA / REF_ZONETYPE) and the `Zone` header
    row of the source tables. Returns a list of (cell, message)."""
    types, eras, zones = consts
    out = []
    if len(types) != 16 or len(eras) != 3 or len(zones) != 16 or len(set(types)) != 16 or len(set(zones)) != 16:
        out.append((None, 'label constants are not 16 distinct types x 3 eras x 16 distinct zones'))
        return out
    for (n, blk), names in sorted(headers.items()):
        if names != list(zones):
            d = [k for k in range(16) if names[k] != zones[k]]
            out.append(((n - 1, blk, d[0]), 'table BLD%d (block %d) heads column %d with zone %r, REF_ZONETYPE[%d] is %r'
                        % (n, blk, d[0], names[d[0]], d[0], zones[d[0]])))
    for i in range(16):
        for j in range(3):
            for k in range(16):
                b, s = bem[i][j][k], sch[i][j][k]
                want = (types[i], eras[j], zones[k])
                if (b.bldtype, b.builtera, b.zonetype) != want:
                    out.append(((i, j, k), 'BEMDef at [%d][%d][%d] is labelled %r, the constants say %r'
                                % (i, j, k, (b.bldtype, b.builtera, b.zonetype), want)))
                if (s.bldtype, s.builtera) != want[:2] or getattr(s, 'zonetype', want[2]) != want[2]:
                    out.append(((i, j, k), 'SchDef at [%d][%d][%d] is labelled %r, the constants say %r'
                                % (i, j, k, (s.bldtype, s.builtera, getattr(s, 'zonetype', None)), want)))
    return out


def pack_dbl(p):
    """(numerator, power-of-two denominator) -> mantissa * 2^16 + exponent  (< 2^80)."""
    num, den = p
    e = den.bit_length() - 1
    assert num >= 0 and den == 1 << e and num < (1 << 64) and e < (1 << 16), p
    return (num << 16) | e


def pack(values, width):
    """little-endian digits of `width` bits"""
    code = 0
    for i, v in enumerate(values):
        assert 0 <= v < (1 << width)
        code |= v << (width * i)
    return code


def emit_lib(name, cons, rows, out):
    out.append('def %sConstructions : List (Nat × Nat) := [' % name)
    out.append(',\n'.join('  (%d, %d)' % (len(key[0]), pack([pack_dbl(dbl(x)) for d, k, c in zip(*key) for x in (d, k, c)], 80))
                          for key in cons))
    out.append(']')
    out.append('def %s : List ArchRow := [' % name)
    out.append(',\n'.join(
        '  ⟨%d, %d, %d, %d, %d, %d, %d⟩' % (
            r['ids'][0], r['ids'][1], r['ids'][2], pack([pack_dbl(x) for x in r['fracs']], 80),
            pack([pack_dbl(x) for x in r['pos']], 80), r['digest'], pack(r['shape'], 8))
        for r in rows))
    out.append(']')


def generate(path=None):
    u = U.uwg_mod()
    from uwg.readDOE import readDOE
    sb, ss = u.UWG.load_refDOE()
    with contextlib.redirect_stdout(io.StringIO()):
        rb, rs = readDOE(serialize_output=False)
    sc, srows = rows_of(sb, ss)
    rc, rrows = rows_of(rb, rs)
    out = ['/- GENERATED by harness/extract/reftables.py from the working tree of /repo on every run of the',
           '   C19 check. Do not edit. -/',
           'import UwgVerif.Model.RefLib', '', 'namespace Uwg.Gen', 'open Uwg.RefLib', '',
           'def nFracs : Nat := %d' % len(FRACS), 'def nPos : Nat := %d' % len(POSITIVES), '']
    emit_lib('shipped', sc, srows, out)
    emit_lib('regenerated', rc, rrows, out)
    out += ['', 'end Uwg.Gen', '']
    path = path or os.path.join(core.LEAN_DIR, 'UwgVerif', 'Gen', 'RefTables.lean')
    text = '\n'.join(out)
    old = open(path).read() if os.path.exists(path) else None
    if old != text:
        with open(path, 'w') as f:
            f.write(text)
    info = dict(shipped_rows=len(srows), regenerated_rows=len(rrows), shipped_constructions=len(sc),
                regenerated_constructions=len(rc), changed=(old != text), bytes=len(text),
                keys_ok=all(r['key'][:3] == r['key'][3:] for r in srows))
    return info, (sb, ss, rb, rs, srows, rrows)
