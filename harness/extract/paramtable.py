"""Translator for C06 (and C08): regenerate lean/UwgVerif/Gen/ParamTable.lean from the CURRENT source of
uwg/uwg.py (python `ast`, nothing is imported or executed).

Extracted:
  PARAMETER_LIST, OPTIONAL_PARAMETER_SET           (class constants)
  kwargsOrder   order of the `model.X = X` statements in UWG.from_param_args
  initNone      attributes `self._x = None` assigned in UWG.__init__
  setterKinds   for every PARAMETER_LIST name the validator kind its property setter applies
                (Uwg.C06.Kind); setters whose shape is not recognised become `.unknown`, which makes
                the Lean theorem `table_closed` (a `decide`) fail -> broken proof obligation
  toDictLoop / fromDictLoop / readerLoop
                whether to_dict / from_dict / the tail of _read_input still are the plain loop over
                PARAMETER_LIST the Lean model assumes
The file is only rewritten when its content changes (so `lake build` is a no-op on an unchanged tree).
"""
import ast
import hashlib
import os



class _StripMsg(ast.NodeTransformer):
    def visit_Assert(self, node):
        self.generic_visit(node)
        node.msg = None
        return node


def _fingerprint(stmts):
    mod = ast.Module(body=[_StripMsg().visit(ast.parse(ast.unparse(s)).body[0]) for s in stmts],
                     type_ignores=[])
    return hashlib.sha1(ast.dump(mod).encode()).hexdigest()




def _const_int(node):
    if isinstance(node, ast.Constant) and isinstance(node.value, int) and not isinstance(node.value, bool):
        return node.value
    if isinstance(node, ast.UnaryOp) and isinstance(node.op, ast.USub):
        v = _const_int(node.operand)
        return None if v is None else -v
    return None


def _validator_call(call):
    """`F(value, ...)` or `utilities.F(value, ...)` -> Lean Kind text or None."""
    if not (isinstance(call, ast.Call) and call.args
            and isinstance(call.args[0], ast.Name) and call.args[0].id == 'value'):
        return None
    fn = call.func
    if isinstance(fn, ast.Name):
        f = fn.id
    elif isinstance(fn, ast.Attribute) and isinstance(fn.value, ast.Name) and fn.value.id == 'utilities':
        f = fn.attr
    else:
        return None
    if any(k.arg != 'input_name' for k in call.keywords):
        return None
    a = call.args
    if f in ('int_in_range', 'float_in_range') and len(a) >= 3:
        lo, hi = _const_int(a[1]), _const_int(a[2])
        if lo is None or hi is None:
            return None
        return '.%s (%d) (%d)' % ('intRange' if f == 'int_in_range' else 'fltRange', lo, hi)
    if f == 'float_in_range_excl' and len(a) == 2:
        lo = _const_int(a[1])
        return None if lo is None else '.fltExcl (%d)' % lo
    if f == 'int_positive' and len(a) <= 2:
        return '.intMin 0'
    if f == 'float_positive' and len(a) <= 2:
        return '.fltMin 0'
    return None


def _store(stmt, name):
    """`self._name = <expr>` -> expr or None."""
    if (isinstance(stmt, ast.Assign) and len(stmt.targets) == 1
            and isinstance(stmt.targets[0], ast.Attribute)
            and isinstance(stmt.targets[0].value, ast.Name) and stmt.targets[0].value.id == 'self'
            and stmt.targets[0].attr == '_' + name):
        return stmt.value
    return None


def _body(fn):
    b = list(fn.body)
    if b and isinstance(b[0], ast.Expr) and isinstance(b[0].value, ast.Constant) \
            and isinstance(b[0].value.value, str):
        b = b[1:]
    return b


def _self_attrs_sum(expr, getters):
    """Flatten a left-nested `+` chain into operand names: `self.x` -> 'x' (properties that are
    themselves sums of attributes are expanded), `value` -> 'value'. None if another shape."""
    if isinstance(expr, ast.BinOp) and isinstance(expr.op, ast.Add):
        l, r = _self_attrs_sum(expr.left, getters), _self_attrs_sum(expr.right, getters)
        return None if l is None or r is None else l + r
    if isinstance(expr, ast.Name) and expr.id == 'value':
        return ['value']
    if isinstance(expr, ast.Attribute) and isinstance(expr.value, ast.Name) and expr.value.id == 'self':
        g = getters.get(expr.attr)
        if g is not None:
            gb = _body(g)
            if len(gb) == 1 and isinstance(gb[0], ast.Return):
                rv = gb[0].value
                if isinstance(rv, ast.Attribute) and isinstance(rv.value, ast.Name) \
                        and rv.value.id == 'self' and rv.attr == '_' + expr.attr:
                    return [expr.attr]
                if isinstance(rv, ast.BinOp):
                    return _self_attrs_sum(rv, {k: v for k, v in getters.items() if k != expr.attr})
        return [expr.attr]
    return None


def lean_str(s):
    return 'cs! "%s"' % s.replace('\\', '\\\\').replace('"', '\\"')


def setter_kind(name, fn, getters, bespoke_fp):
    b = _body(fn)
    # plain validator
    if len(b) == 1:
        v = _store(b[0], name)
        if v is not None:
            k = _validator_call(v)
            if k:
                return k
        # optional: if value is None: store value else: store validator
        s = b[0]
        if (isinstance(s, ast.If) and isinstance(s.test, ast.Compare)
                and isinstance(s.test.left, ast.Name) and s.test.left.id == 'value'
                and len(s.test.ops) == 1 and isinstance(s.test.ops[0], ast.Is)
                and isinstance(s.test.comparators[0], ast.Constant)
                and s.test.comparators[0].value is None
                and len(s.body) == 1 and len(s.orelse) == 1):
            v1, v2 = _store(s.body[0], name), _store(s.orelse[0], name)
            if isinstance(v1, ast.Name) and v1.id == 'value' and v2 is not None:
                k = _validator_call(v2)
                if k:
                    return '.opt (%s)' % k
    # cover: try: assert a + b + value <= 1 except AttributeError: pass ; store float_in_range(value,0,1)
    if len(b) == 2 and isinstance(b[0], ast.Try) and not b[0].orelse and not b[0].finalbody:
        t = b[0]
        v = _store(b[1], name)
        if (v is not None and _validator_call(v) == '.fltRange (0) (1)' and len(t.body) == 1
                and isinstance(t.body[0], ast.Assert) and len(t.handlers) == 1
                and isinstance(t.handlers[0].type, ast.Name)
                and t.handlers[0].type.id == 'AttributeError'
                and len(t.handlers[0].body) == 1 and isinstance(t.handlers[0].body[0], ast.Pass)):
            c = t.body[0].test
            if (isinstance(c, ast.Compare) and len(c.ops) == 1 and isinstance(c.ops[0], ast.LtE)
                    and _const_int(c.comparators[0]) == 1):
                ops = _self_attrs_sum(c.left, getters)
                # (the position of `value` in the sum is irrelevant to the exact model: addition of
                #  rationals is commutative; the float order is probed by the cover-sum-boundary tie)
                if ops and len(ops) == 3 and ops.count('value') == 1:
                    others = [o for o in ops if o != 'value']
                    return '.cover (%s) (%s)' % (lean_str(others[0]), lean_str(others[1]))
    # bespoke setters recognised by fingerprint
    fp = _fingerprint(b)
    if name in bespoke_fp and fp == bespoke_fp[name][1]:
        return '.' + bespoke_fp[name][0]
    return '.unknown'


# fingerprints of the audited bodies of the bespoke setters (assert messages stripped)
BESPOKE_FP = {
    'autosize': ('boolNum', '5063f701d270d61ea9d5a092f1e853d2bd90d0da'),
    'zone': ('zone', '92dc79b2d407028f8fe1e68cf6c2f91a3d27f3fd'),
    'bld': ('bld', '79e8a214cfa945a15ff5409da43b6743edb38b62'),
    'schtraffic': ('sch', 'e81c42052d68a29a985a097ba6e9056bee73c2f0'),
}
LOOP_FP = {'to_dict': '80ba30340554a7abd0cdf7bc5bbc41dbc851f8bc', 'from_dict': '948f852ab01c2fe1260a7a8cf059e9f6262229a7', 'reader_tail': '0889162c9bddc8f5f8b473a13de9ce56cbfd7079'}


def extract(repo):
    src = open(os.path.join(repo, 'uwg', 'uwg.py'), newline='').read()
    tree = ast.parse(src)
    cls = [n for n in tree.body if isinstance(n, ast.ClassDef) and n.name == 'UWG'][0]
    consts, setters, getters, fns = {}, {}, {}, {}
    for n in cls.body:
        if isinstance(n, ast.Assign) and len(n.targets) == 1 and isinstance(n.targets[0], ast.Name):
            consts[n.targets[0].id] = n.value
        elif isinstance(n, ast.FunctionDef):
            decs = n.decorator_list
            if decs and isinstance(decs[0], ast.Attribute) and decs[0].attr == 'setter':
                setters[n.name] = n
            elif decs and isinstance(decs[0], ast.Name) and decs[0].id == 'property':
                getters[n.name] = n
            else:
                fns[n.name] = n
    plist = [e.value for e in consts['PARAMETER_LIST'].elts]
    oset = sorted(e.value for e in consts['OPTIONAL_PARAMETER_SET'].elts)
    kw = []
    for s in fns['from_param_args'].body:
        if (isinstance(s, ast.Assign) and len(s.targets) == 1
                and isinstance(s.targets[0], ast.Attribute)
                and isinstance(s.targets[0].value, ast.Name) and s.targets[0].value.id == 'model'
                and isinstance(s.value, ast.Name) and s.value.id == s.targets[0].attr):
            kw.append(s.value.id)
    init_none = []
    for s in fns['__init__'].body:
        if (isinstance(s, ast.Assign) and len(s.targets) == 1
                and isinstance(s.targets[0], ast.Attribute)
                and isinstance(s.targets[0].value, ast.Name) and s.targets[0].value.id == 'self'
                and isinstance(s.value, ast.Constant) and s.value.value is None
                and s.targets[0].attr.startswith('_') and s.targets[0].attr[1:] in plist):
            init_none.append(s.targets[0].attr[1:])
    kinds = []
    for p in plist:
        kinds.append((p, setter_kind(p, setters[p], getters, BESPOKE_FP) if p in setters
                      else '.unknown'))
    # loop shapes
    td = [s for s in _body(fns['to_dict'])]
    fd = [s for s in _body(fns['from_dict'])]
    rt = [s for s in _body(fns['_read_input']) if isinstance(s, ast.For)]
    fps = {'to_dict': _fingerprint(td), 'from_dict': _fingerprint(fd),
           'reader_tail': _fingerprint(rt)}
    bes = {p: _fingerprint(_body(setters[p])) for p in BESPOKE_FP if p in setters}
    return dict(plist=plist, oset=oset, kw=kw, init_none=init_none, kinds=kinds, fps=fps, bespoke=bes)


def render(x):
    def lst(xs):
        return '[' + ', '.join(lean_str(s) for s in xs) + ']'
    out = ['/- GENERATED by harness/extract/paramtable.py from uwg/uwg.py - do not edit. -/',
           'import UwgVerif.Model.ParamKinds', '', 'namespace Uwg.Gen', 'open Uwg.C06', '',
           '/-- `UWG.PARAMETER_LIST` -/', 'def paramList : List Str :=', '  ' + lst(x['plist']), '',
           '/-- `UWG.OPTIONAL_PARAMETER_SET` (sorted) -/', 'def optionalSet : List Str :=',
           '  ' + lst(x['oset']), '',
           '/-- order of the `model.X = X` statements in `UWG.from_param_args` -/',
           'def kwargsOrder : List Str :=', '  ' + lst(x['kw']), '',
           '/-- parameters initialised to `None` by `UWG.__init__` -/',
           'def initNone : List Str :=', '  ' + lst(x['init_none']), '',
           '/-- validator kind applied by the property setter of every PARAMETER_LIST name -/',
           'def setterKinds : List (Str × Kind) :=', '  [' + ',\n   '.join(
               '(%s, %s)' % (lean_str(p), k) for p, k in x['kinds']) + ']', '',
           '/-- `to_dict` is still `for attr in PARAMETER_LIST: base[attr] = getattr(self, attr)` (+ refs) -/',
           'def toDictLoop : Bool := %s' % ('true' if x['fps']['to_dict'] == LOOP_FP['to_dict'] else 'false'),
           '/-- `from_dict` is still `for attr in PARAMETER_LIST: setattr(model, attr, data[attr])` (+ refs) -/',
           'def fromDictLoop : Bool := %s' % ('true' if x['fps']['from_dict'] == LOOP_FP['from_dict'] else 'false'),
           '/-- `_read_input` still ends with `for attr in PARAMETER_LIST: assert attr in d; setattr(...)` -/',
           'def readerLoop : Bool := %s' % ('true' if x['fps']['reader_tail'] == LOOP_FP['reader_tail'] else 'false'),
           '', 'end Uwg.Gen', '']
    return '\n'.join(out)


def regenerate(repo, lean_dir):
    text = render(extract(repo))
    path = os.path.join(lean_dir, 'UwgVerif', 'Gen', 'ParamTable.lean')
    os.makedirs(os.path.dirname(path), exist_ok=True)
    old = open(path).read() if os.path.exists(path) else None
    if old != text:
        with open(path, 'w') as f:
            f.write(text)
    return path, old != text


if __name__ == '__main__':
    import sys
    repo = sys.argv[1] if len(sys.argv) > 1 else os.environ.get('UWG_REPO', '/repo')
    x = extract(repo)
    if '--fingerprints' in sys.argv:
        print(x['bespoke'])
        print(x['fps'])
    else:
        print(render(x))
