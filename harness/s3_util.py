"""Shared helpers for the ties that explore *what a call sequence leaves behind* (C08, C10, C14, C17, C18):

* refused assignments: for every validated parameter family a list of values the setters must refuse
  (below / above / far outside the range, wrong shape, NaN); `try_assign` performs the assignment the way a
  caller with a try/except would and reports what happened; `param_view` is everything a caller can read
  back about the parameters (to_dict + derived read-only views), used for "a refused value leaves no trace";
* `fresh_like`: a newly constructed UWG object that carries the same *current* parameter values as an object
  with a history (deep copies, so that list-valued parameters edited in place are taken as they are now);
* legal spellings of a float in a parameter file (everything `float()` reads: `.5`, `+0.3`, `5e-1`, `1.`, ...);
* custom reference buildings built through the REAL constructors (mixed-case text attributes, attributes
  re-assigned after construction).
"""
import copy
import os

import core
import uwgutil as U

RATIO01 = ['blddensity', 'grasscover', 'treecover', 'albroad', 'albveg', 'rurvegcover', 'latgrss', 'lattree',
           'h_mix', 'latfocc', 'radfocc', 'radfequip', 'radflight']
OVERRIDES01 = ['shgc', 'albroof', 'glzr', 'vegroof', 'albwall']
POSITIVE = ['sensanth', 'bldheight', 'h_obs', 'charlength', 'vertohor', 'kroad', 'croad', 'droad', 'windmin',
            'sensocc', 'maxday', 'maxnight', 'h_ubl1', 'h_ubl2', 'h_ref', 'h_temp', 'h_wind', 'c_circ', 'c_exch']
INTS = {'month': [0, 13, -1], 'day': [0, 32, -5], 'nday': [-1, -30], 'dtsim': [-300, -1], 'dtweather': [-3600],
        'vegstart': [0, 13], 'vegend': [0, 13, -2]}
NAN = float('nan')


def refusal_table():
    """(family, parameter, value) triples; every value lies outside what the setter accepts."""
    out = []
    for p in RATIO01:
        out += [('ratio', p, v) for v in (-0.05, -1e-9, 1.0000001, 1.5, -3.0, NAN)]
    for p in OVERRIDES01:
        out += [('override', p, v) for v in (-0.2, -1e-9, 1.0000001, 1.4, 7.0, NAN)]
    out += [('override', 'flr_h', v) for v in (0, 0.0, -3.05, NAN)]
    for p in POSITIVE:
        out += [('positive', p, v) for v in (-1.0, -1e-6, NAN)]
    for p, vals in INTS.items():
        out += [('int', p, v) for v in vals]
    out += [('zone', 'zone', v) for v in ('9Z', '', '1a ', 5)]
    out += [('bld', 'bld', v) for v in (
        [('largeoffice', 'pst80', 0.4)],                                            # fractions sum to 0.4
        [('largeoffice', 'pst80', 0.5), ('hospital', 'new', 0.6)],                  # 1.1
        [('largeoffice', 'post80', 0.4), ('midriseapartment', 'pst80', 0.6)],       # unknown era
        [('largeoffice', 'pst80', 1.2), ('midriseapartment', 'pst80', -0.2)],       # fractions out of range
        [('largeoffice', 'pst80')],                                                 # short row
        'largeoffice')]
    row = [0.5] * 24
    out += [('schtraffic', 'schtraffic', v) for v in (
        [row, row], [row, row, row[:23]], [row, row, ['a'] * 24], None)]
    out += [('path', 'epw_path', '/nonexistent/rural.epw')]
    return out


def cover_sum_refusals(m):
    """Assignments refused only because blddensity + grasscover + treecover would exceed one."""
    b, g, t = m.blddensity, m.grasscover, m.treecover
    out = []
    if t > 0 or g > 0:
        out.append(('cover-sum', 'blddensity', round(1.0 - g - t + 0.02, 6)))
    if b > 0:
        out.append(('cover-sum', 'grasscover', round(1.0 - b - t + 0.02, 6)))
        out.append(('cover-sum', 'treecover', round(1.0 - b - g + 0.02, 6)))
    return [c for c in out if 0 <= c[2] <= 1]


def try_assign(obj, name, value):
    """`obj.name = value` as a caller that catches the refusal would do it. 'accepted' or 'refused <Class>'."""
    try:
        setattr(obj, name, value)
    except Exception as e:  # noqa: BLE001 - any exception is a refusal; the class is reported
        return 'refused ' + type(e).__name__
    return 'accepted'


DERIVED = ('vegcover', 'epw_path')


def param_view(m):
    """Everything a caller can read back about the parameters of a UWG object (deep copy)."""
    d = {}
    for a in type(m).PARAMETER_LIST:
        try:
            d[a] = copy.deepcopy(getattr(m, a))
        except AttributeError:
            d[a] = '<unset>'
    for a in DERIVED:
        try:
            d[a] = getattr(m, a)
        except AttributeError:
            d[a] = '<unset>'
    return d


def view_diff(a, b):
    return [(k, a[k], b[k]) for k in a if repr(a[k]) != repr(b[k])]


def fresh_like(m, outdir, outname, param=U.PARAM_SGP):
    """A new UWG object carrying the CURRENT parameter values of `m` (deep copies), its current rural file and
    deep copies of its current custom reference objects. Everything goes through the public setters."""
    u = U.uwg_mod()
    f = u.UWG.from_param_file(U.rp(param), epw_path=m.epw_path, new_epw_dir=outdir, new_epw_name=outname)
    if m.ref_bem_vector is not None:
        f.ref_bem_vector, f.ref_sch_vector = f._check_reference_data(
            copy.deepcopy(m.ref_bem_vector), copy.deepcopy(m.ref_sch_vector))
    f.grasscover = 0
    f.treecover = 0
    for a in u.UWG.PARAMETER_LIST:
        setattr(f, a, copy.deepcopy(getattr(m, a)))
    f.epw_precision = m.epw_precision
    return f


# ------------------------------------------------------------------------------- float spellings
def float_spellings(v):
    """Texts that `float()` reads as exactly the double `v` (0 <= v), as a user may type them in a .uwg file."""
    r = repr(float(v))
    out = [r, '+' + r, r + '0', '0' + r, ' ' + r + ' ', '%e' % v if float('%e' % v) == v else r,
           ('%E' % v).replace('E+0', 'E+') if float('%E' % v) == v else r]
    if r.startswith('0.') and r != '0.0':
        out += [r[1:], '+' + r[1:], r[1:] + '00']                  # .5  +.5  .500
    if r.endswith('.0'):
        out += [r[:-2], r[:-1], '+' + r[:-2], r[:-2] + 'e0', r[:-2] + '.000']   # 1  1.  +1  1e0  1.000
    if v == 0:
        out += ['.0', '0.', '-0', '-0.0', '0e5']
    if v == 0.5:
        out += ['5e-1', '5.E-1', '.05e1', '+5e-01', '50e-2']
    seen, res = set(), []
    for s in out:
        if s not in seen and float(s) == v:
            seen.add(s)
            res.append(s)
    return res


def write_param_file(src, dst, cells, layout=None):
    """Copy the parameter file `src` to `dst` with the value cell of the named rows replaced by the given
    TEXT (row name compared case-insensitively, comments and all other rows byte for byte)."""
    want = {k.lower(): v for k, v in cells.items()}
    done = set()
    out = []
    for line in open(src, newline='').read().split('\n'):
        parts = line.split(',')
        key = parts[0].replace(' ', '').lower()
        if key in want and len(parts) >= 2 and not key.startswith('#'):
            parts[1] = want[key]
            done.add(key)
            line = ','.join(parts)
        out.append(line)
    missing = set(want) - done
    if missing:
        raise core.Infra('parameter rows %s not found in %s' % (sorted(missing), src))
    with open(dst, 'w', newline='') as f:
        f.write('\n'.join(out))
    return dst


# ------------------------------------------------------------------------------- custom reference objects
def custom_from_library(u, ti=3, ei=1, zi=0):
    """(BEMDef, SchDef) deep-copied from the shipped library (default: largeoffice / pst80 / zone 1A), to be
    handed back as custom reference data - the way tests/test_UWG.py customises reference buildings."""
    ref, sch = u.UWG.load_refDOE()
    return copy.deepcopy(ref[ti][ei][zi]), copy.deepcopy(sch[ti][ei][zi])


def constructed_custom(u, condtype='AIR', cop=3.2, coolcap=90.0, bldtype='studio', builtera='new', vegroof=0.5):
    """A custom reference building and schedule made with the REAL constructors (Material, Element, Building,
    BEMDef, SchDef); `condtype` is passed as given (any letter case the setter accepts)."""
    concrete = u.Material(1.311, 836.8 * 2240, 'Concrete')
    gypsum = u.Material(0.16, 830.0 * 784.9, 'Gypsum')
    stucco = u.Material(0.6918, 837.0 * 1858.0, 'Stucco')
    insulation = u.Material(0.049, 836.8 * 265.0, 'Insulation')
    wall = u.Element(0.08, 0.92, [0.0254, 0.0508, 0.0508, 0.0508, 0.0508, 0.0127],
                     [stucco, concrete, concrete, concrete, concrete, gypsum], 0, 293, False, 'MassWall')
    roof = u.Element(0.2, 0.93, [0.058, 0.058], [insulation, insulation], vegroof, 293, True, 'IEAD')
    mass = u.Element(0.2, 0.9, [0.054, 0.054], [concrete, concrete], 0.0, 293, True, 'MassFloor')
    bld = u.Building(floor_height=3.5, int_heat_night=1, int_heat_day=1, int_heat_frad=0.1, int_heat_flat=0.1,
                     infil=0.26, vent=0.0005, glazing_ratio=0.4, u_value=5.8, shgc=0.2, condtype=condtype,
                     cop=cop, coolcap=coolcap, heateff=0.8, initial_temp=293)
    bem = u.BEMDef(bld, mass, wall, roof, bldtype=bldtype, builtera=builtera)
    frac = [[0.5] * 24 for _ in range(3)]
    cool = [[24.0] * 24 for _ in range(3)]
    heat = [[20.0] * 24 for _ in range(3)]
    gas = [[0.2] * 24 for _ in range(3)]
    sch = u.SchDef(elec=frac, gas=gas, light=frac, occ=frac, cool=cool, heat=heat, swh=gas, q_elec=12.0,
                   q_gas=1.0, q_light=10.0, n_occ=0.05, vent=0.0006, v_swh=0.05, bldtype=bldtype,
                   builtera=builtera)
    return bem, sch


def mixed_case(rng, text):
    """`text` in another letter case (never the all-upper spelling)."""
    forms = [text.lower(), text.capitalize(), text[0].lower() + text[1:].upper(),
             ''.join(c.upper() if i % 2 else c.lower() for i, c in enumerate(text))]
    return rng.choice([f for f in forms if f != text.upper()])


def remove_if_exists(path):
    if path and os.path.exists(path):
        os.remove(path)
