"""Shared machinery of every check: Lean build + axiom audit, line-protocol correspondence,
failing-input search plumbing, known findings, evidence and verdict.

Verdict logic (DESIGN.md section 2.5):
  1. proof obligations: `lake build <Props module>`, `#print axioms` on every property theorem
     (allowed: propext, Classical.choice, Quot.sound), forbidden-token scan of the Lean sources;
  2. correspondence: model (Lean, executed at Q) and implementation (/repo working tree) on the
     same generated inputs, exact comparison of canonical output lines;
  3. both fine -> exit 0;  either broken -> failing-input search on the implementation;
     VIOLATION line (with `no-failing-input-found` when the search finds nothing) -> exit 1.
Exit 2 = infrastructure problem (never a verdict).
"""
import json
import os
import random
import re
import shutil
import subprocess
import sys
import tempfile
import time

VERIF = os.path.dirname(os.path.dirname(os.path.abspath(__file__)))
REPO = os.environ.get('UWG_REPO', '/repo')
# (VERIF_LEAN_DIR: experiments on scratch copies use a private copy of the lake project, so that the
#  regenerated Gen/*.lean tables of a mutated tree never touch the committed ones)
LEAN_DIR = os.environ.get('VERIF_LEAN_DIR') or os.path.join(VERIF, 'lean')
ALLOWED_AXIOMS = {'propext', 'Classical.choice', 'Quot.sound'}
FORBIDDEN = re.compile(
    r'\b(sorry|admit|native_decide|bv_decide|implemented_by|unsafe)\b|^\s*axiom\s|maxHeartbeats\s+0')

TRUSTED_BASE = [
    'Lean 4.33 kernel (thorough tier re-checks the property modules with leanchecker)',
    'axioms allowed in property theorems: propext, Classical.choice, Quot.sound (audited by '
    '#print axioms on every run); no native_decide / bv_decide / sorry / own axioms',
    'Mathlib v4.33 single modules as installed',
    'the tie: harness/fracexec.py (AST rewrite of the real source to exact rationals + shared '
    'stub table), the line protocol and exact diff, the generators, CPython fractions',
    'IEEE rounding, non-finite values and libm are outside the exact model',
]


def repo_python_path():
    """Make `import uwg` resolve to the working tree under test (once per process: the package
    must NOT be re-imported between operations, or in-process interference would be masked)."""
    if REPO not in sys.path[:1]:
        sys.path.insert(0, REPO)
    cur = sys.modules.get('uwg')
    if cur is not None and os.path.dirname(os.path.dirname(os.path.abspath(cur.__file__))) == \
            os.path.abspath(REPO):
        return
    for name in [n for n in sys.modules if n == 'uwg' or n.startswith('uwg.')]:
        del sys.modules[name]


def strip_lean_comments(text):
    text = re.sub(r'/-.*?-/', lambda m: '\n' * m.group(0).count('\n'), text, flags=re.S)
    return '\n'.join(line.split('--')[0] for line in text.split('\n'))


class Infra(Exception):
    pass


class quiet(object):
    """Silence the prints of uwg while running real code."""
    def __enter__(self):
        import io
        self._old = sys.stdout
        sys.stdout = io.StringIO()
        return self

    def __exit__(self, *a):
        sys.stdout = self._old
        return False


class Check(object):
    def __init__(self, pid, tier, seed):
        self.pid = pid
        self.tier = tier
        self.seed = seed
        self.rng = random.Random('%s-%d' % (pid, seed))
        self.t0 = time.time()
        self.workdir = None
        self.theorems = []          # [(name, status, axioms)]
        self.proof_problems = []    # strings naming theorems / modules that no longer check
        self.corr = []              # per-tie dicts
        self.corr_problems = []     # [{tie, case, impl, model}]
        self.violations = []        # replay dicts
        self.known = []             # KNOWN-FINDING lines printed
        self.measurements = {}
        self.assumptions = []
        self.notes = []
        self.samples = []
        self.checker_cmd = ''
        self.extra_cov = {}

    # ------------------------------------------------------------------ infrastructure
    def work(self):
        if self.workdir is None:
            base = os.path.join(VERIF, '.work')
            os.makedirs(base, exist_ok=True)
            self.workdir = tempfile.mkdtemp(prefix=self.pid + '-', dir=base)
            # scratch directory for worker processes of the check (removed with the work directory)
            os.environ['VERIF_WORK_TMP'] = self.workdir
        return self.workdir

    def cleanup(self):
        if self.workdir and os.path.isdir(self.workdir):
            shutil.rmtree(self.workdir, ignore_errors=True)

    def log(self, *a):
        print('[%s %6.1fs]' % (self.pid, time.time() - self.t0), *a, flush=True)

    def lake(self, args, timeout=3600, stdin=None):
        env = dict(os.environ)
        p = subprocess.run(['lake'] + args, cwd=LEAN_DIR, input=stdin, capture_output=True,
                           text=True, timeout=timeout, env=env)
        return p.returncode, p.stdout + p.stderr

    # ------------------------------------------------------------------ proof obligations
    def proof(self, module, theorems, extra_modules=()):
        """Build the property module and audit the axioms of every property theorem."""
        mods = [module] + list(extra_modules)
        self.checker_cmd = ('cd lean && lake build %s && lake env lean <audit file with '
                            '#print axioms for %d theorems>' % (' '.join(mods), len(theorems)))
        rc, out = self.lake(['build'] + mods)
        built = rc == 0
        if not built:
            errs = [l for l in out.split('\n') if 'error' in l][:8]
            self.proof_problems.append('lake build %s failed: %s' % (module, ' | '.join(errs)))
            self.log('BUILD FAILED', *errs)
        axioms = {}
        if built:
            audit = os.path.join(self.work(), 'Audit.lean')
            with open(audit, 'w') as f:
                for mm in mods:
                    f.write('import %s\n' % mm)
                for t in theorems:
                    f.write('#print axioms %s\n' % t)
            rc, out = self.lake(['env', 'lean', audit])
            flat = re.sub(r'\s+', ' ', out)
            for t in theorems:
                m = re.search(r"'%s' depends on axioms: \[([^\]]*)\]" % re.escape(t), flat)
                if m:
                    axioms[t] = [a.strip() for a in m.group(1).split(',') if a.strip()]
                elif re.search(r"'%s' does not depend on any axioms" % re.escape(t), flat):
                    axioms[t] = []
                else:
                    axioms[t] = None
        # forbidden tokens in the Lean sources (models, lemmas, property files)
        bad = []
        for root, _, files in os.walk(os.path.join(LEAN_DIR, 'UwgVerif')):
            for fn in files:
                if not fn.endswith('.lean'):
                    continue
                p = os.path.join(root, fn)
                for i, line in enumerate(strip_lean_comments(open(p).read()).split('\n')):
                    if FORBIDDEN.search(line):
                        bad.append('%s:%d: %s' % (os.path.relpath(p, LEAN_DIR), i + 1, line.strip()))
        if bad:
            self.proof_problems.append('forbidden tokens in Lean sources: ' + '; '.join(bad[:5]))
        for t in theorems:
            ax = axioms.get(t)
            if not built:
                st = 'not-built'
            elif ax is None:
                st = 'missing'
                self.proof_problems.append('theorem %s not found in %s' % (t, module))
            elif set(ax) - ALLOWED_AXIOMS:
                st = 'bad-axioms'
                self.proof_problems.append('theorem %s depends on %s' % (t, ax))
            elif bad:
                st = 'tainted'
            else:
                st = 'ok'
            self.theorems.append({'name': t, 'status': st, 'axioms': ax})
        self.log('proof: %d/%d theorems discharged' % (
            sum(1 for t in self.theorems if t['status'] == 'ok'), len(self.theorems)))
        return not self.proof_problems

    def leanchecker(self, modules):
        """Thorough tier: independent re-check of the compiled property modules."""
        rc, out = self.lake(['env', 'leanchecker'] + list(modules), timeout=3600)
        ok = rc == 0
        self.extra_cov['leanchecker'] = {'modules': list(modules), 'ok': ok}
        if not ok:
            self.proof_problems.append('leanchecker rejected %s: %s' % (modules, out[-300:]))
        self.log('leanchecker', 'ok' if ok else 'FAILED')
        return ok

    # ------------------------------------------------------------------ correspondence
    def lean_run(self, driver, lines, timeout=1800):
        """Pipe protocol lines to `lake env lean --run UwgVerif/Drv/<driver>.lean`."""
        if not lines:
            return []
        rc, out = None, None
        p = subprocess.run(['lake', 'env', 'lean', '--run', 'UwgVerif/Drv/%s.lean' % driver],
                           cwd=LEAN_DIR, input='\n'.join(lines) + '\n', capture_output=True,
                           text=True, timeout=timeout)
        res = [l for l in p.stdout.split('\n') if l != '']
        if p.returncode != 0 or len(res) != len(lines):
            raise Infra('lean driver %s failed (rc=%s, %d answers for %d lines): %s' % (
                driver, p.returncode, len(res), len(lines), (p.stderr or p.stdout)[-400:]))
        return res

    def correspond(self, tie, driver, cases, rule, nontrivial=None, classify=None):
        """cases: list of (protocol_line, impl_output_line). Runs the Lean driver on the same
        lines and compares exactly. Records distribution for the evidence file."""
        lines = [c[0] for c in cases]
        try:
            model = self.lean_run(driver, lines)
        except Infra as e:
            # the model no longer runs (e.g. regenerated table does not compile): correspondence broken
            self.corr_problems.append({'tie': tie, 'case': None, 'impl': None, 'model': str(e)})
            self.corr.append({'tie': tie, 'cases': len(cases), 'mismatches': len(cases),
                              'rule': rule, 'error': str(e)})
            return list(range(len(cases)))
        mism = []
        for i, ((line, impl), mod) in enumerate(zip(cases, model)):
            if impl != mod:
                mism.append(i)
                if len(self.corr_problems) < 20:
                    self.corr_problems.append({'tie': tie, 'case': line, 'impl': impl[:2000],
                                               'model': mod[:2000]})
        distinct = set()
        classes = {}
        errs = {}
        for line, impl in cases:
            nt = nontrivial(line, impl) if nontrivial else not impl.startswith('err')
            if nt:
                distinct.add(line)
            if impl.startswith('err'):
                errs[impl] = errs.get(impl, 0) + 1
            if classify:
                c = classify(line, impl)
                classes[c] = classes.get(c, 0) + 1
        self.corr.append({'tie': tie, 'cases': len(cases), 'distinct_nontrivial': len(distinct),
                          'mismatches': len(mism), 'rule': rule, 'branches': classes,
                          'error_kinds': errs})
        for line, impl in cases[:2]:
            self.samples.append({'tie': tie, 'case': line[:600], 'answer': impl[:300]})
        self.log('tie %-28s %5d cases, %d distinct non-trivial, %d mismatches' % (
            tie, len(cases), len(distinct), len(mism)))
        return mism

    def direct(self, tie, n, distinct, rule, mismatches=0, branches=None, samples=()):
        """Record a tie that is evaluated in Python only (oracle on the implementation)."""
        self.corr.append({'tie': tie, 'cases': n, 'distinct_nontrivial': distinct,
                          'mismatches': mismatches, 'rule': rule, 'branches': branches or {}})
        for s in list(samples)[:2]:
            self.samples.append({'tie': tie, 'case': s})
        self.log('tie %-28s %5d cases, %d distinct non-trivial, %d mismatches' % (
            tie, n, distinct, mismatches))

    # ------------------------------------------------------------------ verdict
    def broken(self):
        return bool(self.proof_problems or self.corr_problems)

    def known_findings(self):
        p = os.path.join(VERIF, 'known_findings.json')
        if not os.path.exists(p):
            return []
        return [k for k in json.load(open(p)).get('findings', []) if k['property'] == self.pid]

    def report_known(self, finding):
        line = 'KNOWN-FINDING: property=%s %s' % (self.pid, finding['what'])
        print(line, flush=True)
        self.known.append(finding['id'])

    def violation(self, kind, what, case=None, observed=None, expected=None, how=None,
                  found_input=True):
        """Record a violation; written to a replay file at finish()."""
        self.violations.append({
            'property': self.pid, 'kind': kind, 'theorem_or_tie': what, 'seed': self.seed,
            'case': case, 'observed': observed, 'expected': expected,
            'how_to_replay': how or 'bin/check %s --tier %s (VERIF_SEED=%d)' % (
                self.pid, self.tier, self.seed),
            'failing_input_found': found_input})

    def finish(self):
        """Decide, write evidence, print VIOLATION lines, return exit code."""
        # A broken obligation / correspondence with no concrete failing input found by the
        # property's search is still a violation (brief): no-failing-input-found.
        if self.broken() and not any(v['failing_input_found'] for v in self.violations):
            what = '; '.join(self.proof_problems[:3] + [
                'correspondence %s differs on %s' % (c['tie'], (c['case'] or '')[:200])
                for c in self.corr_problems[:3]])
            self.violation('proof-or-correspondence-broken', what,
                           case=(self.corr_problems[0] if self.corr_problems else None),
                           found_input=False)
        wall = time.time() - self.t0
        obligations = len(self.theorems)
        discharged = sum(1 for t in self.theorems if t['status'] == 'ok')
        evals = sum(c['cases'] for c in self.corr)
        distinct = sum(c.get('distinct_nontrivial', 0) for c in self.corr)
        cov = {
            'obligations': obligations,
            'discharged': discharged,
            'checker_cmd': self.checker_cmd,
            'trusted_base': TRUSTED_BASE + self.assumptions,
            'theorems': self.theorems,
            'evaluations': evals,
            'distinct_nontrivial': distinct,
            'rule': ' || '.join('%s: %s' % (c['tie'], c['rule']) for c in self.corr),
            'samples': self.samples[:12] or [{'note': 'no correspondence cases in this run'}],
            'correspondence': self.corr,
            'correspondence_problems': self.corr_problems[:10],
            'proof_problems': self.proof_problems,
            'known_findings_reproduced': self.known,
            'measurements': self.measurements,
            'notes': self.notes,
        }
        cov.update(self.extra_cov)
        ev = {'property_id': self.pid, 'tier': self.tier, 'seed': self.seed, 'level': 'proof',
              'coverage': cov, 'assumptions': self.assumptions, 'wall_s': round(wall, 2),
              'violations': len(self.violations)}
        # (VERIF_EVIDENCE_DIR: experiments against scratch copies must not overwrite the committed evidence)
        evdir = os.environ.get('VERIF_EVIDENCE_DIR') or os.path.join(VERIF, 'evidence')
        os.makedirs(evdir, exist_ok=True)
        with open(os.path.join(evdir, self.pid + '.json'), 'w') as f:
            json.dump(ev, f, indent=1, default=str)
            f.write('\n')
        rc = 0
        if self.violations:
            rpdir = os.environ.get('VERIF_REPLAY_DIR') or os.path.join(VERIF, 'replays')
            os.makedirs(rpdir, exist_ok=True)
            for i, v in enumerate(self.violations[:5]):
                path = os.path.join(rpdir, '%s-%d-%d.json' % (self.pid, self.seed, i))
                with open(path, 'w') as f:
                    json.dump(v, f, indent=1, default=str)
                tail = '' if v['failing_input_found'] else ' no-failing-input-found'
                print('VIOLATION property=%s replay=%s%s' % (self.pid, path, tail), flush=True)
            rc = 1
        self.log('done: obligations %d/%d, %d cases, %d violations, %.1fs' % (
            discharged, obligations, evals, len(self.violations), wall))
        self.cleanup()
        return rc
