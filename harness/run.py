"""Entry point:  run.py <ID> [--tier quick|thorough] [--replay file]"""
import argparse
import importlib
import os
import sys
import traceback

sys.path.insert(0, os.path.dirname(os.path.abspath(__file__)))
import core  # noqa: E402


def main():
    ap = argparse.ArgumentParser()
    ap.add_argument('pid')
    ap.add_argument('--tier', default=os.environ.get('VERIF_TIER', 'quick'))
    ap.add_argument('--replay', default=None)
    a = ap.parse_args()
    tier = os.environ.get('VERIF_TIER') or a.tier
    if tier not in ('quick', 'thorough'):
        tier = 'quick'
    seed = int(os.environ.get('VERIF_SEED', '0') or 0)
    pid = a.pid.upper()
    chk = core.Check(pid, tier, seed)
    try:
        mod = importlib.import_module('props.' + pid.lower())
        core.repo_python_path()
        if a.replay:
            import json
            rp = json.load(open(a.replay))
            print('replaying %s: kind=%s %s' % (a.replay, rp.get('kind'), rp.get('theorem_or_tie')))
            print('case:', json.dumps(rp.get('case'))[:2000])
            if hasattr(mod, 'replay'):
                rc = mod.replay(chk, a.replay)
                chk.cleanup()
                return rc
            # default: every case derives from the seed, so re-running the check with the
            # recorded seed and tier reproduces the recorded case first
            chk = core.Check(pid, tier, int(rp.get('seed', seed)))
        mod.run(chk)
        return chk.finish()
    except core.Infra as e:
        print('INFRASTRUCTURE: %s' % e, flush=True)
        # a coverage guard of the check ("the generator no longer reaches branch X") that fires AFTER the
        # correspondence was already found broken or a violation was already recorded is a consequence of the
        # deviation, not a defect of the check: report what was found instead of hiding it behind exit 2
        if chk.broken() or getattr(chk, 'violations', None):
            chk.notes.append('stopped early by a coverage guard of the check: %s' % e)
            return chk.finish()
        chk.cleanup()
        return 2
    except Exception as e:
        traceback.print_exc()
        # An exception raised INSIDE the code under test (a frame of the traceback lies in REPO/uwg)
        # that the harness did not anticipate means the implementation no longer behaves as the
        # model and the adapters expect: the correspondence is broken (reported as such, with no
        # concrete failing input). Anything else is a defect of the check itself: exit 2.
        frames = traceback.extract_tb(e.__traceback__)
        root = os.path.join(os.path.abspath(core.REPO), 'uwg') + os.sep
        inside = [f for f in frames if os.path.abspath(f.filename).startswith(root)]
        if inside:
            f = inside[-1]
            chk.corr_problems.append({
                'tie': 'harness adapter', 'case': None,
                'impl': '%s: %s raised at %s:%d (%s)' % (type(e).__name__, str(e)[:200],
                                                        os.path.relpath(f.filename, core.REPO), f.lineno, f.name),
                'model': 'no exception expected by the model / adapter at this call'})
            return chk.finish()
        print('INFRASTRUCTURE: unexpected exception in the check itself', flush=True)
        chk.cleanup()
        return 2


if __name__ == '__main__':
    sys.exit(main())
