"""Entry point:  run.py <ID> [--tier quick|thorough] [--replay file]"""
import argparse
import importlib
import os
import sys
import traceback

sys.path.insert(0, os.path.dirname(os.path.abspath(__file__)))
import core  # noqa: E402


def main():
    ap = argparse.ArgumentParser()
    ap.add_argument('pid')
    ap.add_argument('--tier', default=os.environ.get('VERIF_TIER', 'quick'))
    ap.add_argument('--replay', default=None)
    a = ap.parse_args()
    tier = os.environ.get('VERIF_TIER') or a.tier
    if tier not in ('quick', 'thorough'):
        tier = 'quick'
    seed = int(os.environ.get('VERIF_SEED', '0') or 0)
    pid = a.pid.upper()
    chk = core.Check(pid, tier, seed)
    try:
        mod = importlib.import_module('props.' + pid.lower())
        core.repo_python_path()
        if a.replay:
            import json
            rp = json.load(open(a.replay))
            print('replaying %s: kind=%s %s' % (a.replay, rp.get('kind'), rp.get('theorem_or_tie')))
            print('case:', json.dumps(rp.get('case'))[:2000])
            if hasattr(mod, 'replay'):
                rc = mod.replay(chk, a.replay)
                chk.cleanup()
                return rc
            # default: every case derives from the seed, so re-running the check with the
            # recorded seed and tier reproduces the recorded case first
            chk = core.Check(pid, tier, int(rp.get('seed', seed)))
        mod.run(chk)
        return chk.finish()
    except core.Infra as e:
        print('INFRASTRUCTURE: %s' % e, flush=True)
        chk.cleanup()
        return 2
    except Exception:
        traceback.print_exc()
        print('INFRASTRUCTURE: unexpected exception in the check itself', flush=True)
        chk.cleanup()
        return 2


if __name__ == '__main__':
    sys.exit(main())
