"""Toy-physics execution of the REAL `UWG.simulate` (used by C03 / C10).

The loop of `simulate` runs unchanged, but the physics is replaced (from outside, restored
afterwards) by the toy step of lean/UwgVerif/Drv/C03.lean: the canyon temperature becomes a rolling
integer code of everything a step may read (forcing row, clock view, deep temperature); the toy
raises when the code is a multiple of `raise_mod`. Rural dry-bulb values are replaced by integer
row codes. What comes back is the list of codes found in UCMData (and the error class, if any)."""
import contextlib
import io

import core


def toy_run(model, codes, s0, raise_mod, nsoil3=True):
    import uwg.uwg as U
    st = model.simTime
    forcIP = model.forcIP
    saved_temp = forcIP.temp
    saved_mod = {k: getattr(U, k) for k in ('SolarCalcs', 'urbflux', 'psychrometrics')}
    saved = (model.Tsoil, model.nSoil)
    inst = [(model.UCM, 'UCModel'), (model.UBL, 'ublmodel'), (model.rural, 'SurfFlux'), (model.RSM, 'vdm')]

    class _Solar(object):
        def __init__(self, UCM, BEM, simTime, RSM, forc, geoParam, rural):
            self._r = (rural, UCM, BEM)

        def solarcalcs(self):
            return self._r

    def _urbflux(UCM, UBL, BEM, forc, geoParam, simTime, RSM):
        return UCM, UBL, BEM

    def _psy(*a):
        return 0., 0., 0., 0., 0., 0.

    def _noop(*a, **k):
        return None

    def _toy(BEM, T_ubl, forc, parameter):
        s = model.UCM.canTemp
        v = (s * 31 + int(forc.temp) + 7 * st.month + 3 * st.hourDay + 11 * model.dayType +
             13 * int(forc.deepTemp) + int(st.secDay)) % 1000003
        if raise_mod and v % raise_mod == 0:
            raise Exception('toy fatal error')
        model.UCM.canTemp = v

    err = None
    try:
        forcIP.temp = (list(codes) + saved_temp[len(codes):])[:len(saved_temp)]
        U.SolarCalcs, U.urbflux, U.psychrometrics = _Solar, _urbflux, _psy
        model.UCM.UCModel = _toy
        for o, name in inst[1:]:
            setattr(o, name, _noop)
        model.UCM.canTemp = s0
        model.Tsoil = [[m + 1 for m in range(12)] for _ in range(3)]
        model.nSoil = 3 if nsoil3 else 2
        with contextlib.redirect_stdout(io.StringIO()):
            try:
                model.simulate()
            except IndexError:
                err = 'index'
            except Exception as e:  # noqa
                err = 'fatal' if 'toy fatal' in str(e) else 'timestep' if 'TIMESTEP' in str(e) else type(e).__name__
        recs = [u.canTemp for u in getattr(model, 'UCMData', []) if u is not None]
        mean = None
        if not nsoil3:
            mean = int(sum(forcIP.temp) / float(len(forcIP.temp)))
    finally:
        forcIP.temp = saved_temp
        for k, v in saved_mod.items():
            setattr(U, k, v)
        for o, name in inst:
            try:
                delattr(o, name)
            except AttributeError:
                pass
        model.Tsoil, model.nSoil = saved
    return recs, err, mean
