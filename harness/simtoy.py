"""Toy-physics execution of the REAL `UWG.simulate` (used by C03 / C10).

The loop of `simulate` runs unchanged, but the physics is replaced (from outside, restored
afterwards) by the toy step of lean/UwgVerif/Drv/C03.lean: the canyon temperature becomes a rolling
integer code of everything a step may read (forcing row, clock view, deep temperature); the toy
raises when the code is a multiple of `raise_mod`. Rural dry-bulb values are replaced by integer
row codes. What comes back is the list of codes found in UCMData (and the error class, if any)."""
import contextlib
import io

import core


def toy_run(model, codes, s0, raise_mod, nsoil3=True):
    import uwg.uwg as U
    st = model.simTime
    forcIP = model.forcIP
    saved_temp = forcIP.temp
    saved_mod = {k: getattr(U, k) for k in ('SolarCalcs', 'urbflux', 'psychrometrics')}
    saved = (model.Tsoil, model.nSoil)
    inst = [(model.UCM, 'UCModel'), (model.UBL, 'ublmodel'), (model.rural, 'SurfFlux'), (model.RSM, 'vdm')]

    class _Solar(object):
        def __init__(self, UCM, BEM, simTime, RSM, forc, geoParam, rural):
            self._r = (rural, UCM, BEM)

        def solarcalcs(self):
            return self._r

    def _urbflux(UCM, UBL, BEM, forc, geoParam, simTime, RSM):
        return UCM, UBL, BEM

    def _psy(*a):
        return 0., 0., 0., 0., 0., 0.

    def _noop(*a, **k):
        return None

    def _toy(BEM, T_ubl, forc, parameter):
        s = model.UCM.canTemp
        v = (s * 31 + int(forc.temp) + 7 * st.month + 3 * st.hourDay + 11 * model.dayType +
             13 * int(forc.deepTemp) + int(st.secDay)) % 1000003
        if raise_mod and v % raise_mod == 0:
            raise Exception('toy fatal error')
        model.UCM.canTemp = v

    err = None
    try:
        forcIP.temp = (list(codes) + saved_temp[len(codes):])[:len(saved_temp)]
        U.SolarCalcs, U.urbflux, U.psychrometrics = _Solar, _urbflux, _psy
        model.UCM.UCModel = _toy
        for o, name in inst[1:]:
            setattr(o, name, _noop)
        model.UCM.canTemp = s0
        model.Tsoil = [[m + 1 for m in range(12)] for _ in range(3)]
        model.nSoil = 3 if nsoil3 else 2
        with contextlib.redirect_stdout(io.StringIO()):
            try:
                model.simulate()
            except IndexError:
                err = 'index'
            except Exception as e:  # noqa
                err = 'fatal' if 'toy fatal' in str(e) else 'timestep' if 'TIMESTEP' in str(e) else type(e).__name__
        recs = [u.canTemp for u in getattr(model, 'UCMData', []) if u is not None]
        mean = None
        if not nsoil3:
            mean = int(sum(forcIP.temp) / float(len(forcIP.temp)))
    finally:
        forcIP.temp = saved_temp
        for k, v in saved_mod.items():
            setattr(U, k, v)
        for o, name in inst:
            try:
                delattr(o, name)
            except AttributeError:
                pass
        model.Tsoil, model.nSoil = saved
    return recs, err, mean


# ----------------------------------------------------------------------------- composition A (Morph)
def toy_psy(T, w, P):
    """Stub of `psychrometrics(canTemp, canHum, pres)` for the morph toy: the relative humidity and the dew
    point that `simulate` stores in UCM.canRHum / UCM.Tdp when a record is taken are exactly representable
    functions of the toy canyon temperature (a multiple of 1/8 K) and the integer pressure of the row."""
    k = int(T * 8)
    rh = ((k * 37 + int(P)) % 1001) / 8.0
    tdp = T / 4.0 - 60.0 - (int(P) % 7) / 16.0
    return 0., 0., rh, 0., tdp, 0.


def toy_morph_simulate(model, s0, raise_mod, nsoil3=True):
    """The REAL `model.simulate()` with the toy physics of lean/UwgVerif/Drv/Morph.lean.

    Unlike `toy_run` nothing of the rural data is replaced: the toy step folds what the loop copied into
    `forc` from the rural file (dry bulb, relative humidity, pressure, infrared, direct, diffuse, wind
    direction, wind = max(wind, windMin)), the clock view and the deep temperature into an integer code kept in
    `UCM.toyState`; the canyon temperature is 250 + (code % 1024)/8 K (so `canTemp - 273.15` is exact in
    doubles); `UCM.canRHum` and `UCM.Tdp` are set by `simulate` itself through the stubbed `psychrometrics`;
    `WeatherData[n]` is the loop's own `copy(forc)`, so `WeatherData[n].wind` is kept as the real one.
    The ground-temperature table is replaced by Tsoil[i][m] = m + 1 (deep temperature = month).
    Returns None or the error class ('sim-index', 'sim-fatal', 'timestep', or the exception name)."""
    import uwg.uwg as U
    st = model.simTime
    saved_mod = {k: getattr(U, k) for k in ('SolarCalcs', 'urbflux', 'psychrometrics')}
    saved = (model.Tsoil, model.nSoil)
    inst = [(model.UCM, 'UCModel'), (model.UBL, 'ublmodel'), (model.rural, 'SurfFlux'), (model.RSM, 'vdm')]

    class _Solar(object):
        def __init__(self, UCM, BEM, simTime, RSM, forc, geoParam, rural):
            self._r = (rural, UCM, BEM)

        def solarcalcs(self):
            return self._r

    def _urbflux(UCM, UBL, BEM, forc, geoParam, simTime, RSM):
        return UCM, UBL, BEM

    def _noop(*a, **k):
        return None

    def _toy(BEM, T_ubl, forc, parameter):
        s = model.UCM.toyState
        v = (s * 31 + int(round(forc.temp * 100)) + 3 * int(forc.rHum) + 5 * int(forc.pres) +
             7 * int(forc.infra) + 11 * int(forc.dir) + 13 * int(forc.dif) + 17 * int(forc.uDir) +
             19 * int(round(forc.wind * 100)) + 23 * st.month + 29 * st.hourDay + 37 * model.dayType +
             41 * int(round(forc.deepTemp * 100)) + int(st.secDay)) % 1000003
        if raise_mod and v % raise_mod == 0:
            raise Exception('toy fatal error')
        model.UCM.toyState = v
        model.UCM.canTemp = 250.0 + (v % 1024) / 8.0

    err = None
    try:
        U.SolarCalcs, U.urbflux, U.psychrometrics = _Solar, _urbflux, toy_psy
        model.UCM.UCModel = _toy
        for o, name in inst[1:]:
            setattr(o, name, _noop)
        model.UCM.toyState = (s0 + int(round(model.forcIP.temp[0] * 100))) % 1000003
        model.Tsoil = [[m + 1 for m in range(12)] for _ in range(3)]
        model.nSoil = 3 if nsoil3 else 2
        with contextlib.redirect_stdout(io.StringIO()):
            try:
                model.simulate()
            except IndexError:
                err = 'sim-index'
            except Exception as e:  # noqa
                err = 'sim-fatal' if 'toy fatal' in str(e) else 'timestep' if 'TIMESTEP' in str(e) else type(e).__name__
    finally:
        for k, v in saved_mod.items():
            setattr(U, k, v)
        for o, name in inst:
            try:
                delattr(o, name)
            except AttributeError:
                pass
        model.Tsoil, model.nSoil = saved
    return err
