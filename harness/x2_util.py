"""Seventh-round families (sub-agent X2) for C06, C07, C10 and C14.

What the seventh-round seeds showed that no tie explored:

* COMMENT TEXT that holds characters the csv layer gives a meaning to. Every rewrite so far moved / added / indented
  comments made of plain words. A double quote is special to the csv module only at the START of a cell; whether a cell
  "starts" before or after its leading blanks is an option of the reader. Family `quote_comment_members`: inch marks and
  ditto signs after blanks, quotes in the middle / at the end of a cell, closed and doubled quotes, a lone quote in the
  trailing comment cell of a parameter row, commas in comments (C06).
* the value ZERO on the dictionary route. Optional / defaulted keys are easily tested by truthiness, for which 0 and 0.0
  read like "absent". Family `zero_leaves`: every numeric leaf of a BEMDef / SchDef dictionary set to 0 and 0.0
  (C06: from_dict -> to_dict is the identity on every accepted dictionary; C14: the capacities in force are the ones typed,
  a cold step delivers no more than them).
* UNKNOWN type names that are PARTS of realisable names. The unknown names generated so far (skyscraper, largeofice, x,
  customz) share no text with a realisable key. Family `derived_names`: prefixes, suffixes, infixes and concatenations of
  the types of the realisable rows of the same stock (C07).
* the refusals of the schedule constructor, CELL BY CELL: one bad cell of each kind at the first / a middle / the last
  position of each week, plus wrong row counts and row lengths. Family `bad_cell_members` (C10).
* OPTION STRINGS with blanks around them / in another letter case, through constructor, setter and dictionary. Family
  `OPTION_TEXTS` (C14).
"""
import copy
import os

import core
import uwgutil as U


# ================================================================================================ C06: quotes in comments
def quote_comment_members(lines, rng, quick):
    """(label, lines) - rewrites of the shipped parameter file that change COMMENT TEXT only (full-line comments and the
    trailing comment cell of parameter rows); no member starts a cell with a double quote directly after the comma or
    at the start of a line (there the csv layer's own quoting applies - outside the clause)."""
    iscom = [l.lstrip(' ').startswith('#') for l in lines]
    # parameter rows with a trailing comment cell:  key,value,   # text
    trail = [i for i, l in enumerate(lines) if not iscom[i] and '#' in l and l.count(',') >= 2 and
             l.split(',')[0].strip() and l.split(',')[0].strip()[0].isalpha()]
    coms = [i for i, c in enumerate(iscom) if c and i > 0]
    ms = []

    def trailing(label, text, count):
        pick = set(rng.sample(trail, min(count, len(trail))))
        new = []
        for i, l in enumerate(lines):
            if i in pick:
                head = l[:l.index('#')]
                new.append(head + text)
            else:
                new.append(l)
        ms.append((label, new))

    def added(label, texts, every):
        new = []
        for i, l in enumerate(lines):
            new.append(l)
            if iscom[i] and i % every == 1:
                new.append(texts[(i // every) % len(texts)])
        ms.append((label, new))

    def appended(label, text, count):
        pick = set(rng.sample(coms, min(count, len(coms))))
        ms.append((label, [l + text if i in pick else l for i, l in enumerate(lines)]))

    # an unclosed quote that begins a cell AFTER blanks (inch mark, ditto sign)
    trailing('the trailing comment cell of three parameter rows replaced by a ditto sign after blanks:  " (as above)',
             '" (as above)', 3)
    trailing('the trailing comment cell of one parameter row is a lone double quote after blanks', '"', 1)
    added('added comment lines whose second cell begins, after a blank, with an inch mark:  # units, " = inch',
          ['# units, " = inch', '# pipe sizes: 1/2, " (inch) throughout', '#  ,  "'], 7)
    appended('three comment lines get a second cell that begins with a blank and an unclosed quote', ', " = ditto', 3)
    # quotes in the middle / at the end of a cell; closed and doubled quotes; commas
    if not quick or rng.random() < 0.5:
        appended('three comment lines get quotes in the middle and at the end of their cells', ' 12" pipe, 14", 3\'6"', 3)
    else:
        trailing('trailing comment cells with a quote in the middle and at the end:  # 12" slab (0.3 m), 4"',
                 '# 12" slab (0.3 m), 4"', 3)
    added('added comment lines with closed quoted cells, doubled quotes and commas',
          ['# see, "the manual", p. 3', '# say ""hello"", twice, "" and again', '# a, b, c, "d, e", f', '# "quoted" word first'], 9)
    if not quick:
        trailing('every trailing comment cell ends with a lone quote', '# in 1/100"', len(trail))
        appended('every comment line gets a cell with blanks and an unclosed quote', ',   "', len(coms))
    return ms


def quoted_comments(chk, u, canon_model):
    """C06: rewrites that touch comment text only are read to the same parameters as the shipped file."""
    rng, quick, work = chk.rng, chk.tier == 'quick', chk.work()
    src = U.rp(U.PARAM_SGP)
    with open(src, newline='', encoding='utf-8', errors='replace') as f:
        lines = f.read().replace('\r\n', '\n').split('\n')
    with core.quiet():
        base = canon_model(u.UWG.from_param_file(src, epw_path=U.rp(U.EPW_SGP)))
    n = bad = 0
    br = {}
    for k, (label, new) in enumerate(quote_comment_members(lines, rng, quick)):
        n += 1
        eol = '\r\n' if k % 3 == 2 else '\n'
        pth = os.path.join(work, 'x2c%d.uwg' % n)
        with open(pth, 'w', newline='', encoding='utf-8') as f:
            f.write(eol.join(new))
        import difflib
        changed = [l[1:] for l in difflib.unified_diff(lines, new, lineterm='', n=0) if l.startswith('+') and not l.startswith('+++')]
        case = {'rewrite of': 'resources/initialize_singapore.uwg', 'comment text': label, 'line ends': repr(eol),
                'first changed lines': changed[:3], 'changed lines': len(changed),
                'parameter names and values': 'unchanged'}
        msg = None
        try:
            with core.quiet():
                m = u.UWG.from_param_file(pth, epw_path=U.rp(U.EPW_SGP))
            got = canon_model(m)
            if got != base:
                kk = next(x for x in base if got.get(x) != base[x])
                msg = 'parameter %s is read as %r, the shipped file gives %r' % (kk, got.get(kk), base[kk])
            br['read'] = br.get('read', 0) + 1
        except Exception as e:  # noqa: BLE001
            msg = 'the file is refused: %s: %s' % (type(e).__name__, str(e).split('\n')[0][:220])
            br['refused'] = br.get('refused', 0) + 1
        if msg:
            bad += 1
            if bad <= 3:
                chk.violation('impl-violation', 'parameter file read independently of the TEXT of its comments', case=case,
                              observed=msg, expected='the same parameters as resources/initialize_singapore.uwg (only comment text differs)')
    return n, bad, br


QUOTE_RULE = ('rewrites of resources/initialize_singapore.uwg that change COMMENT TEXT only - full-line comments and the trailing '
              'comment cell of parameter rows - to text holding characters the csv layer gives a meaning to: a cell that begins, '
              'AFTER blanks, with an unclosed double quote (ditto sign / inch mark; a lone quote as the trailing cell of a parameter '
              'row), quotes in the middle and at the end of a cell, closed quoted cells, doubled quotes, commas inside comments; LF '
              'and CRLF line ends. Read by the real from_param_file: all parameters (PARAMETER_LIST) must equal those of the shipped '
              'file. Not explored: a cell that begins with a quote DIRECTLY after the comma / at the start of the line (there the csv '
              "layer's own quoting applies to the unchanged reader as well)")


# ================================================================================================ zero on the dictionary route
def numeric_leaves(d, path=()):
    """paths of the numeric leaves of a plain dictionary (lists of numbers: first and last position only)"""
    out = []
    if isinstance(d, dict):
        for k, v in d.items():
            out += numeric_leaves(v, path + (k,))
    elif isinstance(d, list):
        idx = sorted(set([0, len(d) - 1])) if d else []
        for i in idx:
            out += numeric_leaves(d[i], path + (i,))
    elif isinstance(d, (int, float)) and not isinstance(d, bool):
        out.append(path)
    return out


def get_path(d, path):
    for p in path:
        d = d[p]
    return d


def with_leaf(d, path, value):
    new = copy.deepcopy(d)
    x = new
    for p in path[:-1]:
        x = x[p]
    x[path[-1]] = value
    return new


def path_text(path):
    return ''.join('[%r]' % p for p in path)


# ================================================================================================ C07: parts of realisable names
def derived_names(types, taken, rng, count):
    """unknown type names made from the realisable type names `types`: suffixes, prefixes, infixes, concatenations.
    `taken`: names that ARE available (never returned). -> [(name, how)]"""
    out = []
    types = list(types)
    for t in types:
        n = len(t)
        cand = []
        for k in sorted(set([1, n // 2, n - 1, max(1, n - 5), max(1, n - 6)])):
            if 0 < k < n:
                cand.append((t[n - k:], 'suffix of %s' % t))
                cand.append((t[:k], 'prefix of %s' % t))
        if n >= 3:
            a = rng.randrange(1, n - 1)
            b = rng.randrange(a + 1, n)
            cand.append((t[a:b], 'infix of %s' % t))
        for t2 in types:
            cand.append((t + t2, 'concatenation %s + %s' % (t, t2)))
        cand.append((t + t[-1], '%s with its last letter doubled' % t))
        out += cand
    seen, res = set(), []
    rng.shuffle(out)
    # (suffixes first: they stay parts of the key text type+era)
    out.sort(key=lambda c: 0 if c[1].startswith('suffix') else 1)
    for name, how in out:
        if name and name not in taken and name not in seen:
            seen.add(name)
            res.append((name, how))
    sfx = [r for r in res if r[1].startswith('suffix')]
    rest = [r for r in res if not r[1].startswith('suffix')]
    k = max(1, count // 2)
    return sfx[:k] + rest[:max(0, count - len(sfx[:k]))]


# ================================================================================================ C10: refusals cell by cell
NONNEG_WEEKS = ('elec', 'gas', 'light', 'occ', 'swh')
ALL_WEEKS = ('elec', 'gas', 'light', 'occ', 'cool', 'heat', 'swh')
POSITIONS = [('first cell', 0, 0), ('a middle cell', 1, 13), ('the last cell', 2, 23)]
DAYTYPE_START = {0: (1, 2), 1: (1, 7), 2: (1, 1)}          # week row -> (month, day) of a day of that type (1 Jan = Sunday)


def bad_cell_members(rng, quick):
    """(label, week name, override builder(week) -> new week, (row, hour) of the bad cell or None, kind)"""
    ms = []

    def cell(kind, value):
        def f(week, r, h):
            new = [list(day) for day in week]
            new[r][h] = value
            return new
        return f
    kinds = [('negative', -60.0), ('slightly negative', -0.01), ('negative integer', -1), ('text', '0.5'), ('None', None),
             ('nan', float('nan')), ('a list', [0.5])]
    for w in ALL_WEEKS:
        for pname, r, h in POSITIONS:
            for kname, v in kinds:
                if kname.startswith(('negative', 'slightly')) and w in ('cool', 'heat'):
                    continue                                        # set points below zero are legal (Celsius)
                ms.append(('%s in %s of the %s week (day type %d, hour %d)' % (kname, pname, w, r, h), w,
                           (lambda week, f=cell(kname, v), r=r, h=h: f(week, r, h)), (r, h), kname))
        ms.append(('%s week with two day types' % w, w, lambda week: [list(d) for d in week[:2]], None, 'two rows'))
        ms.append(('%s week with four day types' % w, w, lambda week: [list(d) for d in week] + [list(week[0])], None, 'four rows'))
        for r in (0, 2):
            ms.append(('%s week, day type %d with 23 hours' % (w, r), w,
                       (lambda week, r=r: [list(d)[:23] if i == r else list(d) for i, d in enumerate(week)]), None, '23 hours'))
            ms.append(('%s week, day type %d with 25 hours' % (w, r), w,
                       (lambda week, r=r: [list(d) + [d[-1]] if i == r else list(d) for i, d in enumerate(week)]), None, '25 hours'))
    if quick:
        # every week x every kind stays; positions are thinned: each (week, kind) keeps one position, rotating
        keep, seen = [], {}
        off = rng.randrange(3)
        for m in ms:
            if m[3] is None:
                key = (m[1], m[4])
                if key in seen:
                    continue
                seen[key] = 1
                keep.append(m)
                continue
            key = (m[1], m[4])
            seen[key] = seen.get(key, -1) + 1
            want = (off + ALL_WEEKS.index(m[1]) + [k[0] for k in kinds].index(m[4])) % 3
            if seen[key] == want:
                keep.append(m)
        ms = keep
    return ms


# ================================================================================================ C14: option strings
OPTION_TEXTS = ['AIR', 'air', 'Water', 'wAtEr', 'AIR ', ' air', ' Air ', 'AIR\t', '\tWATER', 'water\n', 'WATER\r\n', '  water  ',
                u'AIR ', 'AI R', 'AIRWATER', '']
