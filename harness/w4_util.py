"""Shared helpers of the sixth-round strengthening of C15 / C16 (sub-agent W4).

C15: the `forc` argument of the node updates.  The stand-ins the ties used carried only the attributes the routine
reads today (`pres`, `waterTemp` for BEMCalc; `pres`, `hum` for UCModel; `wind`, `dir`, `dif` for ublmodel); a real
`uwg.forcing.Forcing` carries twelve.  `gen_forcing` draws all of them for one time step (legal values), steering the
rural dry bulb `temp` relative to the canyon temperature and to the 288 K switch of the plant: on the other side of
288 K than the canyon, on the same side, exactly 288 K, a heat island of a fraction of a kelvin.  Nothing but the
attributes a routine documents as its inputs may change its result.

C16: tall columns for `RSMDef.diffusion_equation` (3 .. 1000 levels, both sides of 256 / 257 / 258: sizes at which a
container of ints, a byte or CPython's shared small integers end) and a finer mesoscale height file for the public
`z_meso_path` argument of `RSMDef` / `UWG.Z_MESO_PATH`.
"""
import contextlib
import os
import types
from fractions import Fraction as F

NS = types.SimpleNamespace

# every attribute uwg.forcing.Forcing sets (scalars of one time step, as uwg.simulate hands them to the kernels)
FORCING_ATTRS = ('deepTemp', 'waterTemp', 'infra', 'uDir', 'hum', 'pres', 'temp', 'rHum', 'dir', 'dif', 'prec',
                 'wind')
RURAL_SIDES = ('across', 'across', 'across', 'same', 'same', 'at288', 'island')


def _rq(rng, lo, hi, den):
    return F(rng.randint(int(round(lo * den)), int(round(hi * den))), den)


def gen_forcing(rng, can_temp, side=None):
    """{'forc_<attr>': value} for all FORCING_ATTRS + 'ruralSide'.  `can_temp` = canyon temperature of the case."""
    side = side or rng.choice(RURAL_SIDES)
    T288 = F(288)
    if side == 'across':
        d = rng.choice([F(1, 100), F(1, 4), _rq(rng, 0.05, 6, 20), _rq(rng, 0.05, 2, 20)])
        if can_temp > T288 or (can_temp == T288 and rng.random() < 0.5):
            t = T288 - d
        else:
            t = T288 + d
    elif side == 'same':
        d = _rq(rng, 0.05, 8, 20)
        t = T288 + d if can_temp > T288 else (T288 - d if can_temp < T288 else T288)
    elif side == 'at288':
        t = T288
    else:                      # a heat island of a fraction of a kelvin, whichever side of 288 K that lands on
        t = can_temp - _rq(rng, 0.1, 2, 20)
    out = {'ruralSide': side,
           'forc_temp': t,
           'forc_deepTemp': _rq(rng, 275, 300, 4),
           'forc_waterTemp': _rq(rng, 274, 305, 2),
           'forc_infra': _rq(rng, 200, 450, 1),
           'forc_uDir': F(rng.choice([0, 90, 180, 270, rng.randint(0, 360)])),
           'forc_hum': _rq(rng, 0.001, 0.02, 2000),
           'forc_pres': _rq(rng, 90000, 104000, 1),
           'forc_rHum': F(rng.choice([0, 100, rng.randint(1, 99), rng.randint(1, 99)])),
           'forc_dir': rng.choice([F(0), _rq(rng, 0, 900, 1)]),
           'forc_dif': rng.choice([F(0), _rq(rng, 0, 400, 1)]),
           'forc_prec': rng.choice([F(0), F(0), _rq(rng, 0, 10, 10) / 3600000]),
           'forc_wind': _rq(rng, 0, 15, 4)}
    return out


def rural_side(c):
    """where the rural dry bulb of a case lies relative to the canyon and 288 K (for branch counts / messages)"""
    if 'forc_temp' not in c:
        return 'no-forcing'
    t, can = c['forc_temp'], c['canTemp']
    if (t < 288 <= can) or (can < 288 <= t and t != 288) or (can <= 288 < t):
        return 'rural-across-288'
    if t == 288:
        return 'rural-at-288'
    return 'rural-same-side'


def full_forc(c, **own):
    """A stand-in with EVERY attribute of Forcing: the drawn values of the case, overridden by the ones that ARE inputs
    of the routine under test (those the tie's line carries)."""
    d = {a: c['forc_' + a] for a in FORCING_ATTRS if ('forc_' + a) in c}
    d.update(own)
    return NS(**d)


@contextlib.contextmanager
def bem_forcing(pkg, c):
    """While active, every Building.BEMCalc call of the fractionised package `pkg` receives the full forcing of case
    `c` (the `pres` / `waterTemp` its caller supplies stay as they are).  Lets the adapter of C14 (props/c14.impl_bem,
    not ours to edit) run with a complete Forcing stand-in."""
    cls = pkg.building.Building
    orig = cls.BEMCalc
    if not any(('forc_' + a) in c for a in FORCING_ATTRS):
        yield
        return

    def BEMCalc(self, UCM, BEM, forc, parameter, simTime):
        return orig(self, UCM, BEM, full_forc(c, **vars(forc)), parameter, simTime)
    cls.BEMCalc = BEMCalc
    try:
        yield
    finally:
        cls.BEMCalc = orig


# =============================================================================== C16: tall columns
# numbers of levels: the minimum, the shipped 18 (nzref 17 + 1), a byte / CPython's shared small ints / a power of two
# from both sides, and a few larger ones
TALL_NZ_QUICK = (3, 4, 18, 55, 127, 128, 129, 255, 256, 257, 258, 259, 260, 300, 513, 1000)
TALL_NZ_THOROUGH = TALL_NZ_QUICK + (5, 64, 65, 200, 254, 261, 272, 400, 511, 512, 640, 777, 999)


def write_z_meso(path, step, fine_top, top=1500.0):
    """A mesoscale height file in the format of uwg/refdata/z_meso.txt (one interface height per line, from 0): levels
    of `step` m up to `fine_top` m, then stretched by 1.25 per level until `top` m (above the day-time boundary layer,
    as the shipped file).  Handed to the model through the public `z_meso_path` argument of RSMDef / `UWG.Z_MESO_PATH`.
    Returns the number of heights written."""
    hs = [step * i for i in range(int(round(fine_top / step)) + 1)]
    while hs[-1] < top:
        hs.append(hs[-1] + 1.25 * (hs[-1] - hs[-2]))
    with open(path, 'w') as f:
        f.write('\n'.join('%.6f' % h for h in hs) + '\n')
    return len(hs)


# fine height files: (label, spacing, fine up to, refHeight -> number of levels of the rural column)
FINE_MESO = [('1 m levels, refHeight 256.5 m', 1.0, 320.0, 256.5, 257),
             ('1 m levels, refHeight 257.5 m', 1.0, 320.0, 257.5, 258),
             ('0.5 m levels, refHeight 150 m', 0.5, 320.0, 150.0, 301),
             ('1 m levels, refHeight 255.5 m', 1.0, 320.0, 255.5, 256),
             ('2 m levels, refHeight 150 m', 2.0, 320.0, 150.0, 76),
             ('0.25 m levels, refHeight 150 m', 0.25, 160.0, 150.0, 601)]


def gen_tall_exact(rng, nz):
    """An admissible diffusion call on a column of `nz` levels in small numbers (so that the exact elimination over
    rationals stays cheap): spacings 1..10 m, densities around 1, coefficients 0..30 with zeros, integer kelvins."""
    dz = [F(rng.choice([1, 2, 2, 5, 10])) for _ in range(nz + 1)]
    da = [rng.choice([F(1), F(9, 10), F(11, 10), F(6, 5)]) for _ in range(nz)]
    daz = [rng.choice([F(1), F(9, 10), F(11, 10), F(6, 5)]) for _ in range(nz + 1)]
    cdk = rng.choice(['random', 'zeros', 'zero-top'])
    cd = [F(rng.choice([1, 2, 5, 10, 30])) for _ in range(nz + 1)]
    if cdk == 'zeros':
        cd = [F(0) if rng.random() < 0.3 else v for v in cd]
    elif cdk == 'zero-top':
        cd[nz - 1] = cd[nz] = F(0)
    cok = rng.choice(['random', 'step', 'ramp'])
    T = F(rng.randint(270, 300))
    if cok == 'step':
        k = rng.randint(1, nz - 1)
        co = [T] * k + [T + rng.choice([-7, 9])] * (nz - k)
    elif cok == 'ramp':
        co = [T + F(i, 8) for i in range(nz)]
    else:
        co = [F(rng.randint(270, 310)) for _ in range(nz)]
    return dict(nz=nz, dt=F(rng.choice([60, 300, 3600])), co=co, da=da, daz=daz, cd=cd, dz=dz, kind='valid',
                cdk=cdk, cok=cok, tall=tall_tag(nz))


def tall_tag(nz):
    return 'tall/nz<=256' if nz <= 256 else ('tall/nz=257' if nz == 257 else 'tall/nz>=258')


def gen_tall_float(rng, nz):
    """An admissible diffusion call on `nz` levels in doubles (random spacings 0.5..40 m, densities 0.6..1.3,
    coefficients 0..30 with zeros, 270..310 K)."""
    return dict(nz=nz, dt=rng.choice((60., 300., 3600.)),
                dz=[rng.uniform(0.5, 40.) for _ in range(nz + 1)],
                da=[rng.uniform(0.6, 1.3) for _ in range(nz)],
                daz=[rng.uniform(0.6, 1.3) for _ in range(nz + 1)],
                cd=[rng.choice((0., rng.uniform(0., 30.), rng.uniform(0., 30.))) for _ in range(nz + 1)],
                co=[rng.uniform(270., 310.) for _ in range(nz)], kind='valid', tall=tall_tag(nz))
