"""Fifth round (sub-agent V2): input families for C06, C07, C08, C10 and C17 that the earlier rounds never explored.

* C10  `float_step_*`: the REAL float step loop of `simulate()` (physics stubbed, clock object built by the real
       `SimParam` constructor) for all 45 divisors of 3600 x window lengths 1 .. 366 days; the loop bound is surveyed for
       every (dt, days) first, so that the stepping budget goes to suspicious pairs; verdict = the property's own
       statement (a normal return holds all 24*days records).
* C17  `interrupt_*`: a BaseException (KeyboardInterrupt / SystemExit / GeneratorExit - not an Exception) raised at a
       chosen point INSIDE generate(), simulate() or write_epw() (k-th function call of the package or k-th statement
       of the call itself, via sys.settrace), caught by the caller; then the normal sequence. Must equal a fresh object.
* C07  `pairing_*`: custom lists whose ORDER carries meaning (ref_bem_vector / ref_sch_vector permuted against each
       other, unequal, duplicated), through every hand-over route: refused, or realised with every archetype driven
       by the schedule set that carries its own identifiers.
* C08 / C07  `attribute_*`: custom archetypes with every documented Element / BEMDef attribute at a legal value that no
       shipped archetype has (pitched roof `horizontal=False`, green facade `wall.vegcoverage > 0`, vegetated mass,
       water film, a BEMDef that already carries `frac`), object route and dictionary route, under override subsets.
* C06  `IDENTIFIER_TEXTS`, `identifier_customs`: identifier texts of custom archetypes (capitals, blanks, digits,
       DOE names in another letter case, non-ASCII) built with the real constructors (keyword route).

No `assert` statement is used: parts of this module may run under `python -O`."""
import copy
import os
import sys

import core
import uwgutil as U

ERAS = ('pre80', 'pst80', 'new')
OV = ('glzr', 'shgc', 'albwall', 'albroof', 'vegroof', 'flr_h')
DOE_TYPES = ('fullservicerestaurant', 'hospital', 'largehotel', 'largeoffice', 'medoffice', 'midriseapartment',
             'outpatient', 'primaryschool', 'quickservicerestaurant', 'secondaryschool', 'smallhotel', 'smalloffice',
             'standaloneretail', 'stripmall', 'supermarket', 'warehouse')
REFZ = ('1A', '2A', '2B', '3A', '3B-CA', '3B', '3C', '4A', '4B', '4C', '5A', '5B', '6A', '6B', '7', '8')


def proxy(zone):
    return {'1B': '1A', '5C': '5B'}.get(zone, zone)


# =================================================================================================== C10
DIVISORS = [d for d in range(1, 3601) if 3600 % d == 0]
# window lengths: the strata in which a quotient computed in doubles lands one ulp below an integer
LENGTHS = ([1, 2, 3, 4, 5, 7, 8, 9, 10] + list(range(16, 22)) + list(range(32, 43)) + list(range(63, 86)) +
           list(range(148, 171)) + list(range(296, 342)) + [365])


class StubbedLoop(object):
    """The step loop of the REAL `simulate()` with the physics replaced by no-ops (module names SolarCalcs, urbflux,
    psychrometrics; instance methods UCModel, ublmodel, SurfFlux, vdm) and an empty building list; everything is
    restored on exit. The model is generated ONCE for the longest window; per member the clock object is rebuilt by the
    real `SimParam` constructor with the arguments `_compute_input` passes."""

    def __init__(self, model):
        self.m = model

    def __enter__(self):
        import uwg.uwg as UM
        m = self.m
        self.UM = UM
        self.saved_mod = {k: getattr(UM, k) for k in ('SolarCalcs', 'urbflux', 'psychrometrics')}
        self.saved_obj = (m.BEM, m.Sch, m.simTime, m.nday, m.dtsim)

        class _Solar(object):
            __slots__ = ('_r',)

            def __init__(self, UCM, BEM, simTime, RSM, forc, geoParam, rural):
                self._r = (rural, UCM, BEM)

            def solarcalcs(self):
                return self._r

        def _urbflux(UCM, UBL, BEM, forc, geoParam, simTime, RSM):
            return UCM, UBL, BEM

        def _psy(*a):
            return 0., 0., 0., 0., 0., 0.

        def _noop(*a, **k):
            return None
        UM.SolarCalcs, UM.urbflux, UM.psychrometrics = _Solar, _urbflux, _psy
        self.inst = [(m.UCM, 'UCModel'), (m.UBL, 'ublmodel'), (m.rural, 'SurfFlux'), (m.RSM, 'vdm')]
        for o, name in self.inst:
            setattr(o, name, _noop)
        m.BEM, m.Sch = [], []
        return self

    def __exit__(self, *a):
        m = self.m
        for k, v in self.saved_mod.items():
            setattr(self.UM, k, v)
        for o, name in self.inst:
            try:
                delattr(o, name)
            except AttributeError:
                pass
        m.BEM, m.Sch, m.simTime = self.saved_obj[:3]
        m.nday, m.dtsim = self.saved_obj[3:]
        return False

    def window(self, dt, days):
        """one member: real SimParam(dt, dtweather, month, day, days), real simulate(); returns
        (outcome, message): outcome 'returned' | 'raised <Class>', message = None or what is missing on return"""
        import uwg
        m = self.m
        m.nday, m.dtsim = days, dt
        m.simTime = uwg.SimParam(dt, m.dtweather, m.month, m.day, days)
        try:
            with core.quiet():
                m.simulate()
        except Exception as e:  # noqa: BLE001 - fail-stop outcome
            return 'raised ' + type(e).__name__, None
        return 'returned', records_missing(m, 24 * days)


def records_missing(m, n):
    """C10 on a normal return: every one of the N = 24*days hourly records exists in all four record lists"""
    if getattr(m, 'N', None) != n:
        return 'model.N = %r for a window of %d hours' % (getattr(m, 'N', None), n)
    for name in ('WeatherData', 'UCMData', 'UBLData', 'RSMData'):
        lst = getattr(m, name)
        miss = [i for i, x in enumerate(lst) if x is None]
        if miss or len(lst) != n:
            return ('simulate() returned normally, but %s holds %d of %d hourly records (%d slots; missing hour(s) %s%s) - '
                    'the clock stands at %s s of day %s' % (name, len(lst) - len(miss), n, len(lst), miss[:3],
                                                            ' ...' if len(miss) > 3 else '', m.simTime.secDay,
                                                            m.simTime.julian))
    return None


def float_step_survey(uwg):
    """the loop bound the real SimParam constructor computes, for ALL 45 divisors x lengths 1..366 (no stepping):
    pairs whose `nt` is not 86400*days/dt + 1 are returned as suspects (steering only - the verdict comes from
    running the loop)"""
    suspects, n = [], 0
    for dt in DIVISORS:
        for days in range(1, 367):
            n += 1
            try:
                nt = uwg.SimParam(dt, 3600, 1, 1, days).nt
            except Exception:  # noqa: BLE001
                suspects.append((dt, days, 'constructor raised'))
                continue
            if nt != 86400 * days // dt + 1:
                suspects.append((dt, days, 'nt = %r, %d steps are needed' % (nt, 86400 * days // dt)))
    return suspects, n


def float_step_plan(rng, quick, suspects):
    """[(dt, days, why)]: (A) every divisor x 1 day; (B) every divisor with the longest length of the strata it can
    afford (12 000 steps; thorough 400 000) and random further (dt, length) pairs of the strata under a step budget;
    (C) the cheapest suspects of the survey, spread over the time steps"""
    cap, budget = (12000, 320000) if quick else (400000, 40000000)
    plan, seen = [], set()

    def add(dt, days, why):
        if (dt, days) not in seen:
            seen.add((dt, days))
            plan.append((dt, days, why))
    for dt in DIVISORS:
        add(dt, 1, 'every divisor, one day')
    spent = 0
    for dt in DIVISORS:
        fit = [L for L in LENGTHS if L > 1 and 86400 * L // dt <= cap]
        if fit:
            add(dt, fit[-1], 'longest affordable length of the strata')
            spent += 86400 * fit[-1] // dt
    pool = [(dt, L) for dt in DIVISORS for L in LENGTHS + [366] if L > 1 and 86400 * L // dt <= cap and (dt, L) not in seen]
    rng.shuffle(pool)
    for dt, L in pool:
        if spent + 86400 * L // dt > budget:
            continue
        spent += 86400 * L // dt
        add(dt, L, 'random member of the strata')
    per_dt, extra = {}, 0
    for dt, days, why in sorted(suspects, key=lambda s: 86400 * s[1] // s[0]):
        if (dt, days) in seen or per_dt.get(dt, 0) >= (2 if quick else 8) or extra >= (6 if quick else 120):
            continue
        if 86400 * days // dt <= (40000 if quick else 3000000):
            per_dt[dt] = per_dt.get(dt, 0) + 1
            extra += 1
            add(dt, days, 'suspect of the loop-bound survey (%s)' % why)
    return plan


def float_step_job(args):
    """Worker: one generated model (1 January, 365 days, shipped Singapore parameters), many windows. With `regen` every
    window gets its own really generated model instead (slow path, used when the clock shortcut does not hold)."""
    repo, plan, regen = args
    os.environ['UWG_REPO'] = repo
    core.REPO = repo
    U.uwg_mod()
    out = []
    if regen:
        for dt, days, why in plan:
            try:
                m = U.new_model(month=1, day=1, nday=days, dtsim=dt)
                with core.quiet():
                    m.generate()
            except Exception as e:  # noqa: BLE001
                out.append((dt, days, why, 'generate() raised ' + type(e).__name__, None))
                continue
            with StubbedLoop(m):
                try:
                    with core.quiet():
                        m.simulate()
                    out.append((dt, days, why, 'returned', records_missing(m, 24 * days)))
                except Exception as e:  # noqa: BLE001
                    out.append((dt, days, why, 'raised ' + type(e).__name__, None))
        return out
    m = U.new_model(month=1, day=1, nday=365, dtsim=300)
    with core.quiet():
        m.generate()
    with StubbedLoop(m) as loop:
        for dt, days, why in plan:
            outcome, msg = loop.window(dt, days)
            out.append((dt, days, why, outcome, msg))
    return out


def float_step_shortcut_ok(uwg, members):
    """the shortcut of StubbedLoop.window (clock rebuilt, model not re-generated) is what generate() does: the clock
    object of a really generated model has the same attributes, and simulate() reads the window from it"""
    for dt, days in members:
        m = U.new_model(month=1, day=1, nday=days, dtsim=dt)
        with core.quiet():
            m.generate()
        a = vars(m.simTime)
        b = vars(uwg.SimParam(dt, m.dtweather, m.month, m.day, days))
        if a != b:
            return 'dtsim %r, nday %r: generate() builds a clock with %r, SimParam(dtsim, dtweather, month, day, nday) gives %r' % (
                dt, days, sorted(a.items()), sorted(b.items()))
    return None


# =================================================================================================== C17
BASE_EXC = {'KeyboardInterrupt': KeyboardInterrupt, 'SystemExit': SystemExit, 'GeneratorExit': GeneratorExit}


class CallTrace(object):
    """sys.settrace hook: counts the points at which a call can be interrupted - every function call of the package
    ('call' events of frames whose code lives in the package directory) and every statement of the interrupted call's
    own frame ('line' events of `target_code`) - and raises `exc` at point number `at` (None: count only)."""

    def __init__(self, pkg_dir, target_code, at=None, exc=None):
        self.pkg, self.code, self.at, self.exc = pkg_dir, target_code, at, exc
        self.n = 0
        self.where = None

    def _hit(self, frame):
        self.n += 1
        if self.at is not None and self.n == self.at:
            self.where = '%s, %s(), line %d' % (os.path.basename(frame.f_code.co_filename), frame.f_code.co_name,
                                                frame.f_lineno)
            raise self.exc()

    def local(self, frame, event, arg):
        if event == 'line':
            self._hit(frame)
        return self.local

    def __call__(self, frame, event, arg):
        if event != 'call' or not frame.f_code.co_filename.startswith(self.pkg):
            return None
        self._hit(frame)
        return self.local if frame.f_code is self.code else None


def traced(fn, tr):
    old = sys.gettrace()
    sys.settrace(tr)
    try:
        return fn()
    finally:
        sys.settrace(old)


INTERRUPT_SETUPS = {
    'plain': {},
    'overrides + autosize': {'attrs': [['glzr', 0.35], ['albroof', 0.6], ['autosize', True]]},
    'custom new type': {'customs': [{'type': 'labtower', 'era': 'new', 'src': [3, 2, 0], 'bem': {'building.infil': 0.5},
                                     'sch': {'q_elec': 60.0}}],
                        'attrs': [['bld', [['labtower', 'New', 0.5], ['midriseapartment', 'pst80', 0.5]]]]},
    'custom replacing a DOE archetype': {'customs': [{'type': 'largeoffice', 'era': 'pst80', 'src': [3, 1, 0],
                                                      'bem': {'wall.albedo': 0.35}, 'sch': {'cool': {'const': 18.0}}}]},
}


def interrupt_members(rng, quick):
    """(label, setup, [ (target, exception class name, fraction of the call's interruption points) ... ], between)
    `between`: operations between the caught interrupt(s) and the final generate; simulate; write_epw"""
    def fr(lo, hi):
        return round(rng.uniform(lo, hi), 4)
    mem = [
        ('Ctrl-C early in simulate()', 'plain', [('simulate', 'KeyboardInterrupt', fr(0.01, 0.2))], []),
        ('Ctrl-C in the middle of simulate()', 'plain', [('simulate', 'KeyboardInterrupt', fr(0.35, 0.65))], []),
        ('Ctrl-C late in simulate()', 'overrides + autosize', [('simulate', 'KeyboardInterrupt', fr(0.8, 0.999))], []),
        ('sys.exit() inside simulate() (an observer / signal handler), caught', 'plain', [('simulate', 'SystemExit', fr(0.05, 0.95))], []),
        ('GeneratorExit inside simulate() (the run lives in a generator that is closed)', 'custom new type',
         [('simulate', 'GeneratorExit', fr(0.05, 0.95))], []),
        ('Ctrl-C inside simulate(), custom archetype replacing a DOE one', 'custom replacing a DOE archetype',
         [('simulate', 'KeyboardInterrupt', fr(0.05, 0.95))], []),
        ('Ctrl-C inside generate() after a complete run', 'plain', [('generate', 'KeyboardInterrupt', fr(0.02, 0.98))], []),
        ('sys.exit() inside generate() after a complete run', 'custom new type', [('generate', 'SystemExit', fr(0.02, 0.98))], []),
        ('Ctrl-C inside write_epw()', 'plain', [('write_epw', 'KeyboardInterrupt', fr(0.02, 0.98))], []),
        ('Ctrl-C in simulate(), again Ctrl-C in the re-run, then sys.exit() in generate()', 'plain',
         [('simulate', 'KeyboardInterrupt', fr(0.1, 0.9)), ('simulate', 'KeyboardInterrupt', fr(0.1, 0.9)),
          ('generate', 'SystemExit', fr(0.1, 0.9))], []),
        ('Ctrl-C in simulate(), a parameter changed and changed back', 'plain',
         [('simulate', 'KeyboardInterrupt', fr(0.1, 0.9))], [['set', 'sensanth', 35.0], ['set', 'sensanth', '<initial>']]),
        ('Ctrl-C at the first interruption point of simulate()', 'plain', [('simulate', 'KeyboardInterrupt', 0.0)], []),
        ('Ctrl-C at the last interruption point of simulate()', 'plain', [('simulate', 'KeyboardInterrupt', 1.0)], []),
    ]
    if quick:
        mem = [m_ for k, m_ in enumerate(mem) if k not in (5, 11)]
    if not quick:
        for k in range(24):
            tgt = ('simulate', 'simulate', 'generate', 'write_epw')[k % 4]
            mem.append(('random member %d' % k, rng.choice(sorted(INTERRUPT_SETUPS)),
                        [(tgt, rng.choice(sorted(BASE_EXC)), fr(0.0, 1.0))], []))
    return mem


def _interrupt_model(uwg, setup, outdir, name):
    import u2_util as W
    sp = INTERRUPT_SETUPS[setup]
    base = [['nday', 1], ['dtsim', 300], ['bld', [['largeoffice', 'pst80', 0.4], ['midriseapartment', 'pst80', 0.6]]],
            ['zone', '1A']]
    return W.new_from_spec(uwg, {'out': [outdir, name], 'attrs': base + list(sp.get('attrs', ())), 'customs': sp.get('customs')})


def interrupt_reference(args):
    """Worker: a fresh object of the given setup runs generate; simulate; write_epw under a counting trace: the reference
    results (state digest after generate, hourly records, file hash) AND the number of interruption points of each call."""
    import generic as G
    import t2_util as T
    repo, work, setup, count_write = args
    os.environ['UWG_REPO'] = repo
    core.REPO = repo
    uwg = U.uwg_mod()
    pkg = os.path.dirname(os.path.abspath(uwg.__file__)) + os.sep
    d = os.path.join(work, 'intref_%s' % ''.join(c for c in setup if c.isalnum()))
    os.makedirs(d, exist_ok=True)
    f = _interrupt_model(uwg, setup, d, 'fresh.epw')
    total, ref = {}, {}
    with core.quiet():
        for k in ('generate', 'simulate', 'write_epw'):
            if k == 'write_epw' and not count_write:
                f.write_epw()
                continue
            tr = CallTrace(pkg, getattr(uwg.UWG, k).__code__)
            traced(getattr(f, k), tr)
            total[k] = tr.n
            if k == 'generate':
                ref['digest'] = T.state_parts(f)
    ref['records'] = U.records(f)
    ref['file'] = G.file_hash(f.new_epw_path)
    ref['total'] = total
    return setup, ref


def interrupt_job(args):
    """Worker: the object with the past runs the interrupted call(s), catches the BaseException, and then the normal
    sequence generate; simulate; write_epw, which is compared with the reference of a fresh object (interrupt_reference:
    state digest after generate, hourly records bit for bit, written file)."""
    import generic as G
    import t2_util as T
    repo, work, idx, member, ref = args
    os.environ['UWG_REPO'] = repo
    core.REPO = repo
    uwg = U.uwg_mod()
    label, setup, interrupts, between = member
    pkg = os.path.dirname(os.path.abspath(uwg.__file__)) + os.sep
    jobdir = os.path.join(work, 'int%d' % idx)
    os.makedirs(jobdir, exist_ok=True)
    code = {k: getattr(uwg.UWG, k).__code__ for k in ('generate', 'simulate', 'write_epw')}
    total = ref['total']
    m = _interrupt_model(uwg, setup, jobdir, 'past.epw')
    initial = {a: copy.deepcopy(getattr(m, a)) for a in uwg.UWG.PARAMETER_LIST}
    log = []
    case = {'member': label, 'model': setup + ': ' + (repr(INTERRUPT_SETUPS[setup]) if INTERRUPT_SETUPS[setup] else
                                                      'shipped Singapore parameters, 1 day, dtsim 300'),
            'sequence_on_one_object': log}

    def plain(k):
        with core.quiet():
            getattr(m, k)()
        log.append('%s() returned' % k)
    msgs, observed = [], {}
    try:
        for target, excname, frac in interrupts:
            # what a caller has done before the interrupted call
            pre = {'generate': ['generate', 'simulate'], 'simulate': ['generate'], 'write_epw': ['generate', 'simulate']}[target]
            for k in pre:
                plain(k)
            at = min(total[target], max(1, int(round(frac * total[target]))))
            tr = CallTrace(pkg, code[target], at=at, exc=BASE_EXC[excname])
            try:
                with core.quiet():
                    traced(getattr(m, target), tr)
                log.append('%s() returned (interruption point %d of %d not reached)' % (target, at, total[target]))
            except BaseException as e:  # noqa: BLE001 - the caller catches the interrupt and goes on
                if type(e) is not BASE_EXC[excname]:
                    raise
                done = sum(1 for u in getattr(m, 'UCMData', []) if u is not None) if target == 'simulate' else None
                log.append('%s() interrupted by %s at interruption point %d of %d (%s)%s, caught by the caller' % (
                    target, excname, at, total[target], tr.where,
                    '' if done is None else ' after %d hourly records' % done))
                if target == 'write_epw' and os.path.exists(m.new_epw_path):
                    # (recorded, not judged here: what the interrupted writer left at the output name)
                    have = sum(1 for _ in open(m.new_epw_path, errors='ignore'))
                    full = 8 + len(m.epwinput)
                    if have != full:
                        observed['partial_file'] = ('write_epw() interrupted by %s at %s left a file of %d of %d lines at the '
                                                    'output name' % (excname, tr.where, have, full))
        for op in between:
            v = initial[op[1]] if op[2] == '<initial>' else op[2]
            setattr(m, op[1], v)
            log.append('%s = %r' % (op[1], v))
        plain('generate')
        dg = T.state_parts(m)
        if dg != ref['digest']:
            msgs.append('the state after generate() differs from a fresh object in: %s' % ', '.join(
                k for k in T.STATE_NAMES if dg.get(k) != ref['digest'].get(k)))
        plain('simulate')
        rec = U.records(m)
        if rec != ref['records']:
            d = next((n for n, (a, b) in enumerate(zip(rec, ref['records'])) if a != b), None)
            msgs.append('%d of %d hourly records differ from the fresh object; first at hour %s: canyon temperature %s K '
                        '(object with the interrupted call in its past) vs %s K (fresh)' % (
                            sum(1 for a, b in zip(rec, ref['records']) if a != b), len(rec), d,
                            rec[d][0] if d is not None and rec[d] else None,
                            ref['records'][d][0] if d is not None and ref['records'][d] else None))
        plain('write_epw')
        if G.file_hash(m.new_epw_path) != ref['file']:
            msgs.append('the written weather file differs from the one of the fresh object')
    except Exception as e:  # noqa: BLE001 - a call of the normal sequence raising where the fresh object returns
        msgs.append('after %s: %s: %s (the same calls return on a fresh object)' % (
            log[-1] if log else 'construction', type(e).__name__, str(e).split('\n')[0][:160]))
    reached = any('interrupted by' in x for x in log)
    return {'msg': '; '.join(msgs) or None, 'case': case,
            'branch': '%s: %s' % (interrupts[0][0], interrupts[0][1]) if reached else 'not reached', 'points': total,
            'observed': observed}


def interrupt_ties(chk, uwg):
    """run the family in a pool; returns (n, bad, branches, points)"""
    import multiprocessing
    quick = chk.tier == 'quick'
    work = chk.work()
    mem = interrupt_members(chk.rng, quick)
    setups = sorted(set(m_[1] for m_ in mem))
    need_write = set(m_[1] for m_ in mem if any(t == 'write_epw' for t, _, _ in m_[2]))
    with multiprocessing.Pool(min(10, len(mem))) as pool:
        refs = dict(pool.map(interrupt_reference, [(core.REPO, work, s_, s_ in need_write) for s_ in setups], chunksize=1))
        outs = pool.map(interrupt_job, [(core.REPO, work, i, m_, refs[m_[1]]) for i, m_ in enumerate(mem)], chunksize=1)
    bad, br = 0, {}
    for o in outs:
        br[o['branch']] = br.get(o['branch'], 0) + 1
        if o.get('observed', {}).get('partial_file') and not any('interrupted by' in x and 'left a file' in x for x in chk.notes):
            chk.notes.append('unchanged-tree observation (recorded, not judged): ' + o['observed']['partial_file'] +
                             ' - write_epw() formats and writes row by row into the final name (no temporary file, the handle '
                             'is not closed on the way out), so an interrupt or an OSError while writing leaves a truncated '
                             'weather file, and an earlier complete file of that name is gone; the next complete '
                             'generate(); simulate(); write_epw() rewrites it (judged above)')
        if o['msg']:
            bad += 1
            if bad <= 3:
                chk.violation('impl-violation', 'generate_forgets: a call interrupted by a BaseException in the object\'s past',
                              case=o['case'], observed=o['msg'],
                              expected='generate(); simulate(); write_epw() after the caught interrupt give the state digest, the '
                                       'hourly records (bit for bit) and the file of a fresh object with the same parameters')
    return len(outs), bad, br, refs[setups[0]]['total']


INTERRUPT_RULE = ('a BaseException that is NOT an Exception - KeyboardInterrupt (Ctrl-C / "interrupt kernel"), SystemExit, '
                  'GeneratorExit - raised at a drawn point INSIDE simulate() (early, middle, late, first and last point), '
                  'generate() (after a complete run) or write_epw(): interruption points are every function call of the '
                  'package and every statement of the interrupted call itself (sys.settrace; counted on a fresh object first), '
                  'the caller catches it and carries on with generate(); simulate(); write_epw() - also after two interrupts in '
                  'a row, after a parameter changed and changed back, on models with overrides + autosize, a custom new type, a '
                  'custom replacing a DOE archetype: state digest after generate(), hourly records bit for bit and the written '
                  'file must be those of a fresh object with the same parameters')


# =================================================================================================== customs
def _materials(u):
    return {'concrete': u.Material(1.311, 836.8 * 2240, 'Concrete'), 'gypsum': u.Material(0.16, 830.0 * 784.9, 'Gypsum'),
            'stucco': u.Material(0.6918, 837.0 * 1858.0, 'Stucco'), 'insulation': u.Material(0.049, 836.8 * 265.0, 'Insulation'),
            'tile': u.Material(0.84, 800.0 * 1900.0, 'ClayTile'), 'soil': u.Material(0.52, 1.4e6, 'GrowingMedium')}


def constructed_archetype(u, bldtype, builtera, k=0, wall_veg=0.0, wall_alb=0.08, wall_horizontal=False, roof_horizontal=True,
                          roof_veg=0.0, roof_alb=0.2, mass_veg=0.0, mass_horizontal=True, glazing=0.4, shgc=0.2,
                          floor_height=3.5, water_film=None, frac=None, condtype='AIR'):
    """(BEMDef, SchDef) made with the REAL constructors (keyword route); `k` marks the pair (cop, q_elec, set point)."""
    mt = _materials(u)
    wall = u.Element(wall_alb, 0.92, [0.0254, 0.0508, 0.0508, 0.0127], [mt['stucco'], mt['concrete'], mt['concrete'],
                                                                        mt['gypsum']], wall_veg, 293, wall_horizontal, 'MassWall')
    roof = u.Element(roof_alb, 0.93, [0.058, 0.058] if roof_horizontal else [0.02, 0.06],
                     [mt['insulation'], mt['insulation']] if roof_horizontal else [mt['tile'], mt['insulation']],
                     roof_veg, 293, roof_horizontal, 'IEAD' if roof_horizontal else 'PitchedTile')
    mass = u.Element(0.2, 0.9, [0.054, 0.054], [mt['concrete'], mt['concrete']], mass_veg, 293, mass_horizontal, 'MassFloor')
    if water_film is not None:
        roof.waterStorage = water_film
    bld = u.Building(floor_height=floor_height, int_heat_night=1, int_heat_day=1, int_heat_frad=0.1, int_heat_flat=0.1,
                     infil=0.26, vent=0.0005, glazing_ratio=glazing, u_value=5.8, shgc=shgc, condtype=condtype,
                     cop=3.0 + 0.125 * k, coolcap=90.0, heateff=0.8, initial_temp=293)
    bem = u.BEMDef(bld, mass, wall, roof, bldtype=bldtype, builtera=builtera)
    if frac is not None:
        bem.frac = frac
        bem.fl_area = frac * 1.6e6
    half = [[0.5] * 24 for _ in range(3)]
    sch = u.SchDef(elec=half, gas=[[0.2] * 24 for _ in range(3)], light=half, occ=half,
                   cool=[[22.0 + 0.5 * k] * 24 for _ in range(3)], heat=[[18.0 + 0.25 * k] * 24 for _ in range(3)],
                   swh=[[0.2] * 24 for _ in range(3)], q_elec=10.0 + k, q_gas=1.0, q_light=8.0 + 0.5 * k, n_occ=0.05,
                   vent=0.0006, v_swh=0.05, bldtype=bldtype, builtera=builtera)
    return bem, sch


def city(u, bld, zone, bv, sv, outdir, name, route='object', overrides=None):
    """a model of the city (shipped Singapore geometry, 1 day) with the custom lists handed over by `route`:
    'object' = from_param_args(ref_bem_vector=, ref_sch_vector=); 'dict' = from_dict(to_dict(include_refDOE=True)) of
    that model; 'json' = the same through JSON text"""
    import json
    m = u.UWG.from_param_args(10.0, 0.5, 0.8, 0.1, 0.1, zone, month=1, day=2, nday=1, dtsim=300,
                              bld=[tuple(r) for r in bld], epw_path=U.rp(U.EPW_SGP), new_epw_dir=outdir, new_epw_name=name,
                              ref_bem_vector=bv, ref_sch_vector=sv)
    for k, v in (overrides or {}).items():
        setattr(m, k, v)
    if route == 'object':
        return m
    d = m.to_dict(include_refDOE=True)
    if route == 'json':
        d = json.loads(json.dumps(d))
    return u.UWG.from_dict(d, epw_path=U.rp(U.EPW_SGP), new_epw_dir=outdir, new_epw_name=name)


def building_values(b):
    return {'glzr': b.building.glazing_ratio, 'shgc': b.building.shgc, 'albwall': b.wall.albedo,
            'albroof': b.roof.albedo, 'vegroof': b.roof.vegcoverage, 'flr_h': b.building.floor_height}


def sch_values(s_):
    def norm(v):
        return [norm(x) for x in v] if isinstance(v, (list, tuple)) else v
    return [norm(getattr(s_, f)) for f in ('elec', 'gas', 'light', 'occ', 'cool', 'heat', 'swh', 'q_elec', 'q_gas',
                                           'q_light', 'n_occ', 'vent', 'v_swh')]


def reference_of(pristine, zone, customs):
    """(type, era) -> (reference BEMDef, reference SchDef): the custom supplied for it (the last one wins), else the cell
    of the pristine library"""
    zi = REFZ.index(proxy(zone))
    cust = {}
    for b, s_ in customs:
        cust[(b.bldtype, b.builtera)] = (b, s_)

    def ref(t, e):
        if (t, e) in cust:
            return cust[(t, e)]
        if t in DOE_TYPES:
            return pristine[0][DOE_TYPES.index(t)][ERAS.index(e)][zi], pristine[1][DOE_TYPES.index(t)][ERAS.index(e)][zi]
        return None, None
    return ref


def oracle_stock(m, ref):
    """C07 on a generated model with customs: one simulated archetype per distinct (type, era) of the stock with the
    summed share; BEM[k] has the requested identifiers; Sch[k] is - value for value - the schedule set that carries the
    identifiers of BEM[k]"""
    stock = {}
    for t, e, f in m.bld:
        stock[(t, e.lower())] = stock.get((t, e.lower()), 0.) + f
    sim = {}
    for b in m.BEM:
        if (b.bldtype, b.builtera) in sim:
            return 'two simulated archetypes for %s/%s' % (b.bldtype, b.builtera)
        sim[(b.bldtype, b.builtera)] = b.frac
    if sim != stock:
        return 'simulated archetypes and shares %r, the stock asks for %r (sum of the simulated shares: %r)' % (
            sorted(sim.items()), sorted(stock.items()), sum(sim.values()))
    if len(m.Sch) != len(m.BEM):
        return '%d schedule sets for %d archetypes' % (len(m.Sch), len(m.BEM))
    for k, (b, s_) in enumerate(zip(m.BEM, m.Sch)):
        rb, rs = ref(b.bldtype, b.builtera)
        if rb is None:
            return 'BEM[%d] = %s/%s: no such archetype was supplied' % (k, b.bldtype, b.builtera)
        if (s_.bldtype, s_.builtera) != (b.bldtype, b.builtera) or sch_values(s_) != sch_values(rs):
            return ('archetype BEM[%d] = %s/%s (share %r) is simulated with the schedule set of %s/%s (q_elec %r W/m2, cooling '
                    'set point %r C); the schedule set supplied for %s/%s has q_elec %r W/m2, set point %r C' % (
                        k, b.bldtype, b.builtera, b.frac, s_.bldtype, s_.builtera, s_.q_elec, s_.cool[0][12], b.bldtype,
                        b.builtera, rs.q_elec, rs.cool[0][12]))
        if b.building.cop != rb.building.cop or b.building.heateff != rb.building.heateff:
            return 'BEM[%d] = %s/%s carries cop %r / heating efficiency %r, the archetype supplied has %r / %r' % (
                k, b.bldtype, b.builtera, b.building.cop, b.building.heateff, rb.building.cop, rb.building.heateff)
    return None


def oracle_overrides(m, want, ref):
    """C08 on a generated model with customs. `want`: override -> accepted value in force (None = unset);
    `ref(type, era)` -> reference archetype. Every set override is the value carried by every simulated building, an
    unset one leaves the reference value; the three stock averages are the share-weighted sums of the carried values;
    the canyon model holds that wall albedo and the facade absorptivity that follows from the averages."""
    for k in OV:
        got = getattr(m, k)
        if (got is None) != (want[k] is None) or (got is not None and not got == want[k]):
            return 'model.%s reads %r, the accepted value in force is %r' % (k, got, want[k])
    if not m.BEM:
        return 'no building simulated'
    rg = sh = aw = 0.
    for b in m.BEM:
        rb, _ = ref(b.bldtype, b.builtera)
        if rb is None:
            return 'building %s/%s: no such archetype was supplied' % (b.bldtype, b.builtera)
        have, refv = building_values(b), building_values(rb)
        for k in OV:
            if want[k] is not None and not have[k] == want[k]:
                return ('building %s/%s (roof %s, roof vegetation of the reference %r, wall vegetation %r) carries %s = %r although '
                        'the override in force is %r' % (b.bldtype, b.builtera, 'horizontal' if b.roof.horizontal else
                                                         'declared horizontal=False', refv['vegroof'], b.wall.vegcoverage, k,
                                                         have[k], want[k]))
            if want[k] is None and not have[k] == refv[k]:
                return 'override %s is unset but building %s/%s carries %r, its reference value is %r' % (
                    k, b.bldtype, b.builtera, have[k], refv[k])
        rg += b.frac * have['glzr']
        sh += b.frac * have['shgc']
        aw += b.frac * have['albwall']
    for name, acc in (('r_glaze_total', rg), ('SHGC_total', sh), ('alb_wall_total', aw)):
        if getattr(m, name) != acc:
            return ('%s is %r, the share-weighted sum of what the simulated buildings carry is %r (buildings: %s)' % (
                name, getattr(m, name), acc, [(b.bldtype, b.frac, 'wall albedo %r' % b.wall.albedo,
                                               'wall vegetation %r' % b.wall.vegcoverage) for b in m.BEM]))
    if hasattr(m, 'UCM'):
        if m.UCM.alb_wall != aw:
            return 'canyon model wall albedo UCM.alb_wall = %r, the stock average of the carried wall albedos is %r' % (
                m.UCM.alb_wall, aw)
        fa = (1 - rg) * (1 - aw) + rg * (1 - 0.75 * sh)
        if m.UCM.facAbsor != fa:
            return 'canyon facade absorptivity %r, from the stock averages %r' % (m.UCM.facAbsor, fa)
    return None


# ------------------------------------------------------------------------------------ documented attributes (C08 / C07)
ATTRIBUTE_MEMBERS = [
    # (label, keyword arguments of constructed_archetype)
    ('pitched roof: roof Element declared horizontal=False, with its own vegetation value', dict(roof_horizontal=False, roof_veg=0.5)),
    ('pitched bare roof (horizontal=False, vegcoverage 0)', dict(roof_horizontal=False, roof_veg=0.0, roof_alb=0.35)),
    ('green facade: wall.vegcoverage 0.4', dict(wall_veg=0.4, wall_alb=0.25)),
    ('fully vegetated facade: wall.vegcoverage 1', dict(wall_veg=1.0, wall_alb=0.3)),
    ('wall Element declared horizontal=True', dict(wall_horizontal=True, wall_veg=0.2)),
    ('vegetated internal mass, declared horizontal=False', dict(mass_veg=0.3, mass_horizontal=False)),
    ('water film on the roof (waterStorage 0.02 m, as the package tests set it)', dict(water_film=0.02, roof_veg=0.25)),
    ('BEMDef that already carries a share (frac 0.6, fl_area) from an earlier model', dict(frac=0.6)),
    ('water-cooled plant, green roof', dict(condtype='WATER', roof_veg=1.0)),
    ('control: every attribute as in the DOE archetypes', dict()),
]
OVERRIDE_SETS = [
    ('all six set, interior values', dict(glzr=0.37, shgc=0.61, albwall=0.33, albroof=0.44, vegroof=0.3, flr_h=3.7)),
    ('all at the limit 0', dict(glzr=0.0, shgc=0.0, albwall=0.0, albroof=0.0, vegroof=0.0, flr_h=2.5)),
    ('all at the limit 1', dict(glzr=1.0, shgc=1.0, albwall=1.0, albroof=1.0, vegroof=1.0, flr_h=6.0)),
    ('none set', dict()),
    ('vegroof and albwall only', dict(vegroof=0.6, albwall=0.6)),
    ('albwall only', dict(albwall=0.35)),
    ('vegroof only', dict(vegroof=1.0)),
]


def attribute_cities(chk, uwg, which):
    """The family 'documented attribute of a custom archetype at a legal value no shipped archetype has', judged by the
    oracle of C07 (`which` = 'C07': shares, identifiers, schedule pairing) or C08 (overrides carried, stock averages,
    canyon inputs). Returns (number of cities, number of failures, branch counts)."""
    rng = chk.rng
    quick = chk.tier == 'quick'
    work = chk.work()
    pristine = uwg.UWG.load_refDOE()
    n = bad = 0
    br = {}
    names = ['chalet', 'greenblock', 'annex', 'atrium']
    for mi, (label, kw) in enumerate(ATTRIBUTE_MEMBERS):
        # quick: per member one of (all six set / all 0 / all 1) by object and dictionary route, and one of (none,
        # vegroof + albwall, albwall only, vegroof only) by object route; members rotate through the sets
        osets = OVERRIDE_SETS if not quick else [OVERRIDE_SETS[mi % 3], OVERRIDE_SETS[3 + (mi + mi // 4) % 4]]
        if which == 'C07':
            osets = [OVERRIDE_SETS[3 if mi % 2 else mi % 3]] if quick else OVERRIDE_SETS[:4]
        for oi, (olabel, ov) in enumerate(osets):
            routes = ('object', 'dict', 'json') if not quick else (('object', 'dict') if oi == 0 else ('object',))
            for route in routes:
                # the custom stands next to one or two DOE rows; every other city also holds a second custom that
                # REPLACES a DOE archetype of the stock (all attributes as shipped, marked by its plant)
                name, era = names[mi % len(names)], ERAS[(mi + oi) % 3]
                zone = rng.choice(['1A', '1B', '3C', '4A', '5C', '7'])
                share = kw.get('frac') and 0.3 or rng.choice([0.25, 0.3, 0.5])
                bv, sv = [], []
                b, s_ = constructed_archetype(uwg, name, era, k=mi, **kw)
                bv.append(b)
                sv.append(s_)
                bld = [(name, rng.choice([era, era.capitalize(), era.upper()]), share)]
                if (mi + oi) % 2:
                    b2, s2 = constructed_archetype(uwg, 'largeoffice', 'pst80', k=20 + mi)
                    bv.append(b2)
                    sv.append(s2)
                    bld += [('largeoffice', 'pst80', (1 - share) / 2), ('midriseapartment', 'new', (1 - share) / 2)]
                else:
                    bld.append(('hospital', 'pre80', 1 - share))
                supplied = [(copy.deepcopy(x), copy.deepcopy(y)) for x, y in zip(bv, sv)]
                want = {k: ov.get(k) for k in OV}
                case = {'custom_archetype': label, 'constructor_arguments': {k: repr(v) for k, v in kw.items()},
                        'customs (type, era)': [(x.bldtype, x.builtera) for x in bv], 'bld': bld, 'zone': zone,
                        'overrides': {k: repr(v) for k, v in want.items()}, 'route': {
                            'object': 'from_param_args(ref_bem_vector=, ref_sch_vector=) with objects built by the constructors',
                            'dict': 'from_dict(to_dict(include_refDOE=True)) of that model',
                            'json': 'the same through JSON text'}[route]}
                n += 1
                key = '%s / %s' % (route, 'overrides set' if ov else 'no override')
                br[key] = br.get(key, 0) + 1
                try:
                    with core.quiet():
                        m = city(uwg, bld, zone, bv, sv, work, 'v2attr.epw', route, ov)
                        m.generate()
                    ref = reference_of(pristine, zone, supplied)
                    msg = oracle_stock(m, ref) if which == 'C07' else oracle_overrides(m, want, ref)
                    if msg is None and which == 'C07':
                        tot = sum(x.frac for x in m.BEM)
                        if abs(tot - 1.0) > 1e-9:
                            msg = 'the simulated shares sum to %r' % tot
                except Exception as e:  # noqa: BLE001
                    msg = '%s: %s' % (type(e).__name__, str(e).split('\n')[0][:200])
                if msg:
                    bad += 1
                    if bad <= 3:
                        chk.violation(
                            'impl-violation',
                            ('the stock with a custom archetype carrying a documented non-default attribute is simulated as '
                             'requested' if which == 'C07' else
                             'overrides on a stock with a custom archetype carrying a documented non-default attribute'),
                            case=case, observed=msg,
                            expected=('one archetype per row with the requested identifiers, share and its own schedule set; shares '
                                      'sum to one' if which == 'C07' else
                                      'every set override is the value every simulated building carries (DOE and custom, whatever '
                                      'its other attributes); unset ones leave the reference value; r_glaze_total, SHGC_total, '
                                      'alb_wall_total and UCM.alb_wall are the share-weighted sums of the carried values'))
    return n, bad, br


ATTRIBUTE_RULE = ('custom archetypes built with the REAL constructors (Material, Element, Building, BEMDef, SchDef) in which ONE '
                  'documented attribute has a legal value that none of the 768 shipped archetypes has: ' +
                  '; '.join(m_[0] for m_ in ATTRIBUTE_MEMBERS) +
                  '. Each stands in a stock next to DOE rows (every other city also holds a custom that REPLACES a DOE '
                  'archetype), era text of the row in any letter case, zones incl. the proxies 1B / 5C, handed over as objects '
                  '(from_param_args), through from_dict(to_dict(include_refDOE=True)) and through JSON text, then generate()')


# ------------------------------------------------------------------------------------ order of the custom lists (C07)
def pairing_members(quick):
    """(label, identifiers of ref_bem_vector, identifiers of ref_sch_vector (same multiset unless stated), stock rows)
    identifiers are (type, era, marker); the marker distinguishes a revised entry of the same identifiers"""
    A, B, C = ('alphatower', 'new', 1), ('betahall', 'new', 2), ('gammalab', 'pst80', 3)
    A2, Ap = ('alphatower', 'new', 7), ('alphatower', 'pre80', 4)
    L, H = ('largeoffice', 'pst80', 5), ('hospital', 'new', 6)

    def rows(ids, extra=()):
        keys = []
        for t, e, _ in ids:
            if (t, e) not in keys:
                keys.append((t, e))
        keys += [k for k in extra if k not in keys]
        f = 1.0 / len(keys)
        fr = {1: [1.0], 2: [0.5, 0.5], 3: [0.5, 0.25, 0.25], 4: [0.25] * 4}.get(len(keys)) or [f] * len(keys)
        return [(t, e, x) for (t, e), x in zip(keys, fr)]
    mem = [
        ('two new types, schedule list in the other order', [A, B], [B, A], rows([A, B])),
        ('two new types, both lists in the same (reversed) order - control', [B, A], [B, A], rows([A, B])),
        ('three new types, schedule list rotated', [A, B, C], [B, C, A], rows([A, B, C])),
        ('three new types, last two schedules swapped', [A, B, C], [A, C, B], rows([A, B, C], [('midriseapartment', 'pst80')])),
        ('new type and a custom replacing a DOE archetype, swapped', [A, L], [L, A], rows([A, L])),
        ('two customs replacing DOE archetypes, swapped', [H, L], [L, H], rows([H, L], [('warehouse', 'new')])),
        ('one new type in two eras, swapped', [A, Ap], [Ap, A], rows([A, Ap])),
        ('a revised entry of the same type and era: (A, A revised, B) against (A, B, A revised)', [A, A2, B], [A, B, A2], rows([A, B])),
        ('a revised entry, same order in both lists - control', [A, B, A2], [A, B, A2], rows([A, B])),
        ('schedule list one short', [A, B], [A], rows([A, B])),
        ('schedule list names another type', [A, B], [A, C], rows([A, B])),
        ('same order, stock names one of the two - control', [A, B], [A, B], rows([B], [('smalloffice', 'pre80')])),
    ]
    if quick:
        mem = [m_ for k, m_ in enumerate(mem) if k not in (3, 8)]
    return mem


def pairing_objects(uwg, ids, what):
    out = []
    for t, e, k in ids:
        b, s_ = constructed_archetype(uwg, t, e, k=k)
        out.append(b if what == 'bem' else s_)
    return out


def pairing_ties(chk, uwg):
    """lists whose order carries meaning: refused, or realised as given"""
    import json
    quick = chk.tier == 'quick'
    work = chk.work()
    pristine = uwg.UWG.load_refDOE()
    n = bad = 0
    br = {}
    for label, bids, sids, bld in pairing_members(quick):
        for route in ('from_param_args', 'attribute assignment', 'from_dict'):
            bv, sv = pairing_objects(uwg, bids, 'bem'), pairing_objects(uwg, sids, 'sch')
            # what the caller supplied, by identifiers: the LAST entry of a (type, era) wins in both lists
            supplied_b = {(b.bldtype, b.builtera): copy.deepcopy(b) for b in bv}
            supplied_s = {(s_.bldtype, s_.builtera): copy.deepcopy(s_) for s_ in sv}
            case = {'member': label, 'ref_bem_vector (type, era, marker)': bids, 'ref_sch_vector (type, era, marker)': sids,
                    'bld': bld, 'route': route}
            n += 1
            stage, m = 'hand-over', None
            try:
                with core.quiet():
                    if route == 'from_param_args':
                        m = uwg.UWG.from_param_args(10.0, 0.5, 0.8, 0.1, 0.1, '1A', month=1, day=2, nday=1, dtsim=300,
                                                    bld=bld, epw_path=U.rp(U.EPW_SGP), new_epw_dir=work,
                                                    new_epw_name='v2pair.epw', ref_bem_vector=bv, ref_sch_vector=sv)
                    elif route == 'attribute assignment':
                        m = U.new_model(outdir=work, outname='v2pair.epw', nday=1, dtsim=300, bld=list(bld), zone='1A')
                        m.ref_bem_vector, m.ref_sch_vector = m._check_reference_data(bv, sv)
                    else:
                        # a dictionary as to_dict writes it, with the two lists as the caller ordered them
                        base = U.new_model(outdir=work, outname='v2pair.epw', nday=1, dtsim=300, bld=list(bld), zone='1A')
                        d = json.loads(json.dumps(base.to_dict()))
                        d['ref_bem_vector'] = [b.to_dict() for b in bv]
                        d['ref_sch_vector'] = [s_.to_dict() for s_ in sv]
                        m = uwg.UWG.from_dict(d, epw_path=U.rp(U.EPW_SGP), new_epw_dir=work, new_epw_name='v2pair.epw')
                    stage = 'generate()'
                    m.generate()
                stage = None
            except Exception as e:  # noqa: BLE001 - a refusal
                outcome = 'refused at %s (%s)' % (stage, type(e).__name__)
                br[outcome] = br.get(outcome, 0) + 1
                # a refusal is always admissible for lists that do not pair up position by position; lists that DO
                # pair up (controls) must be realisable
                if [x[:2] for x in bids] == [x[:2] for x in sids] and [x[2] for x in bids] == [x[2] for x in sids]:
                    bad += 1
                    if bad <= 3:
                        chk.violation('impl-violation', 'custom lists that pair up position by position are accepted',
                                      case=case, observed='%s: %s' % (outcome, str(e).split('\n')[0][:200]),
                                      expected='the stock is realisable: generate() returns')
                continue
            br['accepted'] = br.get('accepted', 0) + 1

            def ref(t, e):
                if (t, e) in supplied_b and (t, e) in supplied_s:
                    return supplied_b[(t, e)], supplied_s[(t, e)]
                if t in DOE_TYPES and (t, e) not in supplied_b:
                    return pristine[0][DOE_TYPES.index(t)][ERAS.index(e)][0], pristine[1][DOE_TYPES.index(t)][ERAS.index(e)][0]
                return None, None
            msg = oracle_stock(m, ref)
            if msg is None:
                # the marker of the schedule set must be the marker of the archetype it drives (revised entries)
                for b, s_ in zip(m.BEM, m.Sch):
                    if (b.bldtype, b.builtera) in supplied_b and round((b.building.cop - 3.0) / 0.125) != round(s_.q_elec - 10.0):
                        msg = ('archetype %s/%s is the entry marked %d (cop %r) but is driven by the schedule entry marked %d '
                               '(q_elec %r)' % (b.bldtype, b.builtera, round((b.building.cop - 3.0) / 0.125), b.building.cop,
                                                round(s_.q_elec - 10.0), s_.q_elec))
            if msg:
                bad += 1
                if bad <= 3:
                    chk.violation('impl-violation', 'custom lists in an order that does not pair up: refused, or realised as given',
                                  case=case, observed='the lists were accepted and generate() returned, but ' + msg,
                                  expected='a refusal (the unchanged package refuses lists that do not carry the same type and era '
                                           'position by position), or every archetype simulated with the schedule set that carries '
                                           'its own type and era')
    return n, bad, br


PAIRING_RULE = ('ref_bem_vector / ref_sch_vector built with the real constructors (every entry marked: cop, q_elec, set points) '
                'in orders that do NOT pair up position by position - two / three new types with the schedule list reversed, '
                'rotated, two entries swapped; a new type and a custom replacing a DOE archetype swapped; two DOE replacements '
                'swapped; one new type in two eras swapped; a revised entry of the same type and era at different positions; a '
                'list one short; a list naming another type - and controls that do pair up, each handed over by '
                'from_param_args, by attribute assignment after _check_reference_data, and in a dictionary given to from_dict; '
                'then generate(): either a refusal, or BEM = the stock and every BEM[k] driven by the schedule set that carries '
                'ITS type, era and marker (value for value); controls must be accepted')


# =================================================================================================== C06
IDENTIFIER_TEXTS = ['CornerShop', 'MidRiseApartment', 'LargeOffice', 'LABTOWER', 'lab tower 2', 'Lab-Tower_2.0', ' annex ',
                    'Hôtel de Ville', 'customwarehouse']


def identifier_customs(uwg, name, era, k=0):
    """custom pair built with the constructors (keyword route): the identifier text is kept as typed"""
    return constructed_archetype(uwg, name, era, k=k, roof_veg=0.25)
