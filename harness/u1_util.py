"""Fourth-round helpers of C01 / C02 / C03 / C04 / C05 / C09: ONE description of a run (a *spec*: parameter file, rural
file, attributes, custom vectors, output name) that can be executed

  * in this process, plainly;
  * in this process while somebody looks (repr / str / ToString of every reachable uwg object after construction,
    after generate(), every k-th step of simulate(), after simulate(), after write_epw()) and / or with DEBUG logging;
  * in a fresh interpreter, optionally `python -O` (asserts stripped);
  * through the command line (`python -m uwg simulate model|param`, optionally `python -O -m uwg ...`);
  * with the physics stubbed from outside (the loop of simulate, the records and write_epw stay real) for long windows;

and always yields the same kind of observation (`Result`: exception class and stage, hourly records as exact float
reprs, written file, hashes of the rural file before / after). Each check judges these observations with ITS OWN
oracle and demands equality with the plain run (generic.py provides the circumstances, this module applies them).

Nothing here uses `assert` (the module also runs under python -O)."""
import contextlib
import hashlib
import json
import os
import sys
import types
from concurrent.futures import ThreadPoolExecutor

import core
import generic as G
import uwgutil as U

STAGES = ('constructed', 'generated', 'during', 'simulated', 'written')
W_FIELDS = ('infra', 'wind', 'uDir', 'hum', 'pres', 'temp', 'rHum', 'prec', 'dif', 'dir')
U_FIELDS = ('canTemp', 'canHum', 'canRHum', 'Tdp')
MDAYS = [31, 28, 31, 30, 31, 30, 31, 31, 30, 31, 30, 31]


def doy0(month, day):
    return sum(MDAYS[:month - 1]) + day - 1


def fhash(path):
    try:
        with open(path, 'rb') as f:
            return hashlib.sha256(f.read()).hexdigest()
    except OSError:
        return None


# ------------------------------------------------------------------------------------------------- specs
def spec(epw, attrs=None, outdir=None, outname='out.epw', param=None, custom=None, precision=None,
         observe=(), debug=False, stub=False, every=41, label=None):
    """A JSON-able description of one run. attrs: list of (name, value) or dict, set in this order after
    from_param_file; custom: name of a configuration of s2_util.CUSTOM_CONFIGS (custom reference vectors, built from
    fresh objects) or None; observe: subset of STAGES at which every reachable uwg object is rendered; debug: DEBUG
    logging for the whole run; stub: physics stubbed (driver, records, psychrometrics of the record, write_epw real)."""
    if isinstance(attrs, dict):
        attrs = list(attrs.items())
    return {'epw': epw, 'param': param or U.rp(U.PARAM_SGP), 'attrs': [list(a) for a in (attrs or [])],
            'outdir': outdir, 'outname': outname, 'custom': custom, 'precision': precision,
            'observe': list(observe), 'debug': bool(debug), 'stub': bool(stub), 'every': every, 'label': label}


def variant(sp, **kw):
    out = dict(sp)
    out.update(kw)
    return out


def attr_of(sp, name, default=None):
    for k, v in sp['attrs']:
        if k == name:
            default = v
    return default


def build(sp):
    """the model of a spec, not yet generated"""
    u = U.uwg_mod()
    if sp.get('custom'):
        import s2_util as S2
        cspec, extra, zone, month = S2.custom_config(sp['custom'])
        bv, sv = S2.custom_vector(u, cspec)
        m = u.UWG.from_param_file(sp['param'], epw_path=sp['epw'], new_epw_dir=sp['outdir'],
                                  new_epw_name=sp['outname'])
        m.bld, m.zone, m.month = S2.bld_for(cspec, extra), zone, month
        m.ref_bem_vector, m.ref_sch_vector = m._check_reference_data(bv, sv)
    else:
        m = u.UWG.from_param_file(sp['param'], epw_path=sp['epw'], new_epw_dir=sp['outdir'],
                                  new_epw_name=sp['outname'])
    for k, v in sp['attrs']:
        if k == 'bld':
            v = [tuple(x) for x in v]
        setattr(m, k, v)
    if sp.get('precision') is not None:
        m.epw_precision = sp['precision']
    return m


# ------------------------------------------------------------------------------------------------- physics stub
@contextlib.contextmanager
def stubbed_physics(model):
    """The step loop of `simulate`, the forcing hand-over, the hourly records (with the REAL psychrometrics) and
    `write_epw` run unchanged; solar, surface, diffusion, urban-flux, canyon and boundary-layer routines are no-ops
    (patched from outside and restored). The canyon temperature therefore keeps its initial value; everything that
    is a matter of rows, clocks, records and written cells is the real code. For windows that are too long for the
    un-stubbed physics in the quick tier."""
    import uwg.uwg as UU

    class _Solar(object):
        def __init__(self, UCM, BEM, simTime, RSM, forc, geoParam, rural):
            self._r = (rural, UCM, BEM)

        def solarcalcs(self):
            return self._r

    def _urbflux(UCM, UBL, BEM, forc, geoParam, simTime, RSM):
        return UCM, UBL, BEM

    def _noop(*a, **k):
        return None
    saved = {k: getattr(UU, k) for k in ('SolarCalcs', 'urbflux')}
    inst = [(model.UCM, 'UCModel'), (model.UBL, 'ublmodel'), (model.rural, 'SurfFlux'), (model.RSM, 'vdm')]
    try:
        UU.SolarCalcs, UU.urbflux = _Solar, _urbflux
        for o, name in inst:
            setattr(o, name, _noop)
        yield
    finally:
        for k, v in saved.items():
            setattr(UU, k, v)
        for o, name in inst:
            try:
                delattr(o, name)
            except AttributeError:
                pass


# ------------------------------------------------------------------------------------------------- results
def full_records(m):
    """hourly records of a finished simulation: per hour the four canyon fields and the ten forcing fields as
    exact float reprs (JSON-able, bit-exact), None for a record that was never taken"""
    return records_of(m.UCMData, m.WeatherData, m.UBLData)


class Result(object):
    """what one execution of a spec showed"""

    def __init__(self, d):
        self.__dict__.update(d)

    ok = property(lambda self: self.error is None)

    def rec(self, n, group, field):
        fields = U_FIELDS if group == 'u' else W_FIELDS
        return float(self.records[n][group][fields.index(field)])

    def modellike(self):
        """an object with the attributes the oracles read from a finished model (UCMData, WeatherData, simTime.
        timeInitial, weather.staHum, epw_precision, geoParam.windMin, windmin, dtsim, simTime.dt), rebuilt from the records"""
        def ns(names, vals):
            return types.SimpleNamespace(**{k: _num(v) for k, v in zip(names, vals)})
        m = types.SimpleNamespace()
        m.UCMData = [None if r is None else ns(U_FIELDS, r['u']) for r in (self.records or [])]
        m.WeatherData = [None if r is None else ns(W_FIELDS, r['w']) for r in (self.records or [])]
        info = self.info or {}
        m.simTime = types.SimpleNamespace(timeInitial=info.get('timeInitial'), timeFinal=info.get('timeFinal'),
                                          dt=_num(info.get('simdt')))
        m.weather = types.SimpleNamespace(staHum=[_num(x) for x in info.get('staHum') or []])
        m.geoParam = types.SimpleNamespace(windMin=_num(info.get('geo_windMin')))
        m.windmin = _num(info.get('windmin'))
        m.dtsim = _num(info.get('dtsim'))
        m.epw_precision = info.get('epw_precision')
        m.new_epw_path = self.file
        return m


def _num(text):
    if text is None:
        return None
    try:
        return int(text) if isinstance(text, str) and text.lstrip('-').isdigit() else float(text)
    except (TypeError, ValueError):
        return text


def _info(m):
    st = getattr(m, 'simTime', None)
    wx = getattr(m, 'weather', None)
    gp = getattr(m, 'geoParam', None)
    return {'timeInitial': getattr(st, 'timeInitial', None), 'timeFinal': getattr(st, 'timeFinal', None),
            'simdt': repr(getattr(st, 'dt', None)), 'nt': getattr(st, 'nt', None),
            'clock': [getattr(st, 'month', None), repr(getattr(st, 'day', None)), getattr(st, 'julian', None),
                      repr(getattr(st, 'secDay', None)), getattr(st, 'hourDay', None)],
            'staHum': [repr(x) for x in getattr(wx, 'staHum', [])],
            'geo_windMin': repr(getattr(gp, 'windMin', None)), 'windmin': repr(getattr(m, 'windmin', None)),
            'dtsim': repr(getattr(m, 'dtsim', None)), 'epw_precision': getattr(m, 'epw_precision', None),
            'bem': [[getattr(b, 'bldtype', None), getattr(b, 'builtera', None)] for b in getattr(m, 'BEM', [])],
            'sch': [[getattr(s, 'bldtype', None), getattr(s, 'builtera', None)] for s in getattr(m, 'Sch', [])]}


class TooLong(Exception):
    """(harness) the accepted configuration needs more steps than the tier allows: not simulated"""


def execute(sp, keep_model=True):
    """run a spec in this process; never raises for an exception of the code under test (it is recorded)"""
    obs = set(sp.get('observe') or ())
    if sp.get('outdir'):
        os.makedirs(sp['outdir'], exist_ok=True)
    d = {'spec': sp, 'error': None, 'error_class': None, 'stage': None, 'records': None, 'file': None,
         'file_hash': None, 'info': None, 'rural_before': fhash(sp['epw']), 'rural_after': None, 'model': None,
         'route': 'library' + ('+observed' if obs else '') + ('+DEBUG' if sp.get('debug') else '') +
                  ('+stub' if sp.get('stub') else ''), 'rc': None, 'stderr': None, 'poked': 0,
         'optimize': sys.flags.optimize}
    m = None
    stage = 'construct'
    ctx = G.debug_logging() if sp.get('debug') else contextlib.nullcontext()
    try:
        with ctx:
            m = build(sp)
            if 'constructed' in obs:
                d['poked'] += G.poke(m)
            stage = 'generate'
            with core.quiet():
                m.generate()
            if 'generated' in obs:
                d['poked'] += G.poke(m)
            if sp.get('max_steps') and m.simTime.nt > sp['max_steps']:
                raise TooLong('%d steps' % m.simTime.nt)
            stage = 'simulate'
            sctx = stubbed_physics(m) if sp.get('stub') else contextlib.nullcontext()
            with sctx:
                undo = G.poke_during(m, every=sp.get('every') or 41) if 'during' in obs else (lambda: None)
                try:
                    with core.quiet():
                        m.simulate()
                finally:
                    undo()
            if 'simulated' in obs:
                d['poked'] += G.poke(m)
            stage = 'write'
            with core.quiet():
                m.write_epw()
            if 'written' in obs:
                d['poked'] += G.poke(m)
            stage = None
    except Exception as e:  # noqa: BLE001 - recorded, judged by the caller
        d['error'] = '%s: %s' % (type(e).__name__, str(e)[:300])
        d['error_class'] = type(e).__name__
    d['stage'] = stage
    if m is not None:
        d['info'] = _info(m)
        if getattr(m, 'UCMData', None) is not None and stage in (None, 'write'):
            try:
                d['records'] = full_records(m)
            except Exception:  # noqa: BLE001
                d['records'] = None
        if stage is None:
            d['file'] = m.new_epw_path
            d['file_hash'] = fhash(m.new_epw_path)
    d['rural_after'] = fhash(sp['epw'])
    d['model'] = m if keep_model else None
    return Result(d)


# ------------------------------------------------------------------------------------------------- child processes
CHILD_CODE = '''
import sys, json
import u1_util
u1_util.child_main(sys.argv[1])
'''


def child_main(job_path):
    """entry point of the child interpreter: job = {'call': 'module:function', 'args': {...}}; the function's JSON-able
    result is printed on the last line of stdout"""
    import importlib
    with open(job_path) as f:
        job = json.load(f)
    core.repo_python_path()
    modname, fn = job['call'].split(':')
    mod = importlib.import_module(modname)
    out = getattr(mod, fn)(**job.get('args', {}))
    sys.stdout.write('\n' + json.dumps({'optimize': sys.flags.optimize, 'result': out}) + '\n')


def call_child(work, call, args, optimize=False, tag='job', timeout=900):
    """run `module:function(**args)` in a fresh interpreter of the tree under test (python -O when optimize);
    returns the function's result. An interpreter that dies inside the package is reported as
    {'child_error': stderr tail}."""
    os.makedirs(work, exist_ok=True)
    jp = os.path.join(work, 'u1job_%s_%s.json' % (tag, 'O' if optimize else 'plain'))
    with open(jp, 'w') as f:
        json.dump({'call': call, 'args': args}, f)
    rc, doc, err = G.child_json(CHILD_CODE, optimize=optimize, env={'UWG_REPO': core.REPO}, timeout=timeout, args=[jp])
    if rc != 0 or not isinstance(doc, dict) or 'result' not in doc:
        if 'Traceback' in (err or '') and (os.sep + 'uwg' + os.sep) in err:
            return {'child_error': err[-800:]}
        raise core.Infra('child interpreter failed (%s, rc=%s): %s' % (call, rc, (err or '')[-500:]))
    if bool(doc['optimize']) != bool(optimize):
        raise core.Infra('child interpreter ran with optimize=%s, wanted %s' % (doc['optimize'], optimize))
    return doc['result']


def child_execute(specs):
    """(runs inside the child) execute several specs, return their JSON-able results"""
    out = []
    for sp in specs:
        r = execute(sp, keep_model=False)
        d = dict(r.__dict__)
        d.pop('model', None)
        out.append(d)
    return out


def execute_child(work, specs, optimize=False, tag='run'):
    """the specs executed one after the other in ONE fresh interpreter -> list of Results (model = None)"""
    res = call_child(work, 'u1_util:child_execute', {'specs': specs}, optimize=optimize, tag=tag)
    if isinstance(res, dict) and 'child_error' in res:
        return [Result({'spec': sp, 'error': 'interpreter died: ' + res['child_error'][-300:], 'error_class': 'ChildDied',
                        'stage': 'child', 'records': None, 'file': None, 'file_hash': None, 'info': None,
                        'rural_before': None, 'rural_after': fhash(sp['epw']), 'model': None, 'rc': None,
                        'stderr': res['child_error'], 'poked': 0, 'optimize': int(optimize),
                        'route': 'child' + (' -O' if optimize else '')}) for sp in specs]
    out = []
    for d in res:
        d['model'] = None
        d['route'] = 'child python%s: %s' % (' -O' if optimize else '', d.get('route'))
        out.append(Result(d))
    return out


# ------------------------------------------------------------------------------------------------- command line
def param_text(sp):
    """a .uwg file for the spec: the base parameter file with the lines of the scalar attributes replaced; None when
    the spec cannot be written as a parameter file (custom vectors, list-valued attributes)"""
    if sp.get('custom') or sp.get('precision') not in (None, 1):
        return None
    want = {}
    for k, v in sp['attrs']:
        if isinstance(v, bool):
            want[k] = '%d' % int(v)
        elif isinstance(v, (int, float)):
            want[k] = repr(v)
        elif isinstance(v, str) and k == 'zone':
            want[k] = v
        elif v is None:
            want[k] = ''
        else:
            return None
    with open(sp['param'], newline='') as f:
        lines = f.read().split('\n')
    seen = set()
    for i, line in enumerate(lines):
        key = line.split(',')[0].replace(' ', '').lower()
        if key in want and not line.lstrip().startswith('#'):
            lines[i] = '%s,%s,' % (line.split(',')[0], want[key])
            seen.add(key)
    if set(want) - seen:
        return None
    return '\n'.join(lines)


def hand_edited(x):
    """a model dictionary as somebody types it: every whole number written without a decimal point (10 for 10.0),
    at every depth (parameters, traffic schedule, stock fractions, sub-dictionaries of custom vectors)"""
    if isinstance(x, dict):
        return {k: hand_edited(v) for k, v in x.items()}
    if isinstance(x, list):
        return [hand_edited(v) for v in x]
    if isinstance(x, float) and x == int(x) and abs(x) < 1e15:
        return int(x)
    return x


def prepare_cli(sp, route, tag=''):
    """the model dictionary (JSON of the real to_dict) or the .uwg text of a spec, written beside the output; None when
    the spec cannot travel on this route"""
    outdir = sp['outdir']
    os.makedirs(outdir, exist_ok=True)
    if route in ('model', 'model-ints'):
        m = build(sp)
        src = os.path.join(outdir, 'u1cli_%s%s.json' % (tag, sp['outname']))
        doc = json.loads(json.dumps(m.to_dict(include_refDOE=bool(sp.get('custom')))))
        if route == 'model-ints':
            doc = hand_edited(doc)
        with open(src, 'w') as f:
            json.dump(doc, f)
        return src
    text = param_text(sp)
    if text is None:
        return None
    src = os.path.join(outdir, 'u1cli_%s%s.uwg' % (tag, sp['outname']))
    with open(src, 'w', newline='') as f:
        f.write(text)
    return src


def execute_cli(sp, route='model', optimize=False, tag='', src=None):
    """the spec through `python [-O] -m uwg simulate model|param`: Result with rc, stderr, the written file (records
    are not observable on this route). The model dictionary / parameter file is produced by the real to_dict()."""
    outdir = sp['outdir']
    os.makedirs(outdir, exist_ok=True)
    d = {'spec': sp, 'error': None, 'error_class': None, 'stage': None, 'records': None, 'file': None,
         'file_hash': None, 'info': None, 'rural_before': fhash(sp['epw']), 'model': None, 'poked': 0,
         'optimize': int(optimize), 'route': 'python%s -m uwg simulate %s' % (' -O' if optimize else '', route)}
    out = os.path.join(outdir, sp['outname'])
    if os.path.lexists(out) and not (os.path.exists(out) and os.path.samefile(out, sp['epw'])):
        os.remove(out)      # (an output name that IS the rural file is left alone: that is the scenario)
    if src is None:
        src = prepare_cli(sp, route, tag)
        if src is None:
            return None
    rc, so, se = G.cli(['simulate', 'model' if route.startswith('model') else route, src, sp['epw'], '--new-epw-dir',
                        outdir, '--new-epw-name', sp['outname']], optimize=optimize)
    d['rc'], d['stderr'] = rc, (se or '')[-600:]
    if rc != 0:
        d['error'] = 'exit status %d: %s' % (rc, (se or '').strip().split('\n')[-1][:300])
        d['error_class'] = 'exit %d' % rc
        d['stage'] = 'cli'
    elif os.path.exists(out):
        d['file'], d['file_hash'] = out, fhash(out)
    else:
        d['error'], d['error_class'], d['stage'] = 'exit status 0 but no file written', 'no file', 'cli'
    d['rural_after'] = fhash(sp['epw'])
    return Result(d)


def parallel(jobs, workers=6):
    """run callables (that spend their time in child processes) concurrently; results in order. An exception of a
    job is re-raised here."""
    jobs = list(jobs)
    if not jobs:
        return []
    with ThreadPoolExecutor(max_workers=min(workers, len(jobs))) as ex:
        futs = [ex.submit(j) for j in jobs]
        return [f.result() for f in futs]


# ------------------------------------------------------------------------------------------------- comparisons
def diff_records(a, b, upto=None, groups=('u', 'w', 'x')):
    """first hour (and field) at which two record lists differ, None when identical up to `upto` hours"""
    if a is None or b is None:
        return None if a is b else ('records missing', None, None)
    n = min(len(a), len(b)) if upto is None else upto
    if upto is None and len(a) != len(b):
        return ('number of hourly records', len(a), len(b))
    names = {'u': U_FIELDS, 'w': W_FIELDS, 'x': ('ublTemp', 'sensHeat', 'ElecTotal')}
    for h in range(n):
        x, y = (a[h] if h < len(a) else None), (b[h] if h < len(b) else None)
        if x is None or y is None:
            if x is not y:
                return ('hour %d: record missing in one run' % h, x, y)
            continue
        for g in groups:
            for i, (p, q) in enumerate(zip(x[g], y[g])):
                if p != q:
                    return ('hour %d: %s' % (h, names[g][i]), p, q)
    return None


def diff_files(pa, pb, first=None, upto=None, cols=None):
    """first line at which two written files differ (optionally only data rows first .. first+upto-1 and only the
    given columns); None when identical"""
    with open(pa, newline='', errors='replace') as f:
        a = f.read().split('\n')
    with open(pb, newline='', errors='replace') as f:
        b = f.read().split('\n')
    if first is None:
        if len(a) != len(b):
            return ('number of lines', len(a), len(b))
        for i, (x, y) in enumerate(zip(a, b)):
            if x != y:
                return ('line %d' % i, x[:160], y[:160])
        return None
    for n in range(upto):
        x, y = a[first + n].split(','), b[first + n].split(',')
        if cols:
            x, y = [x[c] for c in cols], [y[c] for c in cols]
        if x != y:
            return ('hour %d (file row %d)' % (n, first + n), x, y)
    return None


def describe(res):
    """short text of what a Result showed (for violation records)"""
    if res is None:
        return None
    return {'route': res.route, 'exception': res.error, 'stage': res.stage, 'file written': bool(res.file),
            'records': None if res.records is None else len(res.records),
            'rural file unchanged': res.rural_before == res.rural_after}


# ------------------------------------------------------------------------------------------------- caller-owned data
def _scribble(x):
    """what a caller may do with ITS OWN dictionary once the call has returned: every number changed, every list
    extended, in place"""
    if isinstance(x, dict):
        for k in list(x):
            if isinstance(x[k], (list, dict)):
                _scribble(x[k])
            elif isinstance(x[k], (int, float)) and not isinstance(x[k], bool):
                x[k] = x[k] + 1
    elif isinstance(x, list):
        for i in range(len(x)):
            if isinstance(x[i], (list, dict)):
                _scribble(x[i])
            elif isinstance(x[i], (int, float)) and not isinstance(x[i], bool):
                x[i] = x[i] + 1
        x.append(-1)


def records_of(ucm, wea, ubl):
    out = []
    for n in range(len(ucm)):
        u, w, b = ucm[n], wea[n], ubl[n]
        if u is None or w is None:
            out.append(None)
            continue
        out.append({'u': [repr(getattr(u, f, None)) for f in U_FIELDS],
                    'w': [repr(getattr(w, f, None)) for f in W_FIELDS],
                    'x': [repr(getattr(b, 'ublTemp', None)), repr(getattr(u, 'sensHeat', None)),
                          repr(getattr(u, 'ElecTotal', None))]})
    return out


def execute_caller_data(sp, scribble=True):
    """(scribble=False: the plain run of the dictionary route - from_dict of the JSON round trip of to_dict, nothing
    else; the reference for the dictionary-route members of a spec with custom vectors, whose dictionary form is not
    the object form when an attribute was re-assigned after construction, see DESIGN 3.1 on `cop`)
    circumstance 6, the dictionary route: the parameters travel as the caller's own dictionary (JSON round trip of
    the real to_dict(), as the command line does). Demanded: (a) from_dict leaves the dictionary exactly as it found it
    (no key removed, no value replaced); (b) once generate() has returned, the caller goes on using its dictionary
    (every number changed, every list extended in place) - simulate() and write_epw() must give the plain result;
    (c) custom reference vectors handed in are left as they were (bit-exact digest); (d) the records the caller keeps
    from this run do not change when the same object is generated and simulated again for another window.
    Returns (Result, [messages])."""
    u = U.uwg_mod()
    msgs = []
    if sp.get('outdir'):
        os.makedirs(sp['outdir'], exist_ok=True)
    src = build(sp)
    custom_digest = None
    if sp.get('custom'):
        custom_digest = U.fingerprint([src.ref_bem_vector, src.ref_sch_vector])
    d = json.loads(json.dumps(src.to_dict(include_refDOE=bool(sp.get('custom')))))
    snap = G.snapshot(d)
    r = {'spec': sp, 'error': None, 'error_class': None, 'stage': None, 'records': None, 'file': None,
         'file_hash': None, 'info': None, 'rural_before': fhash(sp['epw']), 'rural_after': None, 'model': None,
         'route': 'library, from_dict(caller\'s dictionary), dictionary edited in place after generate()', 'rc': None,
         'stderr': None, 'poked': 0, 'optimize': sys.flags.optimize}
    m = None
    stage = 'construct'
    try:
        m = u.UWG.from_dict(d, epw_path=sp['epw'], new_epw_dir=sp['outdir'], new_epw_name=sp['outname'])
        if sp.get('precision') is not None:
            m.epw_precision = sp['precision']
        if not G.plain_equal(d, snap):
            msgs.append('UWG.from_dict changed the dictionary it was given: %s' % G.where_differs(snap, d))
            d = G.snapshot(snap)
        stage = 'generate'
        with core.quiet():
            m.generate()
        # (the week lists of `ref_sch_vector` are left alone: on the unchanged tree SchDef keeps the lists it is given
        #  and generate() installs the custom SchDef object itself, so those lists ARE the generated model's
        #  schedules - recorded as an observation by C05, see `schedule_lists_are_live`)
        if scribble:
            _scribble({k: v for k, v in d.items() if k != 'ref_sch_vector'})
        stage = 'simulate'
        with core.quiet():
            m.simulate()
        stage = 'write'
        with core.quiet():
            m.write_epw()
        stage = None
    except Exception as e:  # noqa: BLE001
        r['error'] = '%s: %s' % (type(e).__name__, str(e)[:300])
        r['error_class'] = type(e).__name__
    r['stage'] = stage
    if m is not None and stage is None:
        r['info'] = _info(m)
        r['records'] = full_records(m)
        r['file'], r['file_hash'] = m.new_epw_path, fhash(m.new_epw_path)
        if custom_digest is not None and U.fingerprint([src.ref_bem_vector, src.ref_sch_vector]) != custom_digest:
            msgs.append('the custom reference vectors the caller handed in were modified by the run')
        # (d) the caller keeps the records; the object is used again
        kept = (m.UCMData, m.WeatherData, m.UBLData)
        try:
            if scribble:
                m.month = (m.month % 12) + 1
                with core.quiet():
                    m.generate()
                    m.simulate()
                again = records_of(*kept)
                dd = diff_records(r['records'], again)
                if dd:
                    msgs.append('records kept by the caller changed when the same object was generated and simulated '
                                'again: %s: %s -> %s' % dd)
        except Exception:  # noqa: BLE001 (the second window is not part of the scenario)
            pass
    r['rural_after'] = fhash(sp['epw'])
    r['model'] = m
    return Result(r), msgs


def schedule_lists_are_live(sp):
    """Observation about the unchanged tree (not demanded by any tie): is a week list of the caller's
    `ref_sch_vector` dictionary the very list the generated model reads its schedule from? Returns True / False /
    None (no custom vectors)."""
    if not sp.get('custom'):
        return None
    u = U.uwg_mod()
    src = build(sp)
    d = json.loads(json.dumps(src.to_dict(include_refDOE=True)))
    m = u.UWG.from_dict(d, epw_path=sp['epw'], new_epw_dir=sp['outdir'], new_epw_name='alias_' + sp['outname'])
    with core.quiet():
        m.generate()
    ids = set(id(w) for sd in d['ref_sch_vector'] for w in sd.values() if isinstance(w, list))
    return any(id(getattr(s, '_' + k, None)) in ids for s in m.Sch for k in ('elec', 'gas', 'light', 'occ', 'cool',
                                                                            'heat', 'swh'))


# ------------------------------------------------------------------------------------------------- neighbours
def execute_with_neighbours(sp, other):
    """circumstance 5: another, different model lives in the interpreter: it is generated and simulated BEFORE the
    model of the spec is built, generated again between generate() and simulate() of the spec's model and simulated
    between its simulate() and write_epw(). Returns (Result of the spec's model, message about class-level state or
    None)."""
    g0 = G.class_level_digest()
    ro = execute(other)
    r = {'spec': sp, 'error': None, 'error_class': None, 'stage': None, 'records': None, 'file': None,
         'file_hash': None, 'info': None, 'rural_before': fhash(sp['epw']), 'rural_after': None, 'model': None,
         'route': 'library, interleaved with another model (%s)' % (other.get('label') or 'other parameters'),
         'rc': None, 'stderr': None, 'poked': 0, 'optimize': sys.flags.optimize}
    m = None
    stage = 'construct'
    try:
        m = build(sp)
        b = build(variant(other, outname='nb_' + other['outname']))
        stage = 'generate'
        with core.quiet():
            b.generate()
            m.generate()
            b.simulate()
            b.generate()
        stage = 'simulate'
        with core.quiet():
            m.simulate()
            b.simulate()
        stage = 'write'
        with core.quiet():
            b.write_epw()
            m.write_epw()
        stage = None
    except Exception as e:  # noqa: BLE001
        r['error'] = '%s: %s' % (type(e).__name__, str(e)[:300])
        r['error_class'] = type(e).__name__
    r['stage'] = stage
    if m is not None and stage is None:
        r['info'] = _info(m)
        r['records'] = full_records(m)
        r['file'], r['file_hash'] = m.new_epw_path, fhash(m.new_epw_path)
    r['rural_after'] = fhash(sp['epw'])
    r['model'] = m
    msg = None
    if G.class_level_digest() != g0:
        msg = 'module-level / class-level data of the package changed while two models were run'
    if ro.error:
        msg = (msg or '') + ' (the neighbour model raised %s)' % ro.error
    return Result(r), msg


# ------------------------------------------------------------------------------------------------- the six at once
ALL = ('observed', 'DEBUG', 'python -O', 'cli model', 'cli param', 'cli -O model', 'cli model (whole numbers typed as ints)',
       'neighbours', 'caller data')


def run_circumstances(work, sp, other=None, members=ALL, tag='c'):
    """The run of `sp` under the circumstances named in `members`; returns [(name, Result, [extra messages])] with the
    plain run first. Child interpreters and command lines run concurrently with the in-process members. Every member
    writes to its own output name inside sp['outdir'] (the same directory: the default-name logic is not in play)."""
    base = sp['outname']

    def named(suffix, **kw):
        return variant(sp, outname='%s_%s' % (suffix, base), **kw)
    jobs, names = [], []
    if 'python -O' in members:
        names.append('python -O')
        jobs.append(lambda: execute_child(work, [named('O')], optimize=True, tag=tag)[0])
    for nm, route, opt in (('cli model', 'model', False), ('cli param', 'param', False), ('cli -O model', 'model', True),
                           ('cli -O param', 'param', True), ('cli model (whole numbers typed as ints)', 'model-ints', False)):
        if nm in members:
            spc = named(''.join(c for c in nm if c.isalnum()))
            src = prepare_cli(spc, route, tag)          # (in this thread: it runs code of the package)
            if src is None:
                continue
            names.append(nm)
            jobs.append(lambda route=route, opt=opt, spc=spc, src=src: execute_cli(spc, route, optimize=opt, tag=tag,
                                                                                   src=src))
    out = []
    with ThreadPoolExecutor(max_workers=max(1, len(jobs))) as ex:
        futs = [ex.submit(j) for j in jobs]
        out.append(('plain', execute(named('plain')), []))
        if sp.get('custom'):
            r, msgs = execute_caller_data(named('plaindict'), scribble=False)
            r.route = 'library, from_dict(JSON of to_dict)'
            out.append((DICT_PLAIN, r, msgs))
        if 'observed' in members:
            out.append(('observed', execute(named('obs', observe=STAGES)), []))
        if 'DEBUG' in members:
            out.append(('DEBUG', execute(named('dbg', debug=True)), []))
        if 'neighbours' in members and other is not None:
            r, msg = execute_with_neighbours(named('nb'), variant(other, outdir=sp['outdir']))
            out.append(('neighbours', r, [msg] if msg else []))
        if 'caller data' in members:
            r, msgs = execute_caller_data(named('cd'))
            out.append(('caller data', r, msgs))
        for nm, f in zip(names, futs):
            r = f.result()
            if r is not None:
                out.append((nm, r, []))
    return out


DICT_PLAIN = 'plain, dictionary route'


def reference_for(out, name):
    """the run a member is compared with: the plain library run - for the members that travel as a dictionary
    (command line `model`, caller data) of a spec with custom vectors the plain run of the dictionary route"""
    d = dict((nm, r) for nm, r, _ in out)
    if DICT_PLAIN in d and (name.startswith('cli') or name == 'caller data'):
        return d[DICT_PLAIN]
    return d['plain']


def against_plain(plain, res, file_too=True):
    """(b) of every circumstance tie: the observable of a run under a circumstance equals the one of the plain run -
    exception class / exit status, hourly records (where the route shows them), written bytes, rural file untouched.
    Returns None or (what, observed, expected)."""
    if res.rural_before != res.rural_after:
        return ('the rural file was modified', res.rural_after, res.rural_before)
    if bool(plain.error) != bool(res.error):
        return ('verdict', res.error or 'completed, file written', plain.error or 'completed, file written')
    if plain.error:
        return None
    if res.records is not None and plain.records is not None:
        d = diff_records(plain.records, res.records)
        if d:
            return ('hourly records differ from the plain run: %s' % d[0], d[2], d[1])
    if file_too and res.file_hash != plain.file_hash:
        d = diff_files(plain.file, res.file) if res.file and plain.file else ('file', res.file, plain.file)
        return ('written file differs from the plain run: %s' % (d[0] if d else '?'), d[2] if d else None,
                d[1] if d else None)
    return None


# ------------------------------------------------------------------------------------------------- C01: protected rural file
PROTECTED_HOWS = ['default-dir', 'explicit-dir', 'dotted-dir', 'symlinked-dir', 'symlinked-name', 'rural-via-symlink',
                  'hardlinked-name', 'symlink-chain', 'relative-symlink', 'updir-spelling']


def protected_model(UWG, how, d, rural):
    """a model whose output path names the rural file `rural` (inside the fresh directory d) in the way `how`;
    returns (model, rural path as given to the model)"""
    name = os.path.basename(rural)
    arg = rural
    if how == 'default-dir':
        m = UWG(rural, new_epw_name=name)
    elif how == 'explicit-dir':
        m = UWG(rural, new_epw_dir=d, new_epw_name=name)
    elif how == 'dotted-dir':
        m = UWG(rural, new_epw_dir=os.path.join(d, '.', ''), new_epw_name=name)
    elif how == 'updir-spelling':
        os.makedirs(os.path.join(d, 'sub'), exist_ok=True)
        m = UWG(rural, new_epw_dir=os.path.join(d, 'sub', '..'), new_epw_name=name)
    elif how == 'symlinked-dir':
        ln = d.rstrip(os.sep) + '_link'
        os.symlink(d, ln)
        m = UWG(rural, new_epw_dir=ln, new_epw_name=name)
    elif how in ('symlinked-name', 'relative-symlink', 'symlink-chain', 'hardlinked-name'):
        out = os.path.join(d, 'out')
        os.makedirs(out, exist_ok=True)
        tgt = os.path.join(out, 'morphed.epw')
        if how == 'symlinked-name':
            os.symlink(rural, tgt)
        elif how == 'relative-symlink':
            os.symlink(os.path.join('..', name), tgt)
        elif how == 'symlink-chain':
            os.symlink(rural, os.path.join(out, 'hop.epw'))
            os.symlink(os.path.join(out, 'hop.epw'), tgt)
        else:
            os.link(rural, tgt)
        m = UWG(rural, new_epw_dir=out, new_epw_name='morphed.epw')
    elif how == 'rural-via-symlink':
        os.makedirs(os.path.join(d, 'in'), exist_ok=True)
        arg = os.path.join(d, 'in', 'weather.epw')
        os.symlink(rural, arg)
        m = UWG(arg, new_epw_dir=d, new_epw_name=name)
    else:
        raise KeyError(how)
    return m, arg


def child_protected(base, hows, source, full):
    """(runs inside the child, possibly under -O) for every way `how` of naming the rural file as the output: a fresh
    directory with a copy of `source`, the real write_epw (synthetic one-hour state, or - `full` - after a real
    generate + simulate of one day), rural bytes hashed before / after. Returns per how what happened."""
    import shutil
    from uwg import UWG
    out = []
    for k, how in enumerate(hows):
        d = os.path.join(base, '%02d_%s' % (k, how))
        os.makedirs(d)
        rural = os.path.join(d, 'rural.epw')
        shutil.copy(source, rural)
        h0 = fhash(rural)
        row = {'how': how, 'raised': None, 'stage': None}
        try:
            m, arg = protected_model(UWG, how, d, rural)
            row['stage'] = 'write_epw'
            if full:
                m._read_input(U.rp(U.PARAM_SGP))
                m.month, m.day, m.nday, m.dtsim = 1, 1, 1, 300
                with core.quiet():
                    m.generate()
                    m.simulate()
            else:
                m._read_epw()
                m.UCMData = [types.SimpleNamespace(canTemp=300.0, Tdp=10.0, canRHum=50.0)]
                m.WeatherData = [types.SimpleNamespace(wind=2.0)]
                m.simTime = types.SimpleNamespace(timeInitial=8)
                m.epw_precision = 1
            with core.quiet():
                m.write_epw()
        except Exception as e:  # noqa: BLE001
            row['raised'] = type(e).__name__
            row['message'] = str(e)[:160]
        row['rural_unchanged'] = fhash(rural) == h0
        row['bytes'] = [os.path.getsize(rural)]
        out.append(row)
    return out


def small_epw(src, dst, nrows=48):
    """the 8 header lines and the first nrows data lines of a rural file (enough for a synthetic write)"""
    with open(src, newline='', errors='ignore') as f:
        lines = f.read().split('\n')
    with open(dst, 'w', newline='') as f:
        f.write('\n'.join(lines[:8 + nrows]) + '\n')
    return dst


# ------------------------------------------------------------------------------------------------- C02: other parameters
# one legal alternative per documented parameter (none of them is the minimum wind speed or part of the window):
# whatever the urban parameters are, record n is rural row n and the written wind is max(rural wind, windmin)
ALT_PARAMS = {
    'h_wind': [2.0, 30.0, 5.5], 'h_temp': [2.5, 10.0], 'h_ref': [120.0], 'h_ubl1': [750.0], 'h_ubl2': [60.0],
    'h_obs': [0.5], 'c_circ': [1.0], 'c_exch': [0.8], 'maxday': [180.0], 'maxnight': [25.0], 'bldheight': [25.0],
    'h_mix': [0.5], 'blddensity': [0.35], 'vertohor': [1.2], 'charlength': [700.0], 'albroad': [0.2],
    'droad': [0.75], 'sensanth': [12.0], 'grasscover': [0.2], 'treecover': [0.05], 'vegstart': [3], 'vegend': [11],
    'albveg': [0.3], 'rurvegcover': [0.6], 'latgrss': [0.5], 'lattree': [0.7], 'kroad': [1.5], 'croad': [1.8e6],
    'sensocc': [90.0], 'latfocc': [0.25], 'radfocc': [0.25], 'radfequip': [0.4], 'radflight': [0.6], 'shgc': [0.4],
    'albroof': [0.3], 'glzr': [0.4], 'vegroof': [0.2], 'albwall': [0.3], 'flr_h': [3.2], 'autosize': [True],
    'zone': ['5A'],
}
HEIGHTS = ('h_wind', 'h_temp', 'h_ref', 'h_obs', 'h_ubl1', 'h_ubl2')
