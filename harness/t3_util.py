"""Shared helpers of the third strengthening round (C14, C15, C16, C20).

The recurring reason a change stayed invisible: a quantity that is *legal to set* was constant in every state the
ties built, because the unchanged code never reads it or because it coincides with another quantity in every
shipped example.  The helpers here build the missing families:

* `building_documented(rng, how)`: every attribute that the `Building` docstring documents and that is NOT an
  input of the step (`canyon_fraction`, `msys`, `FanMax`, `area_floor`, `RadF*`, `Twb`, `Tdp`, the nominal
  `initial_temp`, ...) and every *output* of the step (stale values of the previous step) set to a non-default
  legal value before the step - the step must not depend on any of them;
* `full_building_attrs(...)`: a stand-in for a Building that carries *all* documented attributes (so that a reader of
  any of them gets a legal value, not an AttributeError) with `nFloor` tied to `floor_height` the way
  `BEMCalc` ties it;
* `STOCKS` / `stock_fracs(rng, kind)`: the shapes of building stock the `bld` setter accepts - one entry, thirty
  entries, zero fractions, sums anywhere within its 1e-2 tolerance on both sides of one;
* `dragonfly_typology(m, rows)`: the per-typology assignment on `model.BEM[i]` after `generate()` that the
  Dragonfly export performs (tests/test_fatal_error.py);
* `SMALL_SCALES`, `scaled_system`: tridiagonal systems written in very small / very large numbers.
"""
from fractions import Fraction as F


def _rq(rng, lo, hi, den):
    return F(rng.randint(int(round(lo * den)), int(round(hi * den))), den)


# ---------------------------------------------------------------------------------------------- Building attributes
# (attribute, default of a freshly constructed Building or None when it does not exist yet, generator of a legal
#  non-default value).  None of them is an input of BEMCalc as the Lean model `Uwg.Hvac.bemCalc` has it.
BUILDING_PASSIVE = [
    ('canyon_fraction', F(1), lambda r: r.choice([F(0), F(1, 2), F(4, 5), F(1, 4), _rq(r, 0, 0.99, 100)])),
    ('msys', None, lambda r: _rq(r, 0.001, 0.5, 1000)),
    ('FanMax', None, lambda r: _rq(r, 0.1, 40, 10)),
    ('area_floor', None, lambda r: _rq(r, 50, 50000, 1)),
    ('RadFOcc', None, lambda r: _rq(r, 0, 1, 20)),
    ('LatFOcc', None, lambda r: _rq(r, 0, 1, 20)),
    ('RadFEquip', None, lambda r: _rq(r, 0, 1, 20)),
    ('RadFLight', None, lambda r: _rq(r, 0, 1, 20)),
    ('Twb', None, lambda r: _rq(r, 270, 300, 4)),
    ('Tdp', None, lambda r: _rq(r, 265, 295, 4)),
    ('indoorRhum', None, lambda r: _rq(r, 5, 100, 2)),
    ('copAdj', None, lambda r: _rq(r, 0.5, 9, 10)),             # documented twin of cop_adj; never the COP in force
    ('initial_temp', F(293), lambda r: _rq(r, 280, 305, 4)),
    ('int_heat', None, lambda r: _rq(r, 0, 90, 4)),              # recomputed by the step
    ('nFloor', None, lambda r: _rq(r, 1, 40, 4)),                # recomputed by the step
]
# outputs of the step: a stale value of "the previous step" must not leak into this one
BUILDING_STALE = ['sensCoolDemand', 'sensHeatDemand', 'dehumDemand', 'coolConsump', 'heatConsump', 'sensWaste',
                  'Qhvac', 'Qheat', 'ElecTotal', 'GasTotal', 'fluxMass', 'fluxWall', 'fluxRoof', 'fluxSolar',
                  'fluxWindow', 'fluxInterior', 'fluxInfil', 'fluxVent']
PASSIVE_NAMES = [a for a, _, _ in BUILDING_PASSIVE]


def building_documented(rng, how=None):
    """'attr=p/q;attr=p/q' for a selection of the documented-but-passive Building attributes (and stale outputs).
    how: 'none' | 'one' | 'some' | 'all' | 'stale' (only the outputs of the previous step)."""
    how = how or rng.choice(['none', 'one', 'some', 'all', 'all', 'stale'])
    if how == 'none':
        return ''
    if how == 'stale':
        pick, stale = [], list(BUILDING_STALE)
    elif how == 'one':
        pick, stale = [rng.choice(BUILDING_PASSIVE)], []
    elif how == 'some':
        pick = rng.sample(BUILDING_PASSIVE, rng.randint(2, 6))
        stale = rng.sample(BUILDING_STALE, rng.randint(0, 4))
    else:
        pick, stale = list(BUILDING_PASSIVE), list(BUILDING_STALE)
    items = ['%s=%s' % (a, g(rng)) for a, _, g in pick]
    items += ['%s=%s' % (a, _rq(rng, 0.25, 400, 4)) for a in stale]
    return ';'.join(items)


def parse_documented(text):
    out = []
    for item in [x for x in (text or '').split(';') if x]:
        a, v = item.split('=')
        out.append((a, F(v)))
    return out


def apply_documented(obj, text, conv=lambda v: v):
    """Assign the attributes of `building_documented` on a (real or fractionised) Building; every value is legal,
    so an exception here is not expected."""
    for a, v in parse_documented(text):
        setattr(obj, a, conv(v))


def documented_view(b):
    """The non-default documented-but-passive attributes of a live (float) Building as 'a=v;...' (repr of the
    floats, so that the state can be re-run exactly)."""
    items = []
    for a, dflt, _ in BUILDING_PASSIVE:
        if a in ('int_heat', 'nFloor', 'indoorRhum', 'initial_temp', 'msys', 'FanMax', 'Twb', 'Tdp'):
            continue                     # carried by every object of a live run; not what a run varies
        if hasattr(b, a):
            v = getattr(b, a)
            if isinstance(v, (int, float)) and (dflt is None or v != float(dflt)):
                items.append('%s=%s' % (a, F(repr(float(v)))))
    return ';'.join(items)


def full_building_attrs(rng, known, bld_height):
    """Attribute dictionary of a Building stand-in carrying every documented attribute.  `known` are the attributes
    the caller fixes (must contain nFloor); `floor_height` is chosen so that
    nFloor == max(bld_height / floor_height, 1), the relation `BEMCalc` establishes: floor_height =
    bld_height / nFloor above one floor, and floor_height >= bld_height (1, 1.22, 1.25, 2, up to 4 times the
    building height - a low-rise district of warehouses / supermarkets) where the clamp to one floor is active."""
    nfl = known['nFloor']
    if nfl > 1:
        fh = bld_height / nfl
    else:
        fh = bld_height * rng.choice([F(1), F(5, 4), F(2), F(61, 50), _rq(rng, 1, 4, 20)])
    attrs = {a: g(rng) for a, _, g in BUILDING_PASSIVE}
    attrs.update({a: _rq(rng, 0.25, 400, 4) for a in BUILDING_STALE})
    attrs.update(floor_height=fh, int_heat_night=_rq(rng, 0, 30, 4), int_heat_day=_rq(rng, 0, 60, 4),
                 int_heat_frad=_rq(rng, 0, 0.7, 20), int_heat_flat=_rq(rng, 0, 0.5, 20),
                 condtype=rng.choice(['AIR', 'WATER']), cop=_rq(rng, 1.5, 6, 10), cop_adj=_rq(rng, 1.5, 6, 10),
                 coolcap=_rq(rng, 30, 400, 2), heateff=_rq(rng, 0.4, 1, 20), heat_cap=_rq(rng, 30, 999, 1),
                 cool_setpoint_day=_rq(rng, 295, 300, 2), cool_setpoint_night=_rq(rng, 296, 303, 2),
                 heat_setpoint_day=_rq(rng, 290, 294, 2), heat_setpoint_night=_rq(rng, 286, 293, 2),
                 indoor_hum=_rq(rng, 0.001, 0.02, 2000), latWaste=_rq(rng, 0, 50, 2))
    attrs.update(known)
    return attrs


def element_extras(rng):
    """Documented Element attributes a surface stand-in carries beside the ones its reader is modelled to use
    (legal values; a routine that starts reading one of them gets a number, not an AttributeError)."""
    return dict(albedo=_rq(rng, 0.05, 0.6, 100), emissivity=_rq(rng, 0.8, 0.98, 100),
                vegcoverage=_rq(rng, 0, 1, 10), t_init=_rq(rng, 285, 300, 2), horizontal=rng.choice([0, 1]),
                waterStorage=F(0), infra=_rq(rng, -80, 80, 2), lat=_rq(rng, 0, 60, 2), solAbs=_rq(rng, 0, 400, 2),
                aeroCond=_rq(rng, 2, 30, 4), T_ext=_rq(rng, 270, 320, 4), T_int=_rq(rng, 285, 300, 4),
                flux=_rq(rng, -100, 300, 2))


def bemdef_extras(rng):
    """Documented BEMDef attributes beside building / wall / roof / frac / fl_area."""
    return dict(bldtype=rng.choice(['largeoffice', 'warehouse', 'custom']), builtera=rng.choice(['pre80', 'pst80', 'new']),
                zonetype=rng.randint(1, 16), elec=_rq(rng, 0, 20, 4), gas=_rq(rng, 0, 5, 4),
                light=_rq(rng, 0, 20, 4), Qocc=_rq(rng, 0, 10, 4), swh=_rq(rng, 0, 2, 20), Nocc=_rq(rng, 0, 1, 100),
                ElecTotal=_rq(rng, 0, 90, 4), T_wallex=_rq(rng, 270, 320, 4), T_wallin=_rq(rng, 285, 300, 4),
                T_roofex=_rq(rng, 270, 330, 4), T_roofin=_rq(rng, 285, 300, 4))


# ---------------------------------------------------------------------------------------------- building stocks
def stock_fracs(rng, kind, nb):
    """Fractions of a stock of `nb` archetypes as the `bld` setter accepts them (every entry in [0, 1],
    |sum - 1| < 1e-2), by kind:
      exact      - sum exactly one (what every shipped example has)
      under/over - sum in (0.99, 1) / (1, 1.01), e.g. 0.4 + 0.595, three times 0.333 / 0.335
      thirds     - n equal decimals that do not add up (0.333.., 0.1428..)
      zero       - at least one entry with fraction 0
    """
    if nb == 0:
        return []
    raw = [F(rng.randint(1, 10)) for _ in range(nb)]
    if kind == 'zero' and nb > 1:
        for j in rng.sample(range(nb), rng.randint(1, nb - 1)):
            raw[j] = F(0)
    tot = sum(raw)
    fr = [x / tot for x in raw]
    if kind in ('exact', 'zero'):
        return fr
    if kind == 'thirds':
        d = rng.choice([3, 4])
        fr = [F(int(F(1, nb) * 10 ** d + rng.choice([0, 0, 1])), 10 ** d) for _ in range(nb)]
        if abs(sum(fr) - 1) < F(1, 100) and sum(fr) != 1:
            return fr
        kind = 'under'
    eps = F(rng.randint(1, 99), 10000)                    # 0.0001 .. 0.0099
    target = 1 - eps if kind == 'under' else 1 + eps
    fr = [x * target for x in fr]
    if max(fr) > 1:                                       # a single entry cannot exceed one
        fr = [x / tot * (1 - eps) for x in raw]
    return fr


STOCK_KINDS = ['exact', 'under', 'over', 'thirds', 'zero']

# stocks for live runs: (label, [(type, era, fraction)...]); every one is accepted by the `bld` setter
LIVE_STOCKS = [
    ('sum-0.995', [('largeoffice', 'pst80', 0.4), ('midriseapartment', 'pst80', 0.595)]),
    ('sum-1.005-three', [('largeoffice', 'pst80', 0.335), ('midriseapartment', 'pre80', 0.335),
                         ('smalloffice', 'new', 0.335)]),
    ('three-thirds-0.999', [('largeoffice', 'pst80', 0.333), ('hospital', 'new', 0.333),
                            ('warehouse', 'pst80', 0.333)]),
    ('zero-fraction', [('largeoffice', 'pst80', 0.0), ('midriseapartment', 'pst80', 1.0)]),
    ('one-entry-0.991', [('midriseapartment', 'new', 0.991)]),
    ('two-0.5045', [('largeoffice', 'new', 0.5045), ('smalloffice', 'pre80', 0.5045)]),
]


def thirty_stock(total=1.0):
    """Thirty archetypes (15 types x 2 eras) with equal shares adding up to `total` (as decimals)."""
    types = ['fullservicerestaurant', 'hospital', 'largehotel', 'largeoffice', 'medoffice', 'midriseapartment',
             'outpatient', 'primaryschool', 'quickservicerestaurant', 'secondaryschool', 'smallhotel',
             'smalloffice', 'standaloneretail', 'stripmall', 'supermarket']
    out = []
    for t in types:
        for era in ('pre80', 'new'):
            out.append((t, era, round(total / 30.0, 6)))
    return out


# ---------------------------------------------------------------------------------------------- Dragonfly pattern
DF_ROWS = [
    # floor_height, canyon_fraction, glazing_ratio, shgc, wall albedo, roof albedo, roof vegcoverage
    (4.0, 0.5, 0.65, 0.35, 0.08, 0.5, 0.5),
    (3.05, 0.8, 0.1499, 0.54, 0.15, 0.2, 0.2),
    (4.0, 0.25, 0.3, 0.251, 0.08, 0.2, 0.0),
]


def dragonfly_typology(m, rows=DF_ROWS, extra=None):
    """What the Dragonfly export does after the stock is computed (tests/test_fatal_error.py): per-typology
    assignment of documented attributes on model.BEM[i]; `extra` = further documented Building attributes."""
    for i, bem in enumerate(m.BEM):
        r = rows[i % len(rows)]
        bem.building.floor_height = r[0]
        bem.building.canyon_fraction = r[1]
        bem.building.glazing_ratio = r[2]
        bem.building.shgc = r[3]
        bem.wall.albedo = r[4]
        bem.roof.albedo = r[5]
        bem.roof.vegcoverage = r[6]
        for a, v in (extra or {}).items():
            setattr(bem.building, a, v)


# ---------------------------------------------------------------------------------------------- scales
# powers of ten by which a well-conditioned system / a diffusion number is multiplied: an exact solver and an exact
# diffusion step are invariant, any absolute threshold (1e-10, 1e-6, 1e-3, ...) inside them is not
SMALL_SCALES = [F(1, 10 ** k) for k in (3, 6, 9, 10, 11, 12, 15, 20, 30)]
LARGE_SCALES = [F(10 ** k) for k in (3, 9, 12, 20)]
