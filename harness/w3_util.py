"""Round-6 helpers (sub-agent W3) for C12 / C13 / C18.

* an independent calendar (365-day year) for live runs: month / day of the instant `elapsed` seconds after the
  configured start date - never read from the model clock;
* the family of runs that cross every one of the twelve month ends with a season boundary placed exactly there;
* `SeasonWatch`: the C18 oracle around every solarcalcs call and every SurfFlux call of a vegetated horizontal
  element of a live run, judged against that calendar and the CONFIGURED season;
* `light_physics`: the real simulate() loop (clock, forcing hand-over, real SolarCalcs, real rural and road
  SurfFlux) with the expensive energy balances (building / canyon / boundary-layer / vertical diffusion) left out,
  so that a 2-day run costs ~0.2 s; the thorough tier runs the same members with the full physics.
"""
import contextlib

import core

MDAYS = [31, 28, 31, 30, 31, 30, 31, 31, 30, 31, 30, 31]
MNAME = ['Jan', 'Feb', 'Mar', 'Apr', 'May', 'Jun', 'Jul', 'Aug', 'Sep', 'Oct', 'Nov', 'Dec']


def calendar_date(month0, day0, elapsed):
    """(month, day) `elapsed` seconds after 00:00 of day0/month0 in a 365-day year (wraps at the year end)."""
    doy = sum(MDAYS[:month0 - 1]) + day0 - 1 + int(elapsed // 86400)
    doy %= 365
    mth = 0
    while doy >= MDAYS[mth]:
        doy -= MDAYS[mth]
        mth += 1
    return mth + 1, doy + 1


def month_end_members(both=False):
    """every month end M | M+1 (M = 1..12; 12 | 1 is the year end), a 2-day run starting on the last day of M, the
    season boundary placed at that month end: either the season ENDS with M (day 1 in season, day 2 off) or it STARTS
    with M+1 (day 1 off, day 2 in season). `both` -> both placements per month end, else alternating."""
    out = []
    for M in range(1, 13):
        nxt = M % 12 + 1
        ends = dict(vegstart=max(1, M - 2), vegend=M)
        starts = dict(vegstart=nxt, vegend=min(12, nxt + 2))
        for n, (what, season) in enumerate((('ends', ends), ('starts', starts))):
            if both or n == M % 2:
                out.append(dict(label='%d %s -> 1 %s, season %d..%d (%s at this month end)' % (
                    MDAYS[M - 1], MNAME[M - 1], MNAME[nxt - 1], season['vegstart'], season['vegend'], what),
                    month=M, day=MDAYS[M - 1], nday=2, **season))
    return out


class SeasonWatch(object):
    """C18 oracle on a live run. `begin(model)` after generate(); problems / counts are collected over all runs."""

    def __init__(self, max_problems=4):
        core.repo_python_path()
        import uwg.solarcalcs as SC
        import uwg.element as EL
        self.SC, self.EL = SC, EL
        self.orig = (SC.SolarCalcs.solarcalcs, EL.Element.SurfFlux)
        self.problems, self.counts = [], {}
        self.cfg = None
        self.max = max_problems

    def begin(self, m, site=None):
        kinds = {id(m.UCM.road): 'road', id(m.rural): 'rural'}
        for b in m.BEM:
            kinds[id(b.roof)] = 'roof'
        self.cfg = dict(vs=m.vegstart, ve=m.vegend, month0=m.month, day0=m.day, dt=m.dtsim, kinds=kinds, k=0, tm=None,
                        site=site, first=len(self.problems), clock_differs=None)

    def _count(self, key):
        self.counts[key] = self.counts.get(key, 0) + 1

    def _where(self, sim):
        c = self.cfg
        mth, day = calendar_date(c['month0'], c['day0'], c['k'] * c['dt'])
        return 'step %d of a run started %d/%d (dt %s s)%s: calendar date %d/%d, hour %.2f; the model clock shows month ' \
               '%s day %s; configured season %d..%d' % (
                   c['k'], c['month0'], c['day0'], c['dt'], '' if not c['site'] else ' at %s' % (c['site'],), mth, day,
                   (c['k'] * c['dt'] % 86400) / 3600., sim.month, sim.day, c['vs'], c['ve'])

    def _problem(self, msg):
        if len(self.problems) < self.max:
            self.problems.append(msg)
        else:
            self.problems.append(None)

    def __enter__(self):
        orig_solar, orig_surf = self.orig
        w = self

        def solar_wrap(self):
            out = orig_solar(self)
            c = w.cfg
            if c is None:
                return out
            c['k'] += 1
            tm = calendar_date(c['month0'], c['day0'], c['k'] * c['dt'])[0]
            c['tm'] = tm
            if self.simTime.month != tm and c['clock_differs'] is None:
                c['clock_differs'] = w._where(self.simTime)
            if self.dir + self.dif > 0:
                ins = c['vs'] <= tm <= c['ve']
                heat = (self.UCM.treeSensHeat, self.UCM.treeLatHeat)
                if not ins:
                    w._count('solarcalcs:off-season:month-%d' % tm)
                    if heat != (0., 0.):
                        w._problem('reflection model releases vegetation heat %r outside the configured season; %s'
                                   % (heat, w._where(self.simTime)))
                elif self.UCM.vegcover > 0 and self.UCM.SolRecRoad > 0 and self.parameter.vegAlbedo < 1:
                    w._count('solarcalcs:in-season:month-%d' % tm)
                    if not heat[0] + heat[1] > 0:
                        w._problem('reflection model treats the road as bare (vegetation heat %r) inside the configured '
                                   'season; %s' % (heat, w._where(self.simTime)))
            return out

        def surf_wrap(self, forc, parameter, simTime, *a, **k):
            r = orig_surf(self, forc, parameter, simTime, *a, **k)
            c = w.cfg
            if c is not None and c['tm'] is not None and self.horizontal and self.solRec > 0 and self.vegcoverage > 0 \
                    and parameter.vegAlbedo != self.albedo:
                ins = c['vs'] <= c['tm'] <= c['ve']
                kind = c['kinds'].get(id(self), 'other')
                w._count('%s:%s' % (kind, 'in-season' if ins else 'off-season'))
                bare = (1.0 - self.albedo) * self.solRec
                if (self.solAbs == bare) == ins:
                    w._problem('%s (%s): absorbed sunlight %r is %s the bare-ground value %r; %s' % (
                        kind, self.name, self.solAbs, 'equal to' if self.solAbs == bare else 'not', bare,
                        w._where(simTime)))
            return r
        self.SC.SolarCalcs.solarcalcs = solar_wrap
        self.EL.Element.SurfFlux = surf_wrap
        return self

    def __exit__(self, *a):
        self.SC.SolarCalcs.solarcalcs, self.EL.Element.SurfFlux = self.orig
        self.cfg = None
        return False

    def new_problems(self):
        return [p for p in self.problems[self.cfg['first']:] if p]


@contextlib.contextmanager
def light_physics(m):
    """real simulate() loop, real clock, real forcing hand-over, real SolarCalcs and real rural / road SurfFlux; the
    building / canyon / boundary-layer energy balances and the vertical diffusion are left out (the air of the canyon
    keeps its initial state, the road sees no long-wave exchange)."""
    import uwg.uwg as UM

    def _urbflux(UCM, UBL, BEM, forc, parameter, simTime, RSM):
        UCM.road.infra = 0.
        UCM.road.SurfFlux(forc, parameter, simTime, UCM.canHum, UCM.canTemp, UCM.canWind, 2., 0.)
        UCM.roadTemp = UCM.road.layerTemp[0]
        return UCM, UBL, BEM

    def _noop(*a, **k):
        return None
    saved = UM.urbflux
    inst = [(m.UCM, 'UCModel'), (m.UBL, 'ublmodel'), (m.RSM, 'vdm')]
    UM.urbflux = _urbflux
    for o, name in inst:
        setattr(o, name, _noop)
    try:
        yield
    finally:
        UM.urbflux = saved
        for o, name in inst:
            try:
                delattr(o, name)
            except AttributeError:
                pass


def month_end_runs(chk, members, full=False, epw=None, site=None):
    """runs the members under a SeasonWatch; returns (watch, done, per-member problems [(member, [msgs])], notes)"""
    import uwgutil as U
    work = chk.work()
    found, notes = [], []
    done = 0
    with SeasonWatch() as w:
        for mem in members:
            kw = {k: v for k, v in mem.items() if k != 'label'}
            if epw:
                kw['epw'] = epw
            m = U.new_model(outdir=work, outname='w3_month_end.epw', dtsim=300, **kw)
            try:
                with core.quiet():
                    m.generate()
                    w.begin(m, site=site)
                    if full:
                        m.simulate()
                    else:
                        with light_physics(m):
                            m.simulate()
                done += 1
            except Exception as e:  # noqa: BLE001 - the model's own refusal / fail-stop is not a verdict here
                if type(e) is not Exception and not isinstance(e, (IndexError, ValueError, AssertionError)):
                    raise
                notes.append('%s: %s: %s' % (mem['label'], type(e).__name__, str(e)[:100]))
                if w.cfg is None:
                    continue
            msgs = w.new_problems()
            if not msgs and w.cfg['clock_differs']:
                notes.append('%s: the clock differs from the calendar (%s) without consequence for the season' % (
                    mem['label'], w.cfg['clock_differs']))
            if msgs:
                found.append((mem, msgs))
            w.cfg = None
        return w, done, found, notes


# ----------------------------------------------------------------------------------------------- C12
def real_clock(SC, month, day, secDay, inobis):
    """the clock handed to a stand-alone SolarCalcs: a REAL SimParam of the package `SC` comes from (so it carries
    every attribute a clock of a run has, with the constructor's values), showing the given month / day / second"""
    import importlib
    mod = importlib.import_module(SC.__module__.rsplit('.', 1)[0] + '.simparam')
    st = mod.SimParam(300, 3600, 1, 1, 1)
    st.month, st.day, st.secDay, st.inobis = month, day, secDay, inobis
    return st


# year cells of the data rows (cell 0): a typical-year file has 8760 rows whatever its rows are stamped with - every
# month carries the year it was picked from; the clock of the model is a 365-day clock
YEAR_STAMPS = {
    'years-all-2024(leap)': lambda mo: 2024,
    'years-all-2000(leap century)': lambda mo: 2000,
    'years-all-1900(century, not leap)': lambda mo: 1900,
    'years-all-2023': lambda mo: 2023,
    'years-typical-mixed(leap and not, per month)': lambda mo: [1988, 1996, 2004, 1964, 2001, 1992, 1999, 1992, 1976, 1980,
                                                                2003, 1988][mo - 1],
    'years-typical-mixed-2(not leap in Jan-Feb, leap from Mar)': lambda mo: 1989 if mo < 3 else 1996,
}


def stamp_years(rows, name):
    """copy of EPW rows (8 header rows + data rows) with the year cell of every data row re-stamped"""
    f = YEAR_STAMPS[name]
    out = [list(r) for r in rows]
    for r in out[8:]:
        if len(r) > 5:
            r[0] = str(f(int(r[1])))
    return out
