"""Sixth-round families (sub-agent W2) for C06, C07, C08 and C10.

What the sixth-round seeds showed that no tie explored:

* the PROVENANCE of a custom archetype. Objects built by the constructors / from_dict went through `__init__`; the cells
  of the shipped library are un-pickled and a `copy.deepcopy` of such a cell (the idiom of the package's own tests:
  copy a DOE building, rename it) never did. Two archetypes that read the same in every documented attribute can thus
  differ in what they carry underneath. Family `PROVENANCES` x overrides x a run INSIDE the vegetation season
  (`provenance_round_trips`: C06, the model against its own to_dict -> from_dict round trip; `override_twins`: C08, two
  archetypes that differ only in reference values that the override replaces).
* reference values of a custom archetype AT THE LIMITS of the override's own range (a windowless custom, shgc 0, black /
  white walls and roofs, a fully vegetated roof): `limit_reference_cities` (C08).
* LONG stock lists, whose rounded shares add up to something else than one: `long_stock_lists` (C07).
* custom schedule sets in EVERY accepted climate zone name - the 16 column names and the two aliases - as a new type and
  as a replacement of a DOE type: `customs_in_every_zone` (C10).
* comment lines of a parameter file that do not start with `#` in column 0 or after plain spaces (tab, no-break space,
  form feed, byte-order mark, text before the `#` in the first cell): `comment_layouts` (C06).
"""
import copy
import json
import math
import os
import pickle

import core
import uwgutil as U
import v2_util as V

OV = V.OV
ATTRS = ('glazing', 'shgc', 'wall_alb', 'roof_alb', 'roof_veg')          # keyword arguments of V.constructed_archetype
ATTR_OF = {'glzr': 'glazing', 'shgc': 'shgc', 'albwall': 'wall_alb', 'albroof': 'roof_alb', 'vegroof': 'roof_veg'}


# ================================================================================================ provenance of customs
PROVENANCES = [
    ('constructor', 'built with the real constructors (Material, Element, Building, BEMDef, SchDef)'),
    ('from_dict', 'BEMDef.from_dict / SchDef.from_dict of the to_dict() of a constructed pair'),
    ('doe-copy', 'copy.deepcopy of a cell of the shipped library (un-pickled object), renamed - the idiom of tests/test_UWG.py'),
    ('doe-copy-replacing', 'copy.deepcopy of a cell of the shipped library standing for its OWN type and era (custom replaces the DOE archetype)'),
    ('pickle', 'pickle.loads(pickle.dumps()) of a constructed pair'),
    ('json-dict', 'from_dict of the JSON text of the to_dict() of a deep copy of a library cell'),
]
_LIB = {}


def _library(u):
    if 'lib' not in _LIB:
        _LIB['lib'] = u.UWG.load_refDOE()
    return _LIB['lib']


def custom_pair(u, prov, name, era, k=0, cell=(5, 1, 0), **attrs):
    """(BEMDef, SchDef) of the given provenance. `attrs`: glazing, shgc, wall_alb, roof_alb, roof_veg - the reference
    values of the five attributes an override can replace. For the library copies they are assigned to the documented
    attributes of the copy (building.glazing_ratio, building.shgc, wall.albedo, roof.albedo, roof.vegcoverage)."""
    if prov in ('constructor', 'from_dict', 'pickle'):
        b, s_ = V.constructed_archetype(u, name, era, k=k, **attrs)
        if prov == 'from_dict':
            b, s_ = u.BEMDef.from_dict(json.loads(json.dumps(b.to_dict()))), u.SchDef.from_dict(json.loads(json.dumps(s_.to_dict())))
        elif prov == 'pickle':
            b, s_ = pickle.loads(pickle.dumps(b)), pickle.loads(pickle.dumps(s_))
        return b, s_
    ref, sch = _library(u)
    ti, ei, zi = cell
    b, s_ = copy.deepcopy(ref[ti][ei][zi]), copy.deepcopy(sch[ti][ei][zi])
    if prov != 'doe-copy-replacing':
        b.bldtype = s_.bldtype = name
        b.builtera = s_.builtera = era
    for a, v in attrs.items():
        if a == 'glazing':
            b.building.glazing_ratio = v
        elif a == 'shgc':
            b.building.shgc = v
        elif a == 'wall_alb':
            b.wall.albedo = v
        elif a == 'roof_alb':
            b.roof.albedo = v
        elif a == 'roof_veg':
            b.roof.vegcoverage = v
    if prov == 'json-dict':
        b, s_ = u.BEMDef.from_dict(json.loads(json.dumps(b.to_dict()))), u.SchDef.from_dict(json.loads(json.dumps(s_.to_dict())))
    return b, s_


def season_city(u, bld, zone, bv, sv, outdir, name, month=6, day=10, overrides=None, extra=None):
    """the city of V.city (Singapore geometry, 1 day, dtsim 300) with the window at a chosen date (default: inside the
    vegetation season 4..10), customs handed over as objects, overrides assigned through the setters"""
    kw = dict(month=month, day=day, nday=1, dtsim=300)
    kw.update(extra or {})
    m = u.UWG.from_param_args(10.0, 0.5, 0.8, 0.1, 0.1, zone, bld=[tuple(r) for r in bld], epw_path=U.rp(U.EPW_SGP),
                              new_epw_dir=outdir, new_epw_name=name, ref_bem_vector=bv, ref_sch_vector=sv, **kw)
    for k, v in (overrides or {}).items():
        setattr(m, k, v)
    return m


def end_state(m):
    """what the buildings hold after the run: layer temperatures of roof, wall and mass, indoor state, per archetype"""
    out = []
    for b in m.BEM:
        out.append((b.bldtype, b.builtera, [repr(x) for x in b.roof.layerTemp], [repr(x) for x in b.wall.layerTemp],
                    [repr(x) for x in b.mass.layerTemp], repr(b.building.indoor_temp), repr(b.building.indoor_hum)))
    return out


def run_records(m):
    with core.quiet():
        m.generate()
        m.simulate()
    return U.records(m), end_state(m)


def first_record_diff(ra, rb):
    names = ('canTemp', 'canHum', 'canRHum', 'Tdp', 'wind', 'ruralTemp', 'ublTemp', 'sensHeat')
    for h, (x, y) in enumerate(zip(ra, rb)):
        if x != y:
            if x is None or y is None:
                return 'hour %d: record %r vs %r' % (h, x, y)
            j = next(i for i in range(len(x)) if x[i] != y[i])
            nd = sum(1 for p, q in zip(ra, rb) if p != q)
            return 'hour %d: %s = %s vs %s (%d of %d hourly records differ)' % (h, names[j], x[j], y[j], nd, len(ra))
    if len(ra) != len(rb):
        return '%d vs %d records' % (len(ra), len(rb))
    return None


def first_state_diff(sa, sb):
    # (custom archetypes first: the DOE neighbours differ only through the canyon)
    pairs = sorted(zip(sa, sb), key=lambda p: p[0][0] in V.DOE_TYPES)
    for x, y in pairs:
        if x != y:
            for part, p, q in zip(('roof layer temperatures', 'wall layer temperatures', 'mass layer temperatures',
                                   'indoor temperature', 'indoor humidity'), x[2:], y[2:]):
                if p != q:
                    return 'archetype %s/%s ends the day with %s %s vs %s' % (x[0], x[1], part, p, q)
            return 'archetypes %s/%s vs %s/%s' % (x[0], x[1], y[0], y[1])
    return None


# ------------------------------------------------------------------------------- C06: kwargs vs own round trip
def round_trip_members(rng, quick):
    """(provenance, override set, (month, day), share of the custom)"""
    sets = [('vegroof only', dict(vegroof=0.8)), ('all six', dict(glzr=0.37, shgc=0.61, albwall=0.33, albroof=0.44, vegroof=0.3, flr_h=3.7)),
            ('vegroof 0 and albroof', dict(vegroof=0.0, albroof=0.5)), ('none', dict()), ('vegroof 1', dict(vegroof=1.0))]
    dates = [(6, 10), (4, 1), (10, 30), (7, 15), (1, 2)]
    ms = []
    for pi, (prov, _) in enumerate(PROVENANCES):
        for si, (sl, ov) in enumerate(sets):
            if quick and si != pi % 3 and not (si == 0 and prov.startswith('doe-copy')):
                continue
            ms.append((prov, sl, ov, dates[(pi + si) % (3 if quick else len(dates))], rng.choice([0.8, 0.5, 0.3])))
    return ms


def provenance_round_trips(chk, u):
    """C06: a model carrying a custom archetype of every provenance and the model rebuilt from its own
    to_dict(include_refDOE=True) (through JSON text) have the same to_dict() - and are the same simulation."""
    rng, quick, work = chk.rng, chk.tier == 'quick', chk.work()
    n = bad = 0
    br = {}
    for prov, sl, ov, (month, day), share in round_trip_members(rng, quick):
        n += 1
        br[prov] = br.get(prov, 0) + 1
        # a green reference roof on the constructed ones (the library roofs are bare), so that override and reference differ
        attrs = dict(roof_veg=0.25) if prov in ('constructor', 'from_dict', 'pickle') else {}
        name, era = ('midriseapartment', 'pst80') if prov == 'doe-copy-replacing' else ('courtyardblock', 'pst80')
        bld = [(name, era, share), ('largeoffice', 'pst80', 1 - share)]
        case = {'custom_archetype': dict(PROVENANCES)[prov], 'identifiers': [name, era], 'reference values set': attrs, 'bld': bld,
                'zone': '1A', 'overrides': {k: repr(v) for k, v in ov.items()}, 'month': month, 'day': day, 'nday': 1, 'dtsim': 300,
                'routes': 'from_param_args(..., ref_bem_vector=, ref_sch_vector=) + setters  vs  from_dict(json.loads(json.dumps('
                          'model.to_dict(include_refDOE=True))))'}
        msg = None
        try:
            b, s_ = custom_pair(u, prov, name, era, k=3, **attrs)
            m1 = season_city(u, bld, '1A', [b], [s_], work, 'w2a.epw', month, day, ov)
            d1 = m1.to_dict(include_refDOE=True)
            with core.quiet():
                m2 = u.UWG.from_dict(json.loads(json.dumps(d1)), epw_path=U.rp(U.EPW_SGP), new_epw_dir=work, new_epw_name='w2b.epw')
            d2 = m2.to_dict(include_refDOE=True)
            if json.dumps(d1, sort_keys=True) != json.dumps(d2, sort_keys=True):
                msg = 'to_dict() of the rebuilt model differs from the dictionary it was built from'
            else:
                (r1, s1), (r2, s2) = run_records(m1), run_records(m2)
                dif = first_record_diff(r1, r2) or first_state_diff(s1, s2)
                if dif:
                    msg = ('both models have the same to_dict(include_refDOE=True), but they are not the same simulation '
                           '(keyword route vs rebuilt from the dictionary): %s; roof vegetation carried by the archetypes '
                           '(vegcoverage / what the latent-heat term reads): %r vs %r' % (
                               dif, [(x.roof.vegcoverage, getattr(x.roof, 'grasscoverage', x.roof.vegcoverage)) for x in m1.BEM],
                               [(x.roof.vegcoverage, getattr(x.roof, 'grasscoverage', x.roof.vegcoverage)) for x in m2.BEM]))
        except Exception as e:  # noqa: BLE001
            msg = '%s: %s' % (type(e).__name__, str(e).split('\n')[0][:200])
        if msg:
            bad += 1
            if bad <= 3:
                chk.violation('impl-violation', 'to_dict -> from_dict round trip of a model with a custom archetype simulates identically',
                              case=case, observed=msg,
                              expected='identical to_dict() and bit-identical hourly records and end-of-day building state')
    return n, bad, br


ROUND_TRIP_RULE = ('models holding ONE custom archetype of each provenance (%s) with 30..80 %% of the stock beside a DOE row, '
                   'override sets (vegroof only / all six / vegroof 0 + albroof / none / vegroof 1) assigned through the setters, '
                   '1-day windows INSIDE the vegetation season (10 Jun, 1 Apr, 30 Oct; thorough also 15 Jul and 2 Jan), dtsim 300: the '
                   'model and the model rebuilt by from_dict from the JSON text of its own to_dict(include_refDOE=True) must have '
                   'equal to_dict() AND give bit-identical hourly records (canyon, boundary layer, rural) and end-of-day layer '
                   'temperatures / indoor state of every archetype' % '; '.join('%s = %s' % p for p in PROVENANCES))


# ------------------------------------------------------------------------------- C08: the override is what is simulated
def twin_members(rng, quick):
    """(label, provenance, override set, attributes of twin A, attributes of twin B, (month, day)). The twins differ ONLY in
    reference values that the override set replaces."""
    lo = dict(glazing=0.0, shgc=0.0, wall_alb=0.0, roof_alb=0.0, roof_veg=0.0)
    hi = dict(glazing=0.4, shgc=0.45, wall_alb=0.3, roof_alb=0.6, roof_veg=0.6)
    ms = []
    allset = dict(glzr=0.3, shgc=0.35, albwall=0.25, albroof=0.4, vegroof=0.6)
    for prov in ('constructor', 'from_dict', 'doe-copy', 'pickle', 'json-dict'):
        ms.append(('all five replaced; references at 0 vs interior', prov, allset, lo, hi, (6, 10)))
    for ovk, v in (('vegroof', 0.0), ('vegroof', 1.0), ('vegroof', 0.6), ('glzr', 0.3), ('glzr', 0.0), ('shgc', 0.5), ('albwall', 0.0),
                   ('albroof', 1.0)):
        a = ATTR_OF[ovk]
        for prov in ('constructor', 'doe-copy', 'from_dict'):
            ms.append(('%s = %r alone; reference %s 0 vs %r' % (ovk, v, a, hi[a]), prov, {ovk: v}, {a: lo[a]}, {a: hi[a]},
                       rng.choice([(6, 10), (5, 2), (9, 20)])))
    if quick:
        # the five 'all replaced' members rotate by seed (two per run); the single-override members: vegroof at 0 / 1 /
        # interior and glzr on constructed and from_dict roofs, one library copy
        keep = [ms[chk_i] for chk_i in rng.sample(range(5), 2)]
        single = [m_ for m_ in ms[5:] if m_[1] != 'doe-copy' or m_[2].get('vegroof') == 0.6]
        keep += [m_ for m_ in single if ('vegroof' in m_[2] and m_[1] == ('constructor' if m_[2]['vegroof'] != 1.0 else 'from_dict'))
                 or ('glzr' in m_[2] and m_[2]['glzr'] == 0.3 and m_[1] == 'constructor')
                 or (m_[1] == 'doe-copy')]
        return keep
    return ms


def override_twins(chk, u):
    """C08 'every set override is the value used by every simulated building': two cities that differ only in reference
    values of a custom archetype which the override in force REPLACES must be the same simulation; with vegroof = 0 in
    force the twin whose reference roof is bare is in addition the same simulation as ... itself without the override."""
    rng, quick, work = chk.rng, chk.tier == 'quick', chk.work()
    n = bad = 0
    br = {}
    for label, prov, ov, at_a, at_b, (month, day) in twin_members(rng, quick):
        n += 1
        br[prov] = br.get(prov, 0) + 1
        share = rng.choice([0.5, 0.3, 0.7])
        bld = [('labhall', 'new', share), ('largeoffice', 'pst80', 1 - share)]
        zone = rng.choice(['1A', '3C', '5C'])
        case = {'custom_archetype': dict(PROVENANCES)[prov], 'member': label, 'bld': bld, 'zone': zone,
                'overrides': {k: repr(v) for k, v in ov.items()}, 'reference values of twin A': at_a, 'reference values of twin B': at_b,
                'month': month, 'day': day, 'nday': 1, 'dtsim': 300}
        msg = None
        try:
            res = []
            for at in (at_a, at_b):
                b, s_ = custom_pair(u, prov, 'labhall', 'new', k=2, **at)
                m = season_city(u, bld, zone, [b], [s_], work, 'w2t.epw', month, day, ov)
                r, st = run_records(m)
                carried = [V.building_values(x) for x in m.BEM]
                res.append((r, st, carried, m))
            for k_, v in ov.items():
                for (r, st, carried, m) in res:
                    for x, c in zip(m.BEM, carried):
                        if not c[k_] == v:
                            msg = 'building %s/%s carries %s = %r, the override in force is %r' % (x.bldtype, x.builtera, k_, c[k_], v)
            if msg is None:
                dif = first_state_diff(res[0][1], res[1][1]) or first_record_diff(res[0][0], res[1][0])
                if dif:
                    msg = ('the two cities carry the same overrides and differ only in reference values these overrides replace, but '
                           'are not the same simulation: %s - the custom archetype still behaves according to the value it was '
                           'defined with, the override is stored but is not what the simulated building uses' % dif)
        except Exception as e:  # noqa: BLE001
            msg = '%s: %s' % (type(e).__name__, str(e).split('\n')[0][:200])
        if msg:
            bad += 1
            if bad <= 3:
                chk.violation('impl-violation', 'a set override is the value USED by every simulated building (twin cities)',
                              case=case, observed=msg,
                              expected='every building carries the override; bit-identical hourly records and end-of-day layer '
                                       'temperatures / indoor state for both twins')
    return n, bad, br


TWIN_RULE = ('twin cities (custom archetype of a given provenance - constructor, from_dict, deep copy of a library cell, pickle round '
             'trip, JSON text of a library cell - with 30..70 %% of the stock beside a DOE row, zones 1A / 3C / 5C, 1-day windows inside '
             'the vegetation season, dtsim 300) that differ ONLY in reference values which the override set in force replaces (all five '
             'of glzr, shgc, albwall, albroof, vegroof with references 0 vs interior; single overrides at 0, 1 and interior values): '
             'every building carries the override AND both twins give bit-identical hourly records and end-of-day roof / wall / mass '
             'layer temperatures and indoor state - the override, not the reference value, is what the simulation uses')


def limit_members():
    """(label, constructor keywords): reference values of the overridable attributes at the limits of the override's range"""
    return [('windowless custom (glazing_ratio 0)', dict(glazing=0.0)),
            ('fully glazed custom (glazing_ratio 1)', dict(glazing=1.0)),
            ('shgc 0', dict(shgc=0.0)), ('shgc 1', dict(shgc=1.0)),
            ('black wall and roof (albedo 0)', dict(wall_alb=0.0, roof_alb=0.0)),
            ('white wall and roof (albedo 1)', dict(wall_alb=1.0, roof_alb=1.0)),
            ('fully vegetated roof (vegcoverage 1)', dict(roof_veg=1.0)),
            ('every overridable attribute 0', dict(glazing=0.0, shgc=0.0, wall_alb=0.0, roof_alb=0.0, roof_veg=0.0))]


def limit_reference_cities(chk, u):
    """C08 oracle of v2_util (carried values, unset = reference, stock averages, canyon inputs) on customs whose
    REFERENCE value of an overridable attribute lies at the limit 0 or 1, under override sets at interior values and at
    the limits, by object and dictionary route."""
    rng, quick, work = chk.rng, chk.tier == 'quick', chk.work()
    pristine = u.UWG.load_refDOE()
    sets = [V.OVERRIDE_SETS[0], V.OVERRIDE_SETS[2], V.OVERRIDE_SETS[1], V.OVERRIDE_SETS[3],
            ('glzr and shgc only', dict(glzr=0.3, shgc=0.5))]
    n = bad = 0
    br = {}
    for mi, (label, kw) in enumerate(limit_members()):
        for oi, (olabel, ov) in enumerate(sets):
            if quick and oi not in (0, 1 + mi % 4):
                continue
            for route in (('object', 'dict') if (not quick or oi == 0) else ('object',)):
                n += 1
                br[route] = br.get(route, 0) + 1
                share = rng.choice([0.5, 0.25, 0.75])
                zone = rng.choice(['1A', '1B', '4A', '5C', '8'])
                b, s_ = V.constructed_archetype(u, 'datahall', 'new', k=mi, **kw)
                bld = [('datahall', rng.choice(['new', 'New', 'NEW']), share), ('largeoffice', 'pst80', 1 - share)]
                supplied = [(copy.deepcopy(b), copy.deepcopy(s_))]
                want = {k: ov.get(k) for k in OV}
                case = {'custom_archetype': label, 'constructor_arguments': kw, 'bld': bld, 'zone': zone, 'route': route,
                        'overrides': {k: repr(v) for k, v in want.items()}}
                try:
                    with core.quiet():
                        m = V.city(u, bld, zone, [b], [s_], work, 'w2l.epw', route, ov)
                        m.generate()
                    msg = V.oracle_overrides(m, want, V.reference_of(pristine, zone, supplied))
                except Exception as e:  # noqa: BLE001
                    msg = '%s: %s' % (type(e).__name__, str(e).split('\n')[0][:200])
                if msg:
                    bad += 1
                    if bad <= 3:
                        chk.violation('impl-violation', 'overrides on a custom archetype whose reference value is at the limit of the range',
                                      case=case, observed=msg,
                                      expected='every set override is carried by every simulated building, whatever its reference '
                                               'value; unset ones leave the reference value; stock averages are the share-weighted sums')
    return n, bad, br


LIMIT_RULE = ('custom archetypes (real constructors) whose REFERENCE value of an overridable attribute lies at a limit of the '
              'override\'s range: %s; stock of the custom (25..75 %%, era text in any case) and a DOE row, zones 1A / 1B / 4A / 5C / 8, '
              'override sets: all six interior, all at 1, all at 0, none, glzr + shgc only (quick: the first and one more per member); '
              'object route and from_dict(to_dict(include_refDOE=True)); generate(), then the C08 oracle of v2_util: getters, carried '
              'values, unset = the custom\'s own reference, r_glaze_total / SHGC_total / alb_wall_total, UCM.alb_wall, UCM.facAbsor'
              % '; '.join(m_[0] for m_ in limit_members()))


# ------------------------------------------------------------------------------- C07: long stock lists
def long_list_members(rng, quick):
    """(label, rows). Long lists (11 .. 120 rows) over the 48 DOE archetypes, rows repeating archetypes in other letter
    cases; shares equal, rounded to 2 / 3 / 4 decimals, or one row carrying the rest; totals between 0.90 and 1.10."""
    types, eras = V.DOE_TYPES, V.ERAS

    def rows(n, shares):
        out = []
        for i in range(n):
            e = eras[(i // 16) % 3]
            out.append((types[i % 16], rng.choice([e, e.upper(), e.capitalize()]), shares[i]))
        return out
    ms = []
    ns = [11, 12, 16, 24, 30, 48, 60, 64, 100, 120]
    if quick:
        ns = [11, 60] + rng.sample([12, 16, 24, 30, 48, 64, 100, 120], 3)
    for n in ns:
        ms.append(('%d rows of exactly 1/%d' % (n, n), rows(n, [1.0 / n] * n)))
        for places in (3, 2):
            s_ = round(1.0 / n, places)
            if s_ > 0:
                ms.append(('%d rows of %r (1/%d to %d decimals)' % (n, s_, n, places), rows(n, [s_] * n)))
            up = math.ceil(10 ** places / n) / 10 ** places
            if up != s_:
                ms.append(('%d rows of %r (1/%d rounded up to %d decimals)' % (n, up, n, places), rows(n, [up] * n)))
        for off in (0.015, -0.015, 0.0095 * n / 10, 0.05):
            # n - 1 rows of 1/n, the last row carries the rest +- off
            last = 1.0 / n + off
            if 0 <= last <= 1:
                ms.append(('%d rows: %d of 1/%d, the last one %+.4f more' % (n, n - 1, n, off), rows(n, [1.0 / n] * (n - 1) + [last])))
    return ms


def long_stock_lists(chk, u):
    """C07 'the simulated fractions sum to one', for lists of any length: the setter accepts a list iff its shares add up to
    one within the documented 1e-2 (whatever the number of rows); an accepted list is simulated with one archetype per
    distinct (type, era), the summed shares, and shares that add up to one within that 1e-2."""
    rng, quick, work = chk.rng, chk.tier == 'quick', chk.work()
    n = bad = 0
    br = {}
    TOL = 1e-2
    for label, rws in long_list_members(rng, quick):
        tot = 0.0
        for r in rws:
            tot += r[2]
        off = abs(tot - 1.0)
        if abs(off - TOL) < 1e-9:
            continue                                # on the edge of the tolerance: float order decides, not judged
        n += 1
        want_acc = off < TOL
        case = {'list': label, 'rows': len(rws), 'first rows': [list(r) for r in rws[:3]], 'last row': list(rws[-1]),
                'sum of the shares': repr(tot), 'zone': '4A'}
        msg = None
        try:
            with core.quiet():
                m = u.UWG.from_param_args(10.0, 0.5, 0.8, 0.1, 0.1, '4A', month=1, day=2, nday=1, dtsim=300,
                                          epw_path=U.rp(U.EPW_SGP), new_epw_dir=work, new_epw_name='w2s.epw')
            try:
                m.bld = rws
                acc = True
            except AssertionError:
                acc = False
            key = '%s, sum %s' % ('accepted' if acc else 'refused', 'within 0.01 of one' if want_acc else 'off by more than 0.01')
            br[key] = br.get(key, 0) + 1
            if acc != want_acc:
                msg = ('the list of %d rows whose shares add up to %r was %s by the bld setter; lists of up to 10 rows with such a '
                       'total are %s' % (len(rws), tot, 'accepted' if acc else 'refused', 'refused' if acc else 'accepted'))
            if acc:
                with core.quiet():
                    m.generate()
                stock = {}
                for t, e, f in rws:
                    stock[(t, e.lower())] = stock.get((t, e.lower()), 0.) + f
                sim = {}
                for b in m.BEM:
                    sim[(b.bldtype, b.builtera)] = sim.get((b.bldtype, b.builtera), 0.) + b.frac
                simtot = sum(b.frac for b in m.BEM)
                if len(sim) != len(m.BEM) or set(sim) != set(stock) or any(abs(sim[k] - stock[k]) > 1e-12 for k in stock):
                    msg = 'simulated archetypes and shares differ from the merged rows of the list: %d archetypes for %d distinct rows' % (
                        len(m.BEM), len(stock))
                elif abs(simtot - 1.0) >= TOL:
                    msg = ('the list of %d rows (shares add up to %r) was accepted and generate() simulates %d archetypes whose '
                           'fractions sum to %r instead of one' % (len(rws), tot, len(m.BEM), simtot))
        except Exception as e:  # noqa: BLE001
            msg = '%s: %s' % (type(e).__name__, str(e).split('\n')[0][:200])
        if msg:
            bad += 1
            if bad <= 3:
                chk.violation('impl-violation', 'simulated fractions of a long stock list sum to one', case=case, observed=msg,
                              expected='accepted iff |sum - 1| < 0.01 whatever the number of rows; the simulated fractions sum to one '
                                       '(within that 0.01) and are the merged rows')
    return n, bad, br


LONG_RULE = ('stock lists of 11 .. 120 rows over the 48 shipped archetypes (rows beyond 48 repeat archetypes, era text in any letter '
             'case; quick: 11, 60 and three other lengths): shares of exactly 1/n, 1/n rounded to 3 and 2 decimals (down and up: 60 x '
             '0.017 = 1.02, 30 x 0.03 = 0.9, 64 x 0.016 ...), and n-1 equal rows with a last row off by +-0.015 / 0.05 / 0.00095 n; totals '
             'from 0.9 to 1.1. The real bld setter must accept exactly the lists whose total is within the documented 0.01 of one, '
             'independently of the number of rows; for every accepted list generate() gives one archetype per distinct (type, era) '
             'with the summed share, and fractions that sum to one within 0.01')


# ------------------------------------------------------------------------------- C10: customs in every zone
def zone_names(u):
    import uwg.uwg as UM
    return sorted(UM.REF_ZONETYPE_SET) if hasattr(UM, 'REF_ZONETYPE_SET') else list(V.REFZ) + ['1B', '5C']


def customs_in_every_zone(chk, u, finite_records):
    """C10 liveness 'every schedule set accepted by the schedule constructor can be simulated ... for every parameter set of
    the physical domain': a custom pair (new type / replacing a DOE type / both) in EVERY accepted zone name."""
    rng, quick, work = chk.rng, chk.tier == 'quick', chk.work()
    zones = zone_names(u)
    kinds = [('new type', False), ('replacing the DOE archetype largeoffice/pst80', True)]
    n = bad = 0
    br = {}
    # full 1-day runs: both aliases, the extreme columns and one or more other zones; generate() alone everywhere else
    full = set(['1B', '5C', '1A', '8'] + (rng.sample([z for z in zones if z not in ('1B', '5C', '1A', '8')], 2) if quick else zones))
    for zi, zone in enumerate(zones):
        for ki, (klabel, replacing) in enumerate(kinds):
            if quick and zone not in ('1B', '5C') and (zi + ki) % 2:
                continue
            for spelled in ((zone, zone.lower()) if zone in full and not replacing else (zone,)):
                n += 1
                name, era = ('largeoffice', 'pst80') if replacing else ('studenthousing', 'new')
                b, s_ = V.constructed_archetype(u, name, era, k=zi % 5)
                bld = [(name, era, 0.5), ('midriseapartment', 'pre80', 0.5)]
                run_it = zone in full
                case = {'zone': spelled, 'custom pair': klabel, 'bld': bld, 'schedule set': 'SchDef(...) accepted by the constructor: half '
                        'load in every hour, set points %r / %r C' % (s_.cool[0][0], s_.heat[0][0]),
                        'calls': 'generate(); simulate()' if run_it else 'generate()', 'month': 1, 'day': 2, 'nday': 1, 'dtsim': 300}
                key = ('alias zone' if zone in ('1B', '5C') else 'library zone') + (', simulated' if run_it else ', generated')
                br[key] = br.get(key, 0) + 1
                msg = None
                try:
                    m = season_city(u, bld, spelled, [b], [s_], work, 'w2z.epw', 1, 2)
                    with core.quiet():
                        m.generate()
                    got = sorted((x.bldtype, x.builtera) for x in m.BEM)
                    if got != sorted((t, e) for t, e, _ in bld):
                        msg = 'generate() selected %r for the stock %r' % (got, bld)
                    elif not any(x.building.cop == b.building.cop for x in m.BEM):
                        msg = 'no simulated archetype is the custom one (cop %r)' % b.building.cop
                    elif run_it:
                        with core.quiet():
                            m.simulate()
                        msg = finite_records(m)
                except Exception as e:  # noqa: BLE001
                    msg = ('the schedule set was accepted by SchDef() and the zone by the zone setter, but the run raised %s: %s' % (
                        type(e).__name__, str(e).split('\n')[0][:160]))
                if msg:
                    bad += 1
                    if bad <= 3:
                        chk.violation('impl-violation', 'custom schedule set accepted by the constructor cannot be simulated in an accepted climate zone',
                                      case=case, observed=msg, expected='generate() selects the custom pair; 24 complete finite records')
    return n, bad, br, zones


# ------------------------------------------------------------------------------- C06: comment layouts
BLANKS = [('a TAB', '\t'), ('two TABs', '\t\t'), ('a space and a TAB', ' \t'), ('a no-break space U+00A0', u'\u00a0'),
          ('a form feed', '\x0c'), ('an ideographic space U+3000', u'\u3000'), ('a zero-width space U+200B', u'\u200b'),
          ('plain spaces (control)', '    ')]


def comment_layout_members(lines, rng, quick):
    """(label, text, encoding) - rewrites of the shipped parameter file that change COMMENT lines only:
    every / some comment lines indented with a blank that is not U+0020; a byte-order mark in front of the first
    (comment) line; added comment lines of those shapes; a comment whose first cell holds text before the `#`."""
    iscom = [l.lstrip(' ').startswith('#') for l in lines]
    ms = []
    blanks = BLANKS if not quick else BLANKS[:1] + rng.sample(BLANKS[1:7], 2) + BLANKS[7:]
    for bl, b in blanks:
        ms.append(('every comment line indented with %s' % bl, [b + l if c else l for l, c in zip(lines, iscom)], 'utf-8'))
        idx = [i for i, c in enumerate(iscom) if c and i > 0]
        pick = set(rng.sample(idx, min(3, len(idx))))
        ms.append(('three comment lines (not the first) indented with %s' % bl,
                   [b + l if i in pick else l for i, l in enumerate(lines)], 'utf-8'))
    ms.append(('UTF-8 byte-order mark in front of the first (comment) line, as written by Excel / Notepad', list(lines), 'utf-8-sig'))
    ms.append(('byte-order mark and CRLF line ends', [l for l in lines], 'utf-8-sig-crlf'))
    added = []
    for i, l in enumerate(lines):
        added.append(l)
        if i % 9 == 4:
            added.append('\t# continuation, aligned, under the previous comment')
        if i % 13 == 6:
            added.append('note # text before the sign in the first cell, and cells, after it')
    ms.append(('added comment lines: TAB-indented continuation comments and comments with text before the # in the first cell', added, 'utf-8'))
    return ms


def comment_layouts(chk, u, canon_model):
    """C06 'parameter files are read independently of comments, blank lines and whitespace': rewrites that touch comment
    lines only are read to the same parameters as the shipped file. `canon_model(m)` -> comparable parameter values."""
    rng, quick, work = chk.rng, chk.tier == 'quick', chk.work()
    src = U.rp(U.PARAM_SGP)
    with open(src, newline='', encoding='utf-8', errors='replace') as f:
        lines = f.read().replace('\r\n', '\n').split('\n')
    with core.quiet():
        base = canon_model(u.UWG.from_param_file(src, epw_path=U.rp(U.EPW_SGP)))
    n = bad = 0
    br = {}
    for label, new, enc in comment_layout_members(lines, rng, quick):
        n += 1
        eol = '\r\n' if enc.endswith('-crlf') else '\n'
        enc_ = enc.replace('-crlf', '')
        pth = os.path.join(work, 'w2c%d.uwg' % n)
        with open(pth, 'w', newline='', encoding=enc_) as f:
            f.write(eol.join(new))
        changed = [(i + 1, l) for i, l in enumerate(new) if i >= len(lines) or l != lines[i]][:2]
        case = {'rewrite of': 'resources/initialize_singapore.uwg', 'layout': label, 'encoding': enc_,
                'first changed lines (number, text)': [[i, repr(l)] for i, l in changed], 'parameter lines': 'unchanged'}
        msg = None
        try:
            with core.quiet():
                m = u.UWG.from_param_file(pth, epw_path=U.rp(U.EPW_SGP))
            got = canon_model(m)
            if got != base:
                k = next(k for k in base if got.get(k) != base[k])
                msg = 'parameter %s is read as %r, the shipped file gives %r' % (k, got.get(k), base[k])
            br['read'] = br.get('read', 0) + 1
        except Exception as e:  # noqa: BLE001
            msg = 'the file is refused: %s: %s' % (type(e).__name__, str(e).split('\n')[0][:220])
            br['refused'] = br.get('refused', 0) + 1
        if msg:
            bad += 1
            if bad <= 3:
                chk.violation('impl-violation', 'parameter file read independently of the layout of its comment lines', case=case,
                              observed=msg, expected='the same parameters as resources/initialize_singapore.uwg (only comment lines differ)')
    return n, bad, br


COMMENT_RULE = ('rewrites of resources/initialize_singapore.uwg that change COMMENT lines only: every comment line / three of them '
                'indented with a blank other than U+0020 (%s; quick: TAB, two of the others, the control), a UTF-8 byte-order mark in '
                'front of the first line (with LF and CRLF line ends), added TAB-indented continuation comments and comment lines '
                'whose first cell holds text before the #: read by the real from_param_file, all parameters (PARAMETER_LIST) must '
                'equal those of the shipped file' % ', '.join(b[0] for b in BLANKS))
