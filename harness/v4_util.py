"""Fifth strengthening round (C14, C15, C16, C19, C20): input families that the earlier rounds never varied.

  * DIVISORS            all 45 legal simulation time steps (divisors of 3600 s): C16 steps the real vdm at every one
  * whole_step_msg      the C16 statement for a whole vdm step, written from the pre-state and the step's OWN dt
                        (level-by-level flux form of the implicit system + heat content of the interior column),
                        independent of how many times / with which arguments the code calls its kernel
  * offgrid_family      C20: ground-temperature depths and pavement thicknesses written to the millimetre, in feet and
                        inches, a few millimetres above / below a point of the 5 cm slice grid, inside the last pavement
                        slice (between the raw droad and droad rounded up to whole slices), equal to droad off the grid
  * climate_rows        C19: hot and cold climates as FAMILIES - legal rural rows at the edges of what the EPW data
                        dictionary allows (relative humidity 0 and 100 %, desert afternoon, arctic night, calm, storm)
                        laid over the days a run simulates
  * hvac_branch         which HVAC branch a BEMCalc call took, read from the building afterwards
"""
import math
from fractions import Fraction as F

import s1_util as S1

DIVISORS = [d for d in range(1, 3601) if 3600 % d == 0]
assert len(DIVISORS) == 45


# ------------------------------------------------------------------------------------------------ C16: whole step
def whole_step_msg(n, dt, start, new, da, daz, cd, dz, rel=0):
    """The diffusion step of length `dt` from profile `start` (lowest level already = measured rural temperature) to
    `new`, with cell densities da, interface densities daz, coefficients cd and spacings dz:

      lowest level kept, top two levels equal, and for every interior level iz = 1 .. n-2
          da[iz] dz[iz] (new[iz] - start[iz]) = dt (F[iz+1] - F[iz]),   F[j] = 2 daz[j] cd[j] / (dz[j] + dz[j-1]) (new[j] - new[j-1])
      (the rows of the implicit system of diffusion_equation multiplied by da dz: `new` is the solution for the WHOLE
      step), whose sum is the heat-content statement of the property:
          sum da dz (new - start) over the interior = dt x flux through the lowest interface.

    rel = 0: exact (rationals); rel > 0: doubles, each identity within rel x the magnitude of its own terms.
    -> None or a message"""
    if n < 3 or len(new) != n or len(start) != n:
        return None if len(new) == n else 'profile has %d levels, expected %d' % (len(new), n)
    flux = [0] * (n + 1)
    coef = [0] * (n + 1)
    for j in range(1, n):
        coef[j] = 2 * daz[j] * cd[j] / (dz[j] + dz[j - 1])
        flux[j] = coef[j] * (new[j] - new[j - 1])
    tot_l = tot_r = 0
    scale_t = 0
    worst = None
    for iz in range(1, n - 1):
        lhs = da[iz] * dz[iz] * (new[iz] - start[iz])
        rhs = dt * (flux[iz + 1] - flux[iz])
        tot_l += lhs
        tot_r += rhs
        mag = da[iz] * dz[iz] * (abs(new[iz]) + abs(start[iz])) + dt * (
            coef[iz + 1] * (abs(new[iz + 1]) + abs(new[iz])) + coef[iz] * (abs(new[iz]) + abs(new[iz - 1])))
        scale_t += mag
        if (lhs != rhs) if not rel else (abs(lhs - rhs) > rel * mag):
            if worst is None or abs(lhs - rhs) > worst[1]:
                worst = (iz, abs(lhs - rhs), lhs, rhs)
    want = dt * coef[1] * (new[0] - new[1]) + dt * flux[n - 1]
    if (tot_l != want) if not rel else (abs(tot_l - want) > rel * scale_t):
        return ('time step %s s: the heat content of the interior column changed by %.9g (rho K m) but dt x the flux '
                'through its lowest interface is %.9g (ratio %.6g)' % (
                    float(dt), float(tot_l), float(want), float(tot_l / want) if want else float('nan')))
    if worst:
        return ('time step %s s: the new profile is not the solution of the diffusion system for the whole step: level '
                '%d gains %.9g (rho K m) while dt x (flux in - flux out) = %.9g' % (
                    float(dt), worst[0], float(worst[2]), float(worst[3])))
    return None


# ------------------------------------------------------------------------------------------------ C20: off the grid
G5 = F(1, 20)
MM_BELOW_HALF_CM = [F(1, 1000), F(2, 1000), F(3, 1000), F(4, 1000), F(48, 10000), F(49, 10000)]
FOOT, INCH = F('0.3048'), F('0.0254')
OFFGRID_KINDS = ('mm-above-grid', 'inside-last-slice', 'feet-inches', 'droad-mm', 'mm-below-grid', 'equals-droad',
                 'all-mm-random', 'inside-last-slice/few-records')


def _mm(rng, lo, hi):
    a = int(round(lo * 1000))
    return F(rng.randint(a, max(a, int(hi * 1000))), 1000)


def offgrid_case(rng, kind):
    """One (depths, droad) pair of the named kind; exact rationals (decimal texts of <= 4 places).  The pavement that is
    built is droad rounded UP to whole 5 cm slices, P = 0.05 ceil(droad / 0.05)."""
    k = rng.choice([1, 2, 3, 6, 7, 10, 10, 11, 15, 20, 34, rng.randint(1, 60)])
    P = k * G5
    d = rng.choice(MM_BELOW_HALF_CM)
    if kind == 'mm-above-grid':
        # the first record at or below the pavement lies 1 .. 4.9 mm below a point of the slice grid that the column
        # reaches anyway (0.503 under a 0.50 m road): one more slice is needed
        droad = P - rng.choice([0, 0, F(1, 1000), F(1, 100), F(3, 100)])
        j = rng.choice([0, 0, 0, 1, 2, 9])
        rec = P + j * G5 + d
        depths = [rec, rec + _mm(rng, 0.3, 2.5)]
        if droad > F(1, 10) and rng.random() < 0.7:
            depths.insert(0, _mm(rng, 0.02, float(droad) - 0.011))
        elif rng.random() < 0.5:
            depths.append(depths[-1] + _mm(rng, 0.5, 3))
    elif kind in ('inside-last-slice', 'inside-last-slice/few-records'):
        # a record between the raw droad and the pavement actually built (0.52 under a 0.51 m road -> 0.55 m of
        # asphalt): it lies INSIDE the pavement, the next one closes the column
        eps = rng.choice([F(4, 100), F(3, 100), F(2, 100), F(11, 1000), F(45, 1000)])
        droad = P - eps
        rec_in = droad + rng.choice([0, F(1, 1000), eps / 2, eps - F(1, 1000)])
        nxt = P + rng.choice([1, 1, 5, 29]) * G5 + rng.choice([0, 0, d, -d])
        depths = [rec_in, nxt, nxt + _mm(rng, 0.4, 2)]
        if kind.endswith('few-records'):
            depths = rng.choice([[rec_in], [rec_in, nxt], [_mm(rng, 0.01, float(droad)), rec_in - F(1, 2000), rec_in]])
    elif kind == 'feet-inches':
        depths = [FOOT * n for n in rng.choice([(1, 3, 10), (1, 3, 10), (2, 6, 13), (1, 2, 4, 8)])]
        droad = rng.choice([F('0.3'), FOOT, INCH * rng.randint(2, 36), F('0.9'), 3 * FOOT, INCH * 12, F('0.6')])
    elif kind == 'droad-mm':
        # droad a few millimetres beyond a slice boundary (0.503): the pavement is one whole slice more
        droad = P - G5 + rng.choice(MM_BELOW_HALF_CM + [F(1, 100), F(25, 1000)])
        depths = sorted(set([P - G5 if k > 1 else F(1, 100), P + rng.choice([0, 0, 3, 11]) * G5,
                             P + 40 * G5 + rng.choice([0, d])]))
    elif kind == 'mm-below-grid':
        droad = P - rng.choice([0, F(1, 100)])
        j = rng.choice([1, 1, 2, 9])
        rec = P + j * G5 - d
        depths = [rec, rec + _mm(rng, 0.3, 2.5), rec + _mm(rng, 2.6, 5)]
    elif kind == 'equals-droad':
        # record depth == droad, off the grid: the pavement (rounded up) is deeper than that record
        droad = P - rng.choice([F(1, 1000), F(2, 100), F(48, 1000), G5 - FOOT % G5])
        depths = [droad, droad + rng.choice([G5 - (P - droad), G5, 1, FOOT]), droad + 3]
    else:
        droad = _mm(rng, 0.01, 2.5)
        depths = sorted(set(_mm(rng, 0.02, 4) for _ in range(rng.choice([1, 2, 3, 3, 4]))))
    return {'kind': kind, 'depths': depths, 'droad': droad}


def offgrid_family(rng, kinds=None, n_random=0):
    """(depths, droad) pairs: one per kind of `kinds` (default: all), plus n_random of kinds drawn at random"""
    out = [offgrid_case(rng, kd) for kd in (kinds or OFFGRID_KINDS)]
    out += [offgrid_case(rng, rng.choice(OFFGRID_KINDS)) for _ in range(n_random)]
    return out


def dec(x):
    """decimal text of a rational with a finite decimal expansion (as a rural file would carry it)"""
    s = '%.6f' % float(x)
    s = s.rstrip('0')
    return s + '0' if s.endswith('.') else s


# ------------------------------------------------------------------------------------------------ C19: climates
def _diurnal(h, lo, hi, peak=15):
    return lo + (hi - lo) * 0.5 * (1 + math.cos((h - peak) * math.pi / 12.0))


def _dewpoint(t, rh):
    """Magnus dew point (C) of dry bulb t (C) and relative humidity rh (%), rh > 0"""
    a, b = 17.62, 243.12
    g = math.log(rh / 100.0) + a * t / (b + t)
    return b * g / (a - g)


#  kind: (hot / cold, description, function hour -> {column: value})
def _c_desert_afternoon(h, row):
    # the shipped day with six hours of 41 C and a completely dry air mass (RH 0 % is legal, hot-desert files have it)
    return {6: 41.0, 7: -30.0, 8: 0} if 11 <= h <= 16 else {}


def _c_desert_day(h, row):
    t = _diurnal(h, 27.0, 46.0)
    rh = 0 if 10 <= h <= 18 else 4
    return {6: t, 7: -28.0 if rh == 0 else _dewpoint(t, rh), 8: rh}


def _c_hot_saturated(h, row):
    t = _diurnal(h, 31.0, 36.5)
    return {6: t, 7: t, 8: 100}


def _c_arctic_night(h, row):
    t = _diurnal(h, -42.0, -36.0)
    return {6: t, 7: _dewpoint(t, 70), 8: 70, 12: 140, 13: 0, 14: 0, 15: 0, 21: 6.0}


def _c_cold_dry_calm(h, row):
    t = _diurnal(h, -24.0, -15.0)
    return {6: t, 7: -50.0, 8: 0, 21: 0.0}


def _c_calm(h, row):
    return {21: 0.0}


def _c_gale(h, row):
    return {21: 17.0 + (h % 5)}


def _c_storm(h, row):
    return {21: 33.0 + (h % 5)}


def _c_cold_saturated(h, row):
    t = _diurnal(h, -12.0, -3.0)
    return {6: t, 7: t, 8: 100}


CLIMATES = {
    'desert-afternoon(41C, RH 0, six hours)': ('hot', _c_desert_afternoon),
    'desert-day(27..46C, RH 0..4)': ('hot', _c_desert_day),
    'hot-saturated(31..36C, RH 100)': ('hot', _c_hot_saturated),
    'hot-calm(wind 0)': ('hot', _c_calm),
    'arctic-night(-42..-36C, no sun)': ('cold', _c_arctic_night),
    'cold-dry-calm(-24..-15C, RH 0, wind 0)': ('cold', _c_cold_dry_calm),
    'cold-saturated(-12..-3C, RH 100)': ('cold', _c_cold_saturated),
    'cold-gale(wind 17..21)': ('cold', _c_gale),
}
# Wind and the time step.  FINDING on the unchanged tree (recorded, not a verdict - the property does not fix the time step;
# DESIGN.md section 10): with sustained wind of 15 m/s or more some archetypes (hospital / pre80 / 3B-CA, largehotel / pre80 /
# 3A, ...) cannot be simulated at the shipped dtsim = 300 s: the roof temperature oscillates (T_CEILING -1085 C) and the
# model's own fail-stop fires (`FATAL ERROR ... try increasing the simulation timesteps per hour`), e.g. alone in the UNMODIFIED
# Toronto CWEC file on 5 March, 7 March and 14 April; from about 25 m/s on for every archetype tried, in Singapore and Toronto
# alike.  At dtsim = 150 (wind <= 22) / 100 (wind <= 40) the same runs complete.  So the windy members run at the time step the
# model's message asks for.
CLIMATE_DTSIM = {'cold-gale(wind 17..21)': 150}
STORM = 'cold-storm(wind 33..37)'
CLIMATES_SHORT_STEP = {STORM: ('cold', _c_storm)}


def climate_rows(rows, kind, month, day, ndays=1):
    """copy of the rural rows with the climate `kind` laid over the simulated days (and the day after, which the
    reader touches for the last hour)"""
    out = S1.copy_rows(rows)
    f = (CLIMATES.get(kind) or CLIMATES_SHORT_STEP[kind])[1]
    i0 = 8 + 24 * S1.doy0(month, day)
    for i in range(i0, min(i0 + 24 * (ndays + 1), len(out))):
        h = (i - 8) % 24
        for col, v in f(h, out[i]).items():
            out[i][col] = ('%d' % v) if isinstance(v, int) else ('%.1f' % v)
    return out


def hvac_branch(b):
    """the branch the last BEMCalc call of building `b` took, from the quantities it leaves behind"""
    if b.Qhvac > 0:
        return 'cooling/at-capacity' if b.Qhvac == b.coolcap * b.nFloor else 'cooling'
    if b.Qheat > 0:
        return 'heating/at-capacity' if b.Qheat == b.heat_cap * b.nFloor else 'heating'
    return 'idle'
