/-
Data model of the reference library tables exported by harness/extract/reftables.py (C19).
Core Lean only: doubles are exported exactly as (numerator, denominator) of their binary value,
so that the kernel compares and orders them with `Nat` arithmetic only.
-/
namespace Uwg.RefLib

/-- An exactly exported non-negative double: numerator and denominator. -/
abbrev Dbl := Nat × Nat

structure ArchRow where
  wall : Nat
  roof : Nat
  mass : Nat
  /-- fractions that must lie in [0, 1]: glazing ratio, SHGC, radiant/latent internal-heat
      fractions, heating efficiency, and albedo / emissivity / vegetation cover of wall, roof, mass -/
  fracs : List Dbl
  /-- quantities that must be positive: floor height, COP, window U-value, capacities, initial temp -/
  pos : List Dbl
  /-- SHA-256 of the canonical serialisation of *every* attribute of the BEMDef and its SchDef -/
  digest : Nat
  /-- shape of the seven schedules: for each, number of day types then the length of each row -/
  shape : List Nat
deriving DecidableEq, Repr

def Dbl.pos (x : Dbl) : Bool := 0 < x.1 && 0 < x.2
def Dbl.unit (x : Dbl) : Bool := 0 < x.2 && x.1 ≤ x.2

/-- A layered construction is usable by the conduction solver: at least two layers, positive
    thickness, conductivity and heat capacity. -/
def consOk (c : List (Dbl × Dbl × Dbl)) : Bool :=
  2 ≤ c.length && c.all (fun l => l.1.pos && l.2.1.pos && l.2.2.pos)

/-- The expected schedule shape: seven schedules of 3 day types × 24 hours. -/
def shapeOk (s : List Nat) : Bool := s == (List.replicate 7 [3, 24, 24, 24]).flatten

/-- Physical well-formedness of one archetype (C19). -/
def rowOk (cons : List (List (Dbl × Dbl × Dbl))) (r : ArchRow) : Bool :=
  (match cons[r.wall]?, cons[r.roof]?, cons[r.mass]? with
   | some w, some ro, some m => consOk w && consOk ro && consOk m
   | _, _, _ => false) &&
  r.fracs.all Dbl.unit && r.pos.all Dbl.pos && shapeOk r.shape

end Uwg.RefLib
