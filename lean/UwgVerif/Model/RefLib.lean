/-
Data model of the reference library tables exported by harness/extract/reftables.py (C19).
Core Lean only. Every double is exported exactly: a non-negative double is `m / 2^e` and is packed
as the natural number `m * 2^16 + e`; lists of doubles are packed as base-2^80 digits, so that a
table row is a handful of numerals (fast to elaborate) and the kernel works with `Nat` only.
-/
namespace Uwg.RefLib

/-- An exactly exported non-negative double `m / 2^e`, as (mantissa, exponent). -/
abbrev Dbl := Nat × Nat

def unpackDbl (x : Nat) : Dbl := (x / 2 ^ 16, x % 2 ^ 16)

/-- `n` little-endian digits of `2^width`. -/
def digits (width : Nat) : Nat → Nat → List Nat
  | 0, _ => []
  | n + 1, code => code % 2 ^ width :: digits width n (code / 2 ^ width)

def unpackDbls (n code : Nat) : List Dbl := (digits 80 n code).map unpackDbl

structure ArchRow where
  wall : Nat
  roof : Nat
  mass : Nat
  /-- packed fractions that must lie in [0, 1]: glazing ratio, SHGC, radiant/latent internal-heat
      fractions, heating efficiency, and albedo / emissivity / vegetation cover of wall, roof, mass -/
  fracs : Nat
  /-- packed quantities that must be positive: floor height, COP, window U-value, capacities,
      initial temperature -/
  pos : Nat
  /-- SHA-256 of the canonical serialisation of *every* attribute of the BEMDef and its SchDef -/
  digest : Nat
  /-- packed shape of the seven schedules (8-bit digits): for each, number of day types then the
      length of each row -/
  shape : Nat
deriving DecidableEq, Repr

def Dbl.pos (x : Dbl) : Bool := 0 < x.1
def Dbl.unit (x : Dbl) : Bool := x.1 ≤ 2 ^ x.2

/-- Layers (thickness, conductivity, heat capacity) of a packed construction `(nLayers, code)`. -/
def layersOfCode (c : Nat × Nat) : List (Dbl × Dbl × Dbl) :=
  let rec go : List Dbl → List (Dbl × Dbl × Dbl)
    | d :: k :: h :: rest => (d, k, h) :: go rest
    | _ => []
  go (unpackDbls (3 * c.1) c.2)

/-- A layered construction is usable by the conduction solver: at least two layers, positive
    thickness, conductivity and heat capacity. -/
def consOk (c : List (Dbl × Dbl × Dbl)) : Bool :=
  2 ≤ c.length && c.all (fun l => l.1.pos && l.2.1.pos && l.2.2.pos)

/-- The expected schedule shape: seven schedules of 3 day types × 24 hours. -/
def shapeOk (s : Nat) : Bool := digits 8 28 s == (List.replicate 7 [3, 24, 24, 24]).flatten && s < 2 ^ (8 * 28)

/-- Physical well-formedness of one archetype (C19). -/
def rowOk (nFracs nPos : Nat) (cons : List (Nat × Nat)) (r : ArchRow) : Bool :=
  (match cons[r.wall]?, cons[r.roof]?, cons[r.mass]? with
   | some w, some ro, some m =>
     consOk (layersOfCode w) && (layersOfCode w).length == w.1 &&
     consOk (layersOfCode ro) && (layersOfCode ro).length == ro.1 &&
     consOk (layersOfCode m) && (layersOfCode m).length == m.1
   | _, _, _ => false) &&
  (unpackDbls nFracs r.fracs).all Dbl.unit && (unpackDbls nPos r.pos).all Dbl.pos && shapeOk r.shape

end Uwg.RefLib
