import UwgVerif.Model.Symbols
import Mathlib.Analysis.SpecialFunctions.Pow.Real
import Mathlib.Analysis.SpecialFunctions.Trigonometric.Inverse
import Mathlib.Analysis.SpecialFunctions.Sqrt

namespace Uwg

/-- The intended interpretation of the symbols. -/
noncomputable def realSym : Sym ℝ where
  exp := Real.exp
  log := Real.log
  rpow := fun a b => a ^ b
  sqrt := Real.sqrt
  cos := Real.cos
  sin := Real.sin
  tan := Real.tan
  acos := Real.arccos
  asin := Real.arcsin
  pi := Real.pi

end Uwg
