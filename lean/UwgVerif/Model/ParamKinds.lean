/-
C06 — validator kinds of the UWG parameter setters. The table `Gen/ParamTable.lean` (regenerated from
`uwg/uwg.py` by `harness/extract/paramtable.py` on every run) is written in terms of this type.
-/
import UwgVerif.Model.Json

namespace Uwg.C06

/-- What a property setter of `UWG` does with the assigned value.
    Bounds are the integer literals that appear in the source. -/
inductive Kind
  | intRange (lo hi : Int)   -- `int_in_range(value, lo, hi)`  : `int(value)`, assert lo <= n <= hi, store n
  | intMin (lo : Int)        -- `int_positive(value)` (= int_in_range(value, 0, inf)): store `int(value)`
  | fltRange (lo hi : Int)   -- `float_in_range(value, lo, hi)`: assert lo <= value <= hi, store value AS IS
  | fltMin (lo : Int)        -- `float_positive(value)` (= float_in_range(value, 0, inf)): store value as is
  | fltExcl (lo : Int)       -- `float_in_range_excl(value, lo)`: assert lo < value (< inf), store value as is
  | boolNum                  -- autosize: assert isinstance(value, (bool, int, float)); store bool(value)
  | zone                     -- assert str; upper(); assert in REF_ZONETYPE_SET; store upper-cased text
  | bld                      -- list/tuple of (str, era-str, 0<=frac<=1) rows with |sum - 1| < 0.01; stored as is
  | sch                      -- schtraffic: 3 x 24 numbers (check_week_validity), copied into a list of lists
  | cover (a b : Str)        -- blddensity/treecover/grasscover: if attributes a and b are already set,
                             -- assert a + b + value <= 1 (AttributeError -> skipped); then fltRange 0 1
  | opt (k : Kind)           -- `if value is None: store None else <k>`
  | unknown                  -- setter shape not recognised by the translator
  deriving DecidableEq, Repr

end Uwg.C06
