/-
The whole `UWG.simulate` loop with the physics abstracted (C03, C10).

Control (clock, forcing-row index, record trigger, record counter) is the trace of
`Model/Driver.lean`, whose closed form is proved in `Props/C02.lean`. Data flow is added here:
each step fetches the forcing row at `ceil_time_step`, calls an *uninterpreted* physics step
`step : S → StepTrace → R → D → Except E S` (everything between `update_date()` and the record
test: SolarCalcs, schedules, SurfFlux, vdm, urbflux, UCModel, ublmodel — it may read its own state,
the current forcing row, the clock view of this step and the deep/ground-water temperatures, and it
may raise), and at record steps stores `record s' t r` (the copies put into WeatherData / UCMData /
UBLData / RSMData).  Theorems about `simulate` hold for every `Phys`; the assumption this encodes —
the real step reads no other rural data — is checked by the footprint scan and by paired runs.
-/
import UwgVerif.Model.Driver

namespace Uwg.Sim
open Uwg

inductive SimErr (E : Type) where
  | drv (e : DrvErr)      -- SimParam refused the timestep / index error found by the driver
  | index                 -- forcing row missing
  | phys (e : E)          -- the physics raised (fatal error check, canyon temperature check, …)
deriving Repr

structure Phys (S R D Rec E : Type) where
  step : S → StepTrace → R → D → Except E S
  record : S → StepTrace → R → Rec

variable {S R D Rec E : Type}

/-- Result of a (possibly aborted) run: on normal return the final state and all records; on an
    exception the records stored before it was raised (the caller only sees the exception). -/
abbrev Outcome (S Rec E : Type) := Except (List Rec × SimErr E) (S × List Rec)

/-- The loop body iterated over the control trace. -/
def runSteps (P : Phys S R D Rec E) (deep : StepTrace → D) (rows : List R) :
    List StepTrace → S → List Rec → Outcome S Rec E
  | [], s, acc => .ok (s, acc)
  | t :: ts, s, acc =>
    match rows[t.row]? with
    | none => .error (acc, .index)
    | some r =>
      match P.step s t r (deep t) with
      | .error e => .error (acc, .phys e)
      | .ok s' => runSteps P deep rows ts s' (if t.recorded then acc ++ [P.record s' t r] else acc)

/-- Records stored by a run, whether it returned or raised. -/
def recordsOf : Outcome S Rec E → List Rec
  | .ok (_, a) => a
  | .error (a, _) => a

/-- Deep-soil / ground-water temperature selection of `simulate`. With at least three
    ground-temperature depths in the EPW header it is a table look-up by the month *before* the
    clock advances; with fewer it is computed once from the whole window of rural rows. -/
inductive Soil (D : Type) where
  | monthly (table : Nat → D)
  | windowMean (d : D)

def deepAt : Soil D → StepTrace → D
  | .monthly f, t => f t.monthBefore
  | .windowMean d, _ => d

/-- The control trace up to (not including) the first step at which the driver itself fails
    (forcing row missing: the window is shorter than the run, e.g. it crosses 31 December; or the
    timestep exception of `update_date`), together with that error. `driver` is the special case
    "no error". -/
def traceLoop (dt N rows : Nat) : Nat → Nat → Clock → Nat → List StepTrace × Option DrvErr
  | 0, _, _, _ => ([], none)
  | steps + 1, it, c, n =>
    match drvStep dt N rows it c n with
    | .error e => ([], some e)
    | .ok (c', n', tr) =>
      let r := traceLoop dt N rows steps (it + 1) c' n'
      (tr :: r.1, r.2)

/-- `SimParam(...)` + the loop of `simulate` on the window of rural rows `rows`: the steps before a
    driver-level failure are executed (and their records stored) before the exception surfaces. -/
def simulate (P : Phys S R D Rec E) (soil : Soil D) (dt M Dy days : Nat) (rows : List R) (s0 : S) :
    Outcome S Rec E :=
  match Clock.create dt M Dy with
  | .error .zerodiv => .error ([], .drv .zerodiv)
  | .error .timestep => .error ([], .drv .timestep)
  | .ok c0 =>
    let r := traceLoop dt (24 * days) rows.length (nt dt days - 1) 1 c0 0
    match runSteps P (deepAt soil) rows r.1 s0 [] with
    | .error x => .error x
    | .ok (s, recs) =>
      match r.2 with
      | none => .ok (s, recs)
      | some e => .error (recs, .drv e)

/-- The window `Weather` cuts out of the data rows of the rural file (header excluded) and the
    projection onto the modelled columns. -/
def window (M Dy days : Nat) (file : List α) : List α :=
  (file.drop (24 * (Clock.init M Dy).julian)).take (24 * days)

/-- `generate(); simulate()` from a rural file: `proj` extracts the modelled columns of a row
    (dry bulb, relative humidity, pressure, infrared, direct, diffuse, wind direction, wind speed),
    `mean` is the whole-window mean used when the file has fewer than three ground depths, `init`
    builds the initial state (`generate` uses the first window row for initial temperatures). -/
def simulateFile (P : Phys S R D Rec E) (nSoilGe3 : Bool) (table : Nat → D) (mean : List R → D)
    (proj : α → R) (dt M Dy days : Nat) (file : List α) (init : Option R → S) : Outcome S Rec E :=
  let rows := (window M Dy days file).map proj
  simulate P (if nSoilGe3 then .monthly table else .windowMean (mean rows)) dt M Dy days rows
    (init rows.head?)

/-! ### Per-step schedule arithmetic with the zero-load guard (C10) -/

/-- `int_heat_f_rad` and `int_heat_flat` as `simulate` computes them for one building and hour. -/
def loadFractions {K : Type} [Zero K] [Add K] [Mul K] [Div K] [LT K] [DecidableLT K]
    (light elec qocc nocc radflight radfequip latfocc sensocc : K) : K × K :=
  let intHeat := light + elec + qocc
  (if 0 < intHeat then (radflight * light + radfequip * elec) / intHeat else 0,
   if 0 < intHeat then latfocc * sensocc * nocc / intHeat else 0)

end Uwg.Sim
