/-
C06 — the finite part of the grammar accepted by Python's `float(str)`:

    ws* [+-] ( digitpart [ "." [digitpart] ] | "." digitpart ) [ (e|E) [+-] digitpart ] ws*
    digitpart = digit ( ["_"] digit )*

and its exact decimal value. `inf`, `nan`, `infinity` (accepted by Python) are NOT in this grammar: the
generators never produce them (documented in the check as outside the model). The value is the exact
decimal; the tie only uses tokens with at most 15 significant digits and small exponents, for which the
shortest repr of the resulting double is that same decimal.
Core Lean only.
-/
import UwgVerif.Model.Json

namespace Uwg.C06

/-- whitespace removed by `str.strip()` inside `float()` (ASCII part) -/
def isWs (c : Char) : Bool :=
  c = ' ' || c = '\t' || c = '\n' || c = '\r' || c = '\x0b' || c = '\x0c'

def stripL (s : Str) : Str := s.dropWhile isWs
def strip (s : Str) : Str := (stripL (stripL s).reverse).reverse

def digitVal (c : Char) : Nat := c.toNat - '0'.toNat

/-- scan a `digitpart`; the flag says whether the previous character was a digit (an underscore is
    only allowed between two digits). Returns the digit values and the unread rest. -/
def scanDigits : Bool → Str → List Nat × Str
  | _, [] => ([], [])
  | prevDigit, c :: rest =>
    if c.isDigit then
      let r := scanDigits true rest
      (digitVal c :: r.1, r.2)
    else if c = '_' && prevDigit && (match rest with | d :: _ => d.isDigit | [] => false) then
      scanDigits false rest
    else ([], c :: rest)

def natOfDigits (ds : List Nat) : Nat := ds.foldl (fun a d => 10 * a + d) 0

def splitSign : Str → Bool × Str
  | '-' :: r => (true, r)
  | '+' :: r => (false, r)
  | s => (false, s)

def decimalValue (neg : Bool) (ip fp : List Nat) (expNeg : Bool) (e : Nat) : Rat :=
  let m : Rat := (natOfDigits (ip ++ fp) : Nat)
  let v := m / (10 : Rat) ^ fp.length
  let v := if expNeg then v / (10 : Rat) ^ e else v * (10 : Rat) ^ e
  if neg then -v else v

/-- `float(s)` for finite decimal text; `none` = ValueError -/
def parseFloat (s : Str) : Option Rat :=
  let s0 := splitSign (strip s)
  let a := scanDigits false s0.2
  let b : List Nat × Str := match a.2 with
    | '.' :: r => scanDigits false r
    | r => ([], r)
  if a.1 = [] ∧ b.1 = [] then none else
  match b.2 with
  | [] => some (decimalValue s0.1 a.1 b.1 false 0)
  | e :: r =>
    if e = 'e' ∨ e = 'E' then
      let s1 := splitSign r
      let c := scanDigits false s1.2
      if c.1 = [] ∨ c.2 ≠ [] then none
      else some (decimalValue s0.1 a.1 b.1 s1.1 (natOfDigits c.1))
    else none

end Uwg.C06
