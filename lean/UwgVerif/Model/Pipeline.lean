/-
Composition D - `generate(); simulate(); write_epw()` with the CONCRETE pieces plugged in.

Composition A (`Model/Morph.lean`) is the pipeline over an arbitrary physics and with three things handed in as
parameters: the interpretation of the EPW header, the numeric reading of the window rows, the initial state.
Here the first two are the models that are tied exactly to the real code, and the physics is the real loop body:

* `_read_epw`            → `Epw.readHeader`  (Model/EpwHeader.lean): site (cells 6..8 of line 1), ground line (line 4);
* `SimParam(...)`        → `Clock.create`    (refused timestep);
* `Weather(epw, HI, HF)` → `Weather.read`    (Model/Weather.lean) on the WHOLE table `hdr ++ rows` with
                           `HI = timeInitial`, `HF = timeFinal`: station records incl. the humidity ratio;
* the road column of `_compute_input` → `columnOutcome` (Model/Procmat.lean): `_soilindex1`, or the refusal of a
  road deeper than the deepest ground depth (only when the file states at least three depths);
* `Forcing(staTemp, weather)` + the selection block at the top of the loop body → `forcingOf` / `stepW`;
* the loop body → `Step.step` (Model/Step.lean), the loop → `Sim.runSteps` over the control trace;
* the deep / ground-water temperature of a pass → `deepTable` (monthly table of the header, row `_soilindex1`
  and row 2) or `meanDeep` (fewer than three depths: mean of the station temperatures of the whole window);
* `write_epw` → `Csv.writeEpw` on the records `canTemp − 273.15`, `Tdp`, `canRHum`, `wind`.

What is still handed in (and why):
* `C0 : Step.Cfg ℚ` - everything `generate()` derives from the PARAMETER file and the reference library
  (geometry, schedules, constants, grid of the rural column). Its fields `lat`, `lon`, `gmt`, `dt` are NOT used:
  `cfgOf` overwrites them with the site of the header and the timestep of the run;
* `init : Option Weather.Rec → State ℚ` - the objects `generate()` builds (initial temperatures come from the
  first station record, hence the argument);
* `droad kroad croad` - the pavement of the parameter file, as far as the choice of the ground depth needs it;
* `S : Sym ℚ` - the libm symbols.

Text left by `str2fl` in a cell of the window (Python keeps the string in the station list):
* dry bulb, relative humidity, pressure: `TypeError` inside `Weather.__init__` (`Weather.read`, `generate()` fails);
* wind speed: `max(<str>, windMin)` in the selection block raises `TypeError` in the pass that reads the row
  (and in the FIRST window row already inside `generate()`: `UCMDef.__init__` does the same `max`, `initWindText`);
* direct / diffuse radiation: `(self.dir + self.dif) > 0.` at the top of `solarcalcs` raises `TypeError`
  (`str + str` concatenates, the comparison with a number then raises) - nothing but the wind is used before;
* infrared: first used in `rural.infra = forc.infra - …` AFTER `solarcalcs`, the traffic and building schedule
  block and `rural.layerTemp[0]`: an exception of those comes first (`beforeInfra`), otherwise `TypeError`;
* wind direction: assigned to `forc.uDir`, never read by any pass; dew point and global horizontal radiation never
  leave the `Weather` object. `forcingOf` puts `0` for text in the wind direction; that this `0` reaches nothing
  but the write-only field `forc.uDir` is PROVED (`Lemmas/Pipeline.lean`: `step_uDir_dead`, `stepW_unread_dead`).

Executed at ℚ (the station records are rationals); core of the statements: `Props/Pipeline.lean`.
-/
import UwgVerif.Model.Morph
import UwgVerif.Model.Step
import UwgVerif.Model.Weather
import UwgVerif.Model.EpwHeader
import UwgVerif.Model.Procmat
import Mathlib.Data.Rat.Floor

namespace Uwg.Pipeline
open Uwg Uwg.Csv Uwg.Sim Uwg.Step

/-! ## `Forcing(...)` and the selection block -/

/-- the number in an entry of a station list; `0` stands for text (only used where the entry is never read) -/
def valD : Weather.Val → ℚ
  | .num q => q
  | .text => 0

/-- `Forcing(staTemp, weather)` for one row, with the four cells a pass reads given as numbers:
    `infra = staInfra`, `wind = staUmod`, `uDir = staUdir`, `hum = staHum`, `pres = staPres`, `temp = staTemp`
    (K), `rHum = staRhum`, `prec = staRobs / 3.6e6` (`staRobs` is 0), `dif = staDif`, `dir = staDir`. -/
def rowOf (w : Weather.Rec) (infra wind dir dif : ℚ) : FRow ℚ :=
  { infra := infra, wind := wind, uDir := valD w.udir, hum := w.hum, pres := w.pres, temp := w.temp,
    rHum := w.rhum, prec := w.robs / 3600000, dif := dif, dir := dir }

/-- What `Forcing(...)` and the selection block hand to the physics for one station record: a row of
    numbers, or `TypeError` when one of the four cells a pass computes with (wind speed, direct, diffuse,
    infrared) holds text. -/
def forcingOf (w : Weather.Rec) : Except Err (FRow ℚ) :=
  match w.umod, w.dir, w.dif, w.infra with
  | .num wind, .num dir, .num dif, .num infra => .ok (rowOf w infra wind dir dif)
  | _, _, _, _ => .error .type

/-- Total version (text ↦ 0), used only to hand a row to `Step.record`, which ignores it. -/
def rowD (w : Weather.Rec) : FRow ℚ := rowOf w (valD w.infra) (valD w.umod) (valD w.dir) (valD w.dif)

/-- What a pass does before `forc.infra` is used for the first time: `solarcalcs`, the traffic schedule, the
    per-building schedule block, `rural.layerTemp[0]`. Only its exception matters. -/
def beforeInfra (S : Sym ℚ) (C : Cfg ℚ) (s : State ℚ) (t : StepTrace) (r : FRow ℚ) (d : Deep ℚ) :
    Except Err Unit := do
  let f := forcOf C.par.windMin r d
  let sol ← solarStage S C t f s.ucm.road
  let _ ← look C.schtraffic (dayIdx t) t.hourDay
  let _ ← glueAll C (dayIdx t) t.hourDay sol.roofRec sol.wallRec C.sch s.blds
  let _ ← s.rural.t0
  pure ()

/-- One pass of the loop body on a station record (the row `forcIP.*[ceil_time_step]`), with the exceptions
    text cells cause, in program order. -/
def stepW (S : Sym ℚ) (C : Cfg ℚ) (s : State ℚ) (t : StepTrace) (w : Weather.Rec) (d : Deep ℚ) :
    Except Err (State ℚ) :=
  match w.umod with
  | .text => .error .type                        -- max(<str>, windMin)
  | .num wind =>
    match w.dir, w.dif with
    | .num dir, .num dif =>
      match w.infra with
      | .num infra => step S C s t (rowOf w infra wind dir dif) d
      | .text =>
        match beforeInfra S C s t (rowOf w 0 wind dir dif) d with
        | .error e => .error e
        | .ok _ => .error .type                  -- <str> - emissivity * SIGMA * T ** 4
    | _, _ => .error .type                       -- (self.dir + self.dif) > 0.

def toFrac (q : ℚ) : Frac := ⟨q.num, q.den⟩

/-- The four numbers `write_epw` formats for one record. -/
def resOf (x : Step.Rec ℚ) : Res :=
  { tdb := toFrac (x.canTemp - 273.15), tdp := toFrac x.tdp, rh := toFrac x.canRHum, wind := toFrac x.wind }

/-- The physics of uwg on station records, its record being what `write_epw` writes. -/
def physW (S : Sym ℚ) (C : Cfg ℚ) : Phys (State ℚ) Weather.Rec (Deep ℚ) Res Err :=
  { step := stepW S C, record := fun s t w => resOf (Step.record s t (rowD w)) }

/-! ## Header: site and ground temperatures -/

/-- The configuration of the run: `RSM.lat/lon/gmt` are the site of the header, `simTime.dt` the timestep. -/
def cfgOf (C0 : Cfg ℚ) (site : Epw.Site) (dt : Nat) : Cfg ℚ :=
  { C0 with lat := site.lat, lon := site.lon, gmt := site.gmt, dt := (dt : ℚ) }

/-- `Tsoil[i][month - 1]` (`0` outside the table: see `Props/Pipeline.lean`, `pipeline_ground_cells`). -/
def tsoil (g : Epw.Ground) (i month : Nat) : ℚ := ((g.recs[i]?).bind (·.months[month - 1]?)).getD 0

/-- `forc.deepTemp = Tsoil[_soilindex1][month - 1]`, `forc.waterTemp = Tsoil[2][month - 1]`. -/
def deepTable (g : Epw.Ground) (idx month : Nat) : Deep ℚ := ⟨tsoil g idx month, tsoil g 2 month⟩

/-- Fewer than three depths: `sum(forcIP.temp) / float(len(forcIP.temp))` and that `- 10.0`. -/
def meanDeep (rs : List Weather.Rec) : Deep ℚ :=
  let m := (rs.map (·.temp)).sum / (rs.length : ℚ)
  ⟨m, m - 10⟩

/-- The road column of `_compute_input` for the depths of the header (`MAXTHICKNESS = 0.05`,
    `MINTHICKNESS = 0.01`, tolerance `1e-15`; the soil material does not influence the index). -/
def roadColumn (droad kroad croad : ℚ) (g : Epw.Ground) : ColumnOutcome ℚ :=
  columnOutcome (1 / 20) (1 / 100) (1 / 1000000000000000) droad kroad croad 1 2000000
    (g.recs.map (·.depth))

inductive ColErr where
  | index     -- IndexError in `_procmat` (no pavement layer)
  | refused   -- the road is deeper than the deepest ground temperature depth
  deriving DecidableEq, Repr

/-- The monthly table `simulate` looks the deep temperatures up in: row `_soilindex1` of `Tsoil` (and row 2). -/
def tableOf (droad kroad croad : ℚ) (g : Epw.Ground) : Nat → Deep ℚ :=
  match roadColumn droad kroad croad g with
  | .ok _ (some i) => deepTable g i
  | _ => fun _ => ⟨0, 0⟩

/-- The deep-temperature selection of the run (`if self.nSoil < 3`). With at least three depths the column
    outcome always carries an index (`columnOutcome` refuses otherwise); the `none` branch is unreachable
    (`Props/Pipeline.lean`, `soilOf_ok`). -/
def soilOf (droad kroad croad : ℚ) (g : Epw.Ground) (recs : List Weather.Rec) :
    Except ColErr (Soil (Deep ℚ)) :=
  match roadColumn droad kroad croad g with
  | .index => .error .index
  | .refused => .error .refused
  | .ok _ idx =>
    if 3 ≤ g.nSoil then
      match idx with
      | some _ => .ok (.monthly (tableOf droad kroad croad g))
      | none => .error .refused
    else .ok (.windowMean (meanDeep recs))

/-! ## The loop for a given number of hours -/

/-- `simulate()` for `hours` record slots and `hours·3600/dt` passes (`N = int(simTime.days * 24)`,
    `range(1, simTime.nt)`); `Sim.simulate` is the case `hours = 24·days` (`simulateHours_days`). The tie
    runs the first hour only (`simTime.days = 1/24`, `simTime.nt = 3600/dt + 1` set on the generated object). -/
def simulateHours {St R D Rc E : Type} (P : Phys St R D Rc E) (soil : Soil D) (dt M Dy hours : Nat)
    (rows : List R) (s0 : St) : Outcome St Rc E :=
  match Clock.create dt M Dy with
  | .error .zerodiv => .error ([], .drv .zerodiv)
  | .error .timestep => .error ([], .drv .timestep)
  | .ok c0 =>
    let r := traceLoop dt hours rows.length (hours * 3600 / dt) 1 c0 0
    match runSteps P (deepAt soil) rows r.1 s0 [] with
    | .error x => .error x
    | .ok (s, recs) =>
      match r.2 with
      | none => .ok (s, recs)
      | some e => .error (recs, .drv e)

/-! ## The pipeline -/

/-- Where the pipeline stopped. -/
inductive PipeErr where
  | header (e : Epw.Err)        -- `generate()`: `_read_epw` (IndexError / ValueError)
  | timestep (e : ClockErr)     -- `generate()`: `SimParam` refused the timestep
  | weather (e : Weather.Err)   -- `generate()`: `Weather.__init__`
  | initWind                    -- `generate()`: `UCMDef(…)`: `max(staUmod[0], windMin)` with text in the first row
  | column (e : ColErr)         -- `generate()`: road column
  | sim (e : SimErr Err)        -- `simulate()` raised
  | write                       -- `write_epw()`: IndexError
  deriving Repr

/-- `UCMDef.__init__` computes `max(initialWind, windMin)` with `initialWind = weather.staUmod[0]`: text in the
    wind cell of the FIRST window row is a `TypeError` inside `generate()` (the only exception of the
    constructors `generate()` calls between `Weather` and the road column that the model carries; the others
    depend on the parameter file and belong to `init`). -/
def initWindText (recs : List Weather.Rec) : Bool :=
  match recs.head? with
  | some w => (match w.umod with | .text => true | .num _ => false)
  | none => false

/-- `generate(); simulate()`: the final state and the records, or the failing stage. `days` fixes the window
    `Weather` cuts, `hours` the number of record slots. -/
def pipelineSim (S : Sym ℚ) (C0 : Cfg ℚ) (init : Option Weather.Rec → State ℚ) (droad kroad croad : ℚ)
    (dt M Dy days hours : Nat) (hdr rows : List Csv.Row) : Except PipeErr (State ℚ × List Res) :=
  match Epw.readHeader hdr with
  | .error e => .error (.header e)
  | .ok (site, g) =>
    match Clock.create dt M Dy with
    | .error e => .error (.timestep e)
    | .ok _ =>
      match Weather.read S (hdr ++ rows) (timeInitial M Dy) (timeFinal M Dy days) with
      | .error e => .error (.weather e)
      | .ok recs =>
        if initWindText recs then .error .initWind
        else
          match soilOf droad kroad croad g recs with
          | .error e => .error (.column e)
          | .ok soil =>
            match simulateHours (physW S (cfgOf C0 site dt)) soil dt M Dy hours recs (init recs.head?) with
            | .error x => .error (.sim x.2)
            | .ok x => .ok x

/-- `generate(); simulate(); write_epw()` with `hours` record slots. -/
def pipelineCore (S : Sym ℚ) (C0 : Cfg ℚ) (init : Option Weather.Rec → State ℚ) (droad kroad croad : ℚ)
    (dt M Dy days hours p : Nat) (hdr rows : List Csv.Row) : Except PipeErr (List Char) :=
  match pipelineSim S C0 init droad kroad croad dt M Dy days hours hdr rows with
  | .error e => .error e
  | .ok x =>
    match writeEpw hdr rows (Morph.startRow M Dy) x.2 p with
    | none => .error .write
    | some text => .ok text

/-- **The pipeline**: header rows + data rows of the rural file, parameters, initial state ↦ the text of the
    written file, or the failing stage. -/
def pipeline (S : Sym ℚ) (C0 : Cfg ℚ) (init : Option Weather.Rec → State ℚ) (droad kroad croad : ℚ)
    (dt M Dy days p : Nat) (hdr rows : List Csv.Row) : Except PipeErr (List Char) :=
  pipelineCore S C0 init droad kroad croad dt M Dy days (24 * days) p hdr rows

/-! ## The same run as an instance of composition A -/

/-- `proj` of composition A: the station record of a rural row (total: a row `Weather` would refuse gets a
    record of zeros, never reached when `Weather.read` returned). -/
def projD (S : Sym ℚ) (r : Csv.Row) : Weather.Rec :=
  match Weather.rowRec S r with
  | .ok x => x
  | .error _ => ⟨0, .text, 0, 0, .text, .text, .text, .text, .text, .text, 0, 0⟩

/-- Stages of composition A as stages of the pipeline. -/
def ofMorph : Morph.MorphErr Err → PipeErr
  | .timestep e => .timestep e
  | .weather => .weather .index
  | .sim e => .sim e
  | .write => .write

end Uwg.Pipeline
