/-
`Weather.__init__` (uwg/weather.py) together with `utilities.str2fl`: the rural rows HI..HF of the EPW table
become the station vectors of the simulation.

    cd = climate_data[HI:HF + 1]
    staTemp = str2fl([cd[i][6] …]); staTdp 7; staRhum 8; staPres 9; staInfra 12; staHor 13; staDir 14; staDif 15;
    staUdir 20; staUmod 21
    staHum[i] = hum_from_rhum_temp(staRhum[i], staTemp[i], staPres[i]);  staTemp = [s + 273.15 …];  staRobs = 0

`str2fl` turns `""` into the text "null", removes commas, and leaves what `float` refuses as text. Text only
matters where arithmetic touches it (the three humidity inputs → `TypeError`); in the other seven columns it is
carried along. The model keeps Python's two phases (all cell accesses of all rows first, then the humidity loop),
so the exception class of a malformed window is the one Python raises.
Executed at ℚ with the shared stub symbols.
-/
import UwgVerif.Model.NumTok
import UwgVerif.Model.Psychro

namespace Uwg.Weather
open Uwg.C06

abbrev Row := List Str

inductive Err where
  | index | type | zerodiv | value
  deriving DecidableEq, Repr

/-- an entry of a list returned by `str2fl` -/
inductive Val where
  | num (q : ℚ)
  | text
  deriving DecidableEq, Repr

/-- `helper_to_fl` -/
def str2flCell (c : Str) : Val :=
  if c = [] then .text
  else match parseFloat (c.filter (· ≠ ',')) with
    | some q => .num q
    | none => .text

/-- the ten cells of a row that `Weather.__init__` touches, in the order of the statements -/
structure Raw where
  temp : Val
  tdp : Val
  rhum : Val
  pres : Val
  infra : Val
  hor : Val
  dir : Val
  dif : Val
  udir : Val
  umod : Val
  deriving DecidableEq, Repr

def cell (r : Row) (j : Nat) : Except Err Val :=
  match r[j]? with
  | some c => .ok (str2flCell c)
  | none => .error .index

def extract (r : Row) : Except Err Raw := do
  let temp ← cell r 6
  let tdp ← cell r 7
  let rhum ← cell r 8
  let pres ← cell r 9
  let infra ← cell r 12
  let hor ← cell r 13
  let dir ← cell r 14
  let dif ← cell r 15
  let udir ← cell r 20
  let umod ← cell r 21
  return ⟨temp, tdp, rhum, pres, infra, hor, dir, dif, udir, umod⟩

/-- a station record: what the simulation reads for one rural row -/
structure Rec where
  temp : ℚ      -- K
  tdp : Val
  rhum : ℚ
  pres : ℚ
  infra : Val
  hor : Val
  dir : Val
  dif : Val
  udir : Val
  umod : Val
  hum : ℚ
  robs : ℚ
  deriving DecidableEq, Repr

def ofPErr : PErr → Err
  | .zerodiv => .zerodiv
  | .value => .value

/-- the humidity loop body and the final `+ 273.15` for one row -/
def finish (s : Sym ℚ) (w : Raw) : Except Err Rec :=
  match w.temp with
  | .text => .error .type
  | .num t =>
    if t + 273.15 = 0 then .error .zerodiv
    else if t + 273.15 ≤ 0 then .error .value
    else match w.rhum with
      | .text => .error .type
      | .num rh =>
        match w.pres with
        | .text => .error .type
        | .num p =>
          match humFromRh s rh t p with
          | .error e => .error (ofPErr e)
          | .ok h => .ok ⟨t + 273.15, w.tdp, rh, p, w.infra, w.hor, w.dir, w.dif, w.udir, w.umod, h, 0⟩

/-- a Python list comprehension / loop whose body may raise: stops at the first exception -/
def mapE {α β ε : Type} (f : α → Except ε β) : List α → Except ε (List β)
  | [] => .ok []
  | a :: as =>
    match f a with
    | .error e => .error e
    | .ok b =>
      match mapE f as with
      | .error e => .error e
      | .ok bs => .ok (b :: bs)

def extractAll (cd : List Row) : Except Err (List Raw) := mapE extract cd

def finishAll (s : Sym ℚ) (ws : List Raw) : Except Err (List Rec) := mapE (finish s) ws

/-- the slice `climate_data[HI:HF + 1]` -/
def window (table : List Row) (HI HF : Nat) : List Row := (table.drop HI).take (HF + 1 - HI)

/-- `Weather(epw, HI, HF)` on the parsed table -/
def read (s : Sym ℚ) (table : List Row) (HI HF : Nat) : Except Err (List Rec) :=
  match table with
  | [] => .error .index                       -- climate_data[0]
  | first :: _ =>
    match first[1]? with
    | none => .error .index                   -- climate_data[0][1]
    | some _ =>
      let cd := window table HI HF
      if cd = [] then .error .index           -- str2fl([]) : x[0]
      else do
        let ws ← extractAll cd
        finishAll s ws

/-- the record of one row, both phases -/
def rowRec (s : Sym ℚ) (r : Row) : Except Err Rec := do
  let w ← extract r
  finish s w

end Uwg.Weather
