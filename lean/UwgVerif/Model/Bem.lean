/-
Model of the building-stock selection of uwg (uwg/uwg.py): the `bld` setter, the six optional
override setters, `_customize_reference_data`, `_compute_BEM` (as repaired) and `generate`'s
"customise, then select" order — plus `computeBEMAsis`, the selection logic before the repair,
kept to exhibit the four old behaviours (Props/C07, T6).

Conventions (each one mirrors a fact of the Python code, none is a simplification of control flow):

* A `BEMDef` is an `Arch`: its `bldtype` text, its `builtera` as the index in `REF_BUILTERA`
  (the `BEMDef.builtera` setter only accepts the three texts 'pre80' 'pst80' 'new', so text and
  index are in bijection; `era ≥ 3` cannot come from Python and is answered like the `ValueError`
  of `REF_BUILTERA.index`), an opaque payload identity `pid` (which object it is) and the six
  attributes an optional override may replace.
* The reference library `refBEM` is `Lib = List (List (List (Option Arch)))`, type × era × zone.
  Every subscript of the Python is an explicit look-up here; a missing row/column is `Err.index`.
* Python keys the stock dictionary by the *concatenated text* `bldtype + builtera`. Because the era
  text is one of three fixed words, concatenation is injective on (type, era) — proved as
  `Uwg.C07.key_text_injective` — so the model keys by the pair `(bldtype, era index)`.
* Numbers (fractions, attributes, overrides) live in a field `K`; executed at ℚ against the real
  source run over exact `Fraction`s.
-/
import Mathlib.Algebra.Field.Defs
import Mathlib.Algebra.Order.Ring.Defs

namespace Uwg.Bem

/-- Exception classes of the Python code, as the harness names them. -/
inductive Err where
  | assert   -- AssertionError (setters)
  | value    -- ValueError (tuple.index)
  | index    -- IndexError (subscript out of range)
  | zerodiv  -- ZeroDivisionError (floor height 0)
  | attr     -- AttributeError (`None.frac = …`)
  | refuse   -- Exception raised for stock rows without reference data
deriving DecidableEq, Repr

def Err.name : Err → String
  | .assert => "assert" | .value => "value" | .index => "index"
  | .zerodiv => "zerodiv" | .attr => "attr" | .refuse => "refuse"

/-! ### The three reference tuples of `uwg/utilities.py` -/

def refBldType : List String :=
  ["fullservicerestaurant", "hospital", "largehotel", "largeoffice", "medoffice",
   "midriseapartment", "outpatient", "primaryschool", "quickservicerestaurant",
   "secondaryschool", "smallhotel", "smalloffice", "standaloneretail", "stripmall",
   "supermarket", "warehouse"]

def refBuiltEra : List String := ["pre80", "pst80", "new"]

def refZoneType : List String :=
  ["1A", "2A", "2B", "3A", "3B-CA", "3B", "3C", "4A", "4B", "4C", "5A", "5B", "6A", "6B", "7", "8"]

/-- `REF_ZONETYPE_SET`: the 18 zone texts the `zone` setter accepts (after `.upper()`). -/
def zoneSet : List String :=
  ["1A", "1B", "2A", "2B", "3A", "3B-CA", "3B", "3C", "4A", "4B", "4C", "5A", "5B", "5C", "6A",
   "6B", "7", "8"]

/-- `str.lower()` restricted to what matters here: ASCII letters. (No non-ASCII character
    lower-cases to one of the letters of 'pre80', 'pst80', 'new', so on the era texts accepted by
    the setter this is Python's `lower`.) -/
def lower (s : String) : String := String.ofList (s.toList.map Char.toLower)

/-- `REF_BUILTERA.index(text.lower())`; `none` where Python raises `ValueError`. -/
def eraIdx? (s : String) : Option Nat := refBuiltEra.idxOf? (lower s)

/-- `REF_BUILTERA.index(text)` without lower-casing (the code before the repair). -/
def eraIdxRaw? (s : String) : Option Nat := refBuiltEra.idxOf? s

/-- `bld_z = '1A' if zone == '1B' else '5B' if zone == '5C' else zone`. -/
def proxyZone (z : String) : String := if z = "1B" then "1A" else if z = "5C" then "5B" else z

/-- `REF_ZONETYPE.index(bld_z)`; `none` where Python raises `ValueError`. -/
def zoneIdx? (z : String) : Option Nat := refZoneType.idxOf? (proxyZone z)

/-! ### Data -/

/-- One reference or custom archetype (`BEMDef`). -/
structure Arch (K : Type) where
  bldtype : String
  era : Nat
  pid : Nat
  glz : K       -- building.glazing_ratio
  shgc : K      -- building.shgc
  albWall : K   -- wall.albedo
  albRoof : K   -- roof.albedo
  vegRoof : K   -- roof.vegcoverage
  flrH : K      -- building.floor_height
deriving DecidableEq, Repr

abbrev LibRow (K : Type) := List (List (Option (Arch K)))
abbrev Lib (K : Type) := List (LibRow K)

/-- One row of the `bld` list as the user wrote it. -/
structure Row (K : Type) where
  bldtype : String
  era : String
  frac : K
deriving DecidableEq, Repr

/-- The inputs `_compute_BEM` reads from the `UWG` object. -/
structure Params (K : Type) where
  zone : String
  bld : List (Row K)
  glzr : Option K
  shgc : Option K
  albwall : Option K
  albroof : Option K
  vegroof : Option K
  flrh : Option K
  charlength : K
  blddensity : K
  bldheight : K

abbrev Key := String × Nat

/-- A stock-dictionary hit during the library scan: the key, the archetype that Python appends
    (`refBEM[i][builtera_idx][zone_idx]`) and the aggregated fraction. -/
structure Hit (K : Type) where
  key : Key
  src : Arch K
  frac : K
deriving DecidableEq, Repr

/-- One element of `UWG.BEM` after `_compute_BEM`. -/
structure Entry (K : Type) where
  arch : Arch K   -- attributes as carried by the simulated building (after overrides)
  frac : K
  flArea : K
deriving DecidableEq, Repr

structure Totals (K : Type) where
  rGlaze : K
  shgc : K
  albWall : K
deriving DecidableEq, Repr

variable {K : Type}

/-! ### Setters -/

section Ordered
variable [Field K] [LinearOrder K]

def absK (x : K) : K := if x < 0 then -x else x

/-- Loop of the `bld` setter: era text (lower-cased) must be a reference era, `0 ≤ frac ≤ 1`;
    returns the running total. -/
def bldSetterLoop : List (Row K) → K → Except Err K
  | [], t => .ok t
  | r :: rs, t =>
    if (eraIdx? r.era).isNone then .error .assert
    else if ¬ (0 ≤ r.frac ∧ r.frac ≤ 1) then .error .assert
    else bldSetterLoop rs (t + r.frac)

/-- The `bld` setter: stores the list unchanged or raises `AssertionError`. -/
def bldSetter (rows : List (Row K)) : Except Err (List (Row K)) :=
  match bldSetterLoop rows 0 with
  | .error e => .error e
  | .ok t => if absK (t - 1) < 1 / 100 then .ok rows else .error .assert

/-- Setters of `glzr`, `shgc`, `albwall`, `albroof`, `vegroof`: `None` or `float_in_range(v, 0, 1)`. -/
def ovSetter01 : Option K → Except Err (Option K)
  | none => .ok none
  | some v => if 0 ≤ v ∧ v ≤ 1 then .ok (some v) else .error .assert

/-- Setter of `flr_h`: `None` or `float_in_range_excl(v, 0)`, i.e. strictly positive. -/
def ovSetterPos : Option K → Except Err (Option K)
  | none => .ok none
  | some v => if 0 < v then .ok (some v) else .error .assert

end Ordered

/-! ### `_customize_reference_data` -/

/-- `[[None for c in range(16)] for r in range(3)]`. -/
def newRow : LibRow K := List.replicate 3 (List.replicate 16 none)

/-- `lib[ti][ei][zi] = a`. -/
def setCell (lib : Lib K) (ti ei zi : Nat) (a : Arch K) : Except Err (Lib K) :=
  match lib[ti]? with
  | none => .error .index
  | some row =>
    match row[ei]? with
    | none => .error .index
    | some col =>
      if zi < col.length then .ok (lib.set ti (row.set ei (col.set zi (some a))))
      else .error .index

/-- `custom_bem_row`: new-type name → index of the row appended for it (insertion order). -/
abbrev RowMap := List (String × Nat)

def lookupRow (t : String) : RowMap → Option Nat
  | [] => none
  | (t', i) :: rest => if t' = t then some i else lookupRow t rest

/-- Body of the loop over `ref_bem_vector`: a reference type is written into its own row; a new
    type into the row appended at its first appearance (later customs of that type reuse it). -/
def customize1 (zi : Nat) (lib : Lib K) (m : RowMap) (c : Arch K) : Except Err (Lib K × RowMap) :=
  if 3 ≤ c.era then .error .value
  else
    match refBldType.idxOf? c.bldtype with
    | some ti =>
      match setCell lib ti c.era zi c with
      | .error e => .error e
      | .ok lib' => .ok (lib', m)
    | none =>
      match lookupRow c.bldtype m with
      | some ti =>
        match setCell lib ti c.era zi c with
        | .error e => .error e
        | .ok lib' => .ok (lib', m)
      | none =>
        match setCell (lib ++ [newRow]) lib.length c.era zi c with
        | .error e => .error e
        | .ok lib' => .ok (lib', m ++ [(c.bldtype, lib.length)])

def customizeLoop (zi : Nat) : List (Arch K) → Lib K → RowMap → Except Err (Lib K × RowMap)
  | [], lib, m => .ok (lib, m)
  | c :: cs, lib, m =>
    match customize1 zi lib m c with
    | .error e => .error e
    | .ok (lib', m') => customizeLoop zi cs lib' m'

/-- `_customize_reference_data` (the BEM half; the schedule half has the same shape, keys and its
    own row dictionary). -/
def customize (zone : String) (cs : List (Arch K)) (lib : Lib K) : Except Err (Lib K) :=
  match zoneIdx? zone with
  | none => .error .value
  | some zi =>
    match customizeLoop zi cs lib [] with
    | .error e => .error e
    | .ok (lib', _) => .ok lib'

/-! `_customize_reference_data` before the repair: every custom of a new type appended a row of its
own (so two customs with the same new type and era were both simulated). -/

def customize1Asis (zi : Nat) (lib : Lib K) (c : Arch K) : Except Err (Lib K) :=
  if 3 ≤ c.era then .error .value
  else
    match refBldType.idxOf? c.bldtype with
    | some ti => setCell lib ti c.era zi c
    | none => setCell (lib ++ [newRow]) lib.length c.era zi c

def customizeLoopAsis (zi : Nat) : List (Arch K) → Lib K → Except Err (Lib K)
  | [], lib => .ok lib
  | c :: cs, lib =>
    match customize1Asis zi lib c with
    | .error e => .error e
    | .ok lib' => customizeLoopAsis zi cs lib'

def customizeAsis (zone : String) (cs : List (Arch K)) (lib : Lib K) : Except Err (Lib K) :=
  match zoneIdx? zone with
  | none => .error .value
  | some zi => customizeLoopAsis zi cs lib

/-! ### `_compute_BEM` -/

/-- `refBEM[i][j][z]` for the row `refBEM[i]`. -/
def cell (row : LibRow K) (j z : Nat) : Except Err (Option (Arch K)) :=
  match row[j]? with
  | none => .error .index
  | some col =>
    match col[z]? with
    | none => .error .index
    | some c => .ok c

/-- Stock rows with their dictionary key; `ValueError` if the era text is no reference era. -/
def keyed : List (Row K) → Except Err (List (Key × K))
  | [] => .ok []
  | r :: rs =>
    match eraIdx? r.era with
    | none => .error .value
    | some e =>
      match keyed rs with
      | .error x => .error x
      | .ok l => .ok (((r.bldtype, e), r.frac) :: l)

def lookup (k : Key) : List (Key × K) → Option K
  | [] => none
  | (k', g) :: rest => if k' = k then some g else lookup k rest

section Field
variable [Field K] [DecidableEq K]

/-- `bld_dict[key] = frac + (bld_dict[key] if key in bld_dict else 0.0)`; a Python dict keeps the
    position of the first insertion. -/
def dictAdd (k : Key) (f : K) : List (Key × K) → List (Key × K)
  | [] => [(k, f + 0)]
  | (k', g) :: rest => if k' = k then (k', f + g) :: rest else (k', g) :: dictAdd k f rest

def aggregate (rows : List (Key × K)) : List (Key × K) :=
  rows.foldl (fun d r => dictAdd r.1 r.2 d) []

/-- One `(i, j)` step of the scan: skip `None`, form the key from the cell's own attributes, and on
    a dictionary hit take `refBEM[i][builtera_idx][zone_idx]` (`builtera_idx` is the era index of
    the matched key). -/
def scanCell (d : List (Key × K)) (z : Nat) (row : LibRow K) (j : Nat) :
    Except Err (Option (Hit K)) :=
  match cell row j z with
  | .error e => .error e
  | .ok none => .ok none
  | .ok (some a) =>
    match lookup (a.bldtype, a.era) d with
    | none => .ok none
    | some f =>
      match cell row a.era z with
      | .error e => .error e
      | .ok none => .error .attr
      | .ok (some b) => .ok (some ⟨(a.bldtype, a.era), b, f⟩)

def scanRow (d : List (Key × K)) (z : Nat) (row : LibRow K) : Except Err (List (Hit K)) :=
  match scanCell d z row 0 with
  | .error e => .error e
  | .ok h0 =>
    match scanCell d z row 1 with
    | .error e => .error e
    | .ok h1 =>
      match scanCell d z row 2 with
      | .error e => .error e
      | .ok h2 => .ok (h0.toList ++ (h1.toList ++ h2.toList))

def scan (d : List (Key × K)) (z : Nat) : Lib K → Except Err (List (Hit K))
  | [] => .ok []
  | row :: rest =>
    match scanRow d z row with
    | .error e => .error e
    | .ok hs =>
      match scan d z rest with
      | .error e => .error e
      | .ok tl => .ok (hs ++ tl)

/-- `x = override if override is not None else x`. -/
def ov (o : Option K) (x : K) : K :=
  match o with
  | none => x
  | some v => v

def applyOv (P : Params K) (b : Arch K) : Arch K :=
  { b with
    glz := ov P.glzr b.glz
    shgc := ov P.shgc b.shgc
    albWall := ov P.albwall b.albWall
    albRoof := ov P.albroof b.albRoof
    vegRoof := ov P.vegroof b.vegRoof
    flrH := ov P.flrh b.flrH }

def mkEntry (P : Params K) (area : K) (h : Hit K) : Entry K :=
  { arch := applyOv P h.src, frac := h.frac, flArea := h.frac * area }

/-- The three running totals, accumulated left to right from 0 as in the Python loop. -/
def totals (es : List (Entry K)) : Totals K :=
  es.foldl (fun t e =>
    { rGlaze := t.rGlaze + e.frac * e.arch.glz
      shgc := t.shgc + e.frac * e.arch.shgc
      albWall := t.albWall + e.frac * e.arch.albWall }) ⟨0, 0, 0⟩

/-- `h_floor = 3.05 if self.flr_h is None else self.flr_h`. -/
def hFloor (P : Params K) : K :=
  match P.flrh with
  | none => 61 / 20
  | some v => v

/-- Keys of the stock dictionary that no scanned cell matched. -/
def unmatched (d : List (Key × K)) (hs : List (Hit K)) : List Key :=
  (d.map (·.1)).filter (fun k => !(hs.map (·.key)).contains k)

/-- `UWG._compute_BEM` as it stands (repaired): `(BEM, (r_glaze_total, SHGC_total, alb_wall_total))`
    or the exception class. The `zerodiv` branch (floor height 0) is in the code and kept here, but
    the `flr_h` setter (`ovSetterPos`) no longer accepts 0, so it is unreachable through the
    setters (`Uwg.C08.flrh_zero_refused`). -/
def computeBEM (P : Params K) (lib : Lib K) : Except Err (List (Entry K) × Totals K) :=
  if hFloor P = 0 then .error .zerodiv
  else
    let area := P.charlength ^ 2 * P.blddensity * P.bldheight / hFloor P
    match zoneIdx? P.zone with
    | none => .error .value
    | some z =>
      match keyed P.bld with
      | .error e => .error e
      | .ok rows =>
        let d := aggregate rows
        match scan d z lib with
        | .error e => .error e
        | .ok hs =>
          let es := hs.map (mkEntry P area)
          if unmatched d hs = [] then .ok (es, totals es) else .error .refuse

/-- `generate`: customise the freshly loaded library when `ref_bem_vector` is non-empty, then
    select. -/
def generateBEM (P : Params K) (cs : List (Arch K)) (lib : Lib K) :
    Except Err (List (Entry K) × Totals K) :=
  match cs with
  | [] => computeBEM P lib
  | _ :: _ =>
    match customize P.zone cs lib with
    | .error e => .error e
    | .ok lib' => computeBEM P lib'

/-! ### The selection logic before the repair (for the `asis_*` witnesses only)

`bld_dict = {type + era: (type, REF_BUILTERA.index(era), frac)}` (a later duplicate overwrites an
earlier one, era text not lower-cased), `None`-test and key read at zone column **0**, entry taken at
the zone column, overrides under truthiness (`if self.glzr:`), `h_floor = self.flr_h or 3.05`,
no check that every row was matched. -/

def keyedAsis : List (Row K) → Except Err (List (Key × K))
  | [] => .ok []
  | r :: rs =>
    match eraIdxRaw? r.era with
    | none => .error .value
    | some e =>
      match keyedAsis rs with
      | .error x => .error x
      | .ok l => .ok (((r.bldtype, e), r.frac) :: l)

def dictSet (k : Key) (f : K) : List (Key × K) → List (Key × K)
  | [] => [(k, f)]
  | (k', g) :: rest => if k' = k then (k', f) :: rest else (k', g) :: dictSet k f rest

def scanCellAsis (d : List (Key × K)) (z : Nat) (row : LibRow K) (j : Nat) :
    Except Err (Option (Hit K)) :=
  match cell row j 0 with
  | .error e => .error e
  | .ok none => .ok none
  | .ok (some a) =>
    match lookup (a.bldtype, a.era) d with
    | none => .ok none
    | some f =>
      match cell row a.era z with
      | .error e => .error e
      | .ok none => .error .attr
      | .ok (some b) => .ok (some ⟨(a.bldtype, a.era), b, f⟩)

def scanAsis (d : List (Key × K)) (z : Nat) : Lib K → Except Err (List (Hit K))
  | [] => .ok []
  | row :: rest =>
    match scanCellAsis d z row 0 with
    | .error e => .error e
    | .ok h0 =>
      match scanCellAsis d z row 1 with
      | .error e => .error e
      | .ok h1 =>
        match scanCellAsis d z row 2 with
        | .error e => .error e
        | .ok h2 =>
          match scanAsis d z rest with
          | .error e => .error e
          | .ok tl => .ok (h0.toList ++ (h1.toList ++ h2.toList) ++ tl)

end Field

section AsisOv
variable [Field K] [DecidableEq K]

/-- `if override: x = override` — a zero override is falsy and therefore ignored. -/
def ovTruthy (o : Option K) (x : K) : K :=
  match o with
  | none => x
  | some v => if v = 0 then x else v

def applyOvAsis (P : Params K) (b : Arch K) : Arch K :=
  { b with
    glz := ovTruthy P.glzr b.glz
    shgc := ovTruthy P.shgc b.shgc
    albWall := ovTruthy P.albwall b.albWall
    albRoof := ovTruthy P.albroof b.albRoof
    vegRoof := ovTruthy P.vegroof b.vegRoof
    flrH := ovTruthy P.flrh b.flrH }

def computeBEMAsis (P : Params K) (lib : Lib K) : Except Err (List (Entry K) × Totals K) :=
  let hfl := ovTruthy P.flrh (61 / 20)
  let area := P.charlength ^ 2 * P.blddensity * P.bldheight / hfl
  match zoneIdx? P.zone with
  | none => .error .value
  | some z =>
    match keyedAsis P.bld with
    | .error e => .error e
    | .ok rows =>
      let d := rows.foldl (fun d r => dictSet r.1 r.2 d) []
      match scanAsis d z lib with
      | .error e => .error e
      | .ok hs =>
        let es := hs.map (fun h =>
          ({ arch := applyOvAsis P h.src, frac := h.frac, flArea := h.frac * area } : Entry K))
        .ok (es, totals es)

end AsisOv

end Uwg.Bem
