/-
The whole of `Element.SurfFlux` (uwg/element.py): season partition (Model/Season.lean, C18) followed by
one conduction step (Model/Conduction.lean, C11).

Mirrored, in source order:

* `dens = forc.pres / (1000 * 0.287042 * tempRef * (1. + 1.607858 * humRef))` - computed first; only the
  (dead) evaporation branch would use it, but a zero denominator raises ZeroDivisionError here;
* `self.aeroCond = 5.8 + 3.7 * windRef`;
* horizontal elements: `waterStorage` is set to 0 in `Element.__init__` and never assigned anywhere else
  in uwg, so `not is_near_zero(self.waterStorage) and self.waterStorage > 0.0` is always false: the
  evaporation branch is DEAD and the model follows the `else` branch (`eg = 0.`,
  `soilLat = eg * waterDens * lv`); then the season test and the absorbed / latent / sensible
  partition = `surfFluxHorizontal`; `self.layerTemp[0]` raises IndexError for an element without layers;
* vertical elements: `solAbs = (1 − albedo)·solRec`, `lat = 0`, `sens = aeroCond·(T₀ − tempRef)`;
* `flux = solAbs + infra − lat − sens`;
* `layerTemp = Conduction(simTime.dt, flux, boundCond, forc.deepTemp, intFlux)`: IndexError with fewer
  than two layers; `is_near_zero(bc − 1.)` → flux boundary with `intFlux`, `is_near_zero(bc − 2.)` →
  deep-temperature boundary with `forc.deepTemp`, anything else raises;
* `T_ext = layerTemp[0]`, `T_int = layerTemp[-1]`.
-/
import UwgVerif.Model.Season
import UwgVerif.Model.Conduction
import Mathlib.Algebra.Order.Field.Basic

namespace Uwg
variable {K : Type} [Field K] [LinearOrder K]

/-- State of the `Element` that `SurfFlux` reads. -/
structure SurfElement (K : Type) where
  horizontal : Bool
  albedo : K
  vegcoverage : K
  /-- `(grasscoverage, treecoverage)` - attributes that exist only on the urban road element -/
  roadCover : Option (K × K)
  solRec : K
  infra : K
  layers : List (Layer K)

/-- The arguments of `SurfFlux` (forcing, parameter object, clock, reference values, boundary). -/
structure SurfArgs (K : Type) where
  pres : K
  deepTemp : K
  vegStart : Nat
  vegEnd : Nat
  vegAlbedo : K
  grassFLat : K
  treeFLat : K
  waterDens : K
  lv : K
  month : Nat
  dt : K
  humRef : K
  tempRef : K
  windRef : K
  boundCond : K
  intFlux : K

inductive SurfErr
  | zerodiv | index | fatal
deriving DecidableEq, Repr

/-- What `SurfFlux` leaves on the element (`dens` is a local of the routine, kept for the tie). -/
structure SurfResult (K : Type) where
  dens : K
  aeroCond : K
  solAbs : K
  lat : K
  sens : K
  flux : K
  layerTemp : List K
  tExt : K
  tInt : K

/-- `utilities.is_near_zero(x)`: `abs(x) < 1e-10`. -/
def isNearZero (x : K) : Bool := decide ((if x < 0 then -x else x) < 1 / 10000000000)

/-- Denominator of the density line. -/
def densDenom (a : SurfArgs K) : K :=
  1000 * (287042 / 1000000) * a.tempRef * (1 + (1607858 / 1000000) * a.humRef)

/-- `aeroCond = 5.8 + 3.7 * windRef`. -/
def aeroCondOf (windRef : K) : K := 58 / 10 + 37 / 10 * windRef

/-- Inputs of the season partition for a horizontal element with outer-layer temperature `t0`. -/
def surfIn (e : SurfElement K) (a : SurfArgs K) (t0 : K) : SurfIn K :=
  { albedo := e.albedo, vegcoverage := e.vegcoverage, roadCover := e.roadCover, solRec := e.solRec,
    infra := e.infra, soilLat := 0 * a.waterDens * a.lv, aeroCond := aeroCondOf a.windRef, tSurf := t0,
    tempRef := a.tempRef, vegAlbedo := a.vegAlbedo, grassFLat := a.grassFLat, treeFLat := a.treeFLat }

/-- Vertical branch (walls). -/
def surfFluxVertical (e : SurfElement K) (a : SurfArgs K) (t0 : K) : SurfOut K :=
  let solAbs := (1 - e.albedo) * e.solRec
  let sens := aeroCondOf a.windRef * (t0 - a.tempRef)
  { solAbs := solAbs, lat := 0, sens := sens, flux := solAbs + e.infra - 0 - sens }

/-- The partition of `SurfFlux` up to the net flux handed to `Conduction`. -/
def surfPartition (e : SurfElement K) (a : SurfArgs K) (t0 : K) : SurfOut K :=
  if e.horizontal then
    surfFluxHorizontal (offSeasonElement a.month a.vegStart a.vegEnd) (surfIn e a t0)
  else surfFluxVertical e a t0

/-- `Element.SurfFlux(forc, parameter, simTime, humRef, tempRef, windRef, boundCond, intFlux)`. -/
def surfFlux (e : SurfElement K) (a : SurfArgs K) : Except SurfErr (SurfResult K) :=
  if densDenom a = 0 then .error .zerodiv else
  match e.layers.head? with
  | none => .error .index
  | some l0 =>
    let o := surfPartition e a l0.t
    let bc : Option (BC K) :=
      if isNearZero (a.boundCond - 1) then some (.flux a.intFlux)
      else if isNearZero (a.boundCond - 2) then some (.deep a.deepTemp) else none
    if e.layers.length < 2 then .error .index else
    match bc with
    | none => .error .fatal
    | some bc =>
      match conduction a.dt o.flux bc e.layers with
      | none => .error .index
      | some xs =>
        match xs.head?, xs.getLast? with
        | some x0, some xl =>
          .ok { dens := a.pres / densDenom a, aeroCond := aeroCondOf a.windRef, solAbs := o.solAbs,
                lat := o.lat, sens := o.sens, flux := o.flux, layerTemp := xs, tExt := x0, tInt := xl }
        | _, _ => .error .index

end Uwg
