/-
C06 — model of `UWG._read_input` (the `.uwg` parameter file reader) on the rows produced by
`utilities.read_csv` (Python's csv reader: a row is a list of cells; an empty line is `[]`).

`readInput` mirrors the REPAIRED reader: a malformed value raises `Exception` (`Err.exc`), the `bld`
block may be the last lines of the file. It is one structural recursion over the rows in which every
branch consumes at least one row; that Lean accepts the definition is the proof that the reader
terminates on every file. The nested `while` over the rows of a `bld` block is fused into the same
recursion through the accumulator `pend` (`some acc` = "inside a bld block, rows so far `acc`").

`rdAsis` is the reader as it was before the repair (the `except` branch prints and leaves the cursor
where it is), with fuel; `Props/C06.lean` shows it never finishes on the row `bldheight,abc`.
Core Lean only.
-/
import UwgVerif.Model.NumTok
import UwgVerif.Model.Params

namespace Uwg.C06
open Uwg.Gen

abbrev Row := List Str
abbrev Dict := List (Str × J)

/-- `c.replace(' ', '').lower()` -/
def clean (c : Str) : Str := lower (c.filter (fun x => x ≠ ' '))

/-- `utilities.str2fl` on one cell: "" ↦ "null"; commas removed; `float` if possible else the text -/
def schCell (s : Str) : J :=
  if s = [] then .str (cs! "null")
  else
    let s' := s.filter (fun x => x ≠ ',')
    match parseFloat s' with
    | some q => .num (.flt q)
    | none => .str s'

/-- `utilities.str2fl(r[:24])` on one raw row (`x[0]` on an empty row: IndexError -> Exception) -/
def schRow (r : Row) : Except Err J :=
  match r.take 24 with
  | [] => .error .exc
  | cells => .ok (.list (cells.map schCell))

def schRows : List Row → Except Err (List J)
  | [] => .ok []
  | r :: rs => match schRow r with
               | .error e => .error e
               | .ok x => match schRows rs with
                          | .error e => .error e
                          | .ok xs => .ok (x :: xs)

/-- `len(nextrow) > 0 and nextrow[0] in REF_BLDTYPE_SET` (on the cleaned row) -/
def isTypeRow : Row → Bool
  | [] => false
  | k :: _ => decide (k ∈ REF_BLDTYPES)

/-- `(nextrow[0], nextrow[1], float(nextrow[2]))` -/
def bldTriple : Row → Except Err J
  | t :: e :: f :: _ =>
    match parseFloat f with
    | some q => .ok (.list [.str t, .str e, .num (.flt q)])
    | none => .error .exc
  | _ => .error .exc

/-- what one top-level row makes the reader do -/
inductive Act
  | skip
  | store (k : Str) (v : J)
  | sch (k : Str)
  | bldHdr
  | fail (e : Err)
  deriving DecidableEq

/-- `float(row[1])` -/
def floatCell : List Str → Except Err J
  | [] => .error .exc
  | c :: _ => match parseFloat c with
              | some q => .ok (.num (.flt q))
              | none => .error .exc

/-- the `if/elif` chain of the reader on a cleaned row -/
def classify : Row → Act
  | [] => .skip
  | k :: cells =>
    if '#' ∈ k then .skip
    else if k = cs! "schtraffic" then .sch k
    else if k = cs! "bld" then .bldHdr
    else if k = cs! "zone" then
      match cells with
      | [] => .fail .exc
      | c :: _ => .store k (.str c)
    else if k ∈ optionalSet then
      match cells with
      | [] => .fail .exc
      | c :: _ => if c = [] then .store k .null else
                  match floatCell cells with
                  | .ok v => .store k v
                  | .error e => .fail e
    else
      match floatCell cells with
      | .ok v => .store k v
      | .error e => .fail e

/-- leaving a `bld` block: `self._init_param_dict['bld'] = bld` -/
def flush (pend : Option (List J)) (d : Dict) : Dict :=
  match pend with
  | none => d
  | some acc => aset (cs! "bld") (.list acc) d

/-- the reader loop -/
def rd : Option (List J) → List Row → Dict → Except Err Dict
  | pend, [], d => .ok (flush pend d)
  | pend, row :: rest, d =>
    let r := row.map clean
    match pend, isTypeRow r with
    | some acc, true =>
      match bldTriple r with
      | .error e => .error e
      | .ok t => rd (some (acc ++ [t])) rest d
    | _, _ =>
      let d := flush pend d
      match classify r with
      | .skip => rd none rest d
      | .store k v => rd none rest (aset k v d)
      | .fail e => .error e
      | .bldHdr => rd (some []) rest d
      | .sch k =>
        match rest with
        | r1 :: r2 :: r3 :: rest' =>
          match schRows [r1, r2, r3] with
          | .error e => .error e
          | .ok m => rd none rest' (aset k (.list m) d)
        | _ =>
          -- fewer than three rows left: the slice is shorter, `count += 4` ends the loop
          match schRows rest with
          | .error e => .error e
          | .ok m => .ok (aset k (.list m) d)

/-- `_init_param_dict` after the parsing loop of `_read_input` -/
def readInput (rows : List Row) : Except Err Dict := rd none rows []

/-- `assert attr in self._init_param_dict` then the value -/
def dictSrc (d : Dict) (n : Str) : Except Err J :=
  match alookup n d with
  | some v => .ok v
  | none => .error .assert

/-- `UWG.from_param_file`: parse, then `for attr in PARAMETER_LIST: assert attr in d; setattr(...)` -/
def UWG.fromFile (rows : List Row) : Except Err UWG :=
  match readInput rows with
  | .error e => .error e
  | .ok d =>
    match runSetters (dictSrc d) paramList initSt with
    | .error e => .error e
    | .ok st => .ok ⟨st, none, none⟩

/-! ### the reader before the repair (for the divergence witness) -/

inductive BldAsis
  | done (acc : List J) (rest : List Row)   -- block ended at a non-type row
  | eof                                      -- `param_data[count]` past the end: IndexError swallowed
  | stuck (rest : List Row)                  -- malformed type row: exception, cursor stays on it

def bldBlockAsis : List Row → List J → BldAsis
  | [], _ => .eof
  | row :: rest, acc =>
    let r := row.map clean
    if isTypeRow r then
      match bldTriple r with
      | .error _ => .stuck (row :: rest)
      | .ok t => bldBlockAsis rest (acc ++ [t])
    else .done acc (row :: rest)

/-- as-is reader with fuel (`none` = still running when the fuel ran out) -/
def rdAsis : Nat → List Row → Dict → Option Dict
  | 0, _, _ => none
  | _ + 1, [], d => some d
  | fuel + 1, row :: rest, d =>
    match classify (row.map clean) with
    | .skip => rdAsis fuel rest d
    | .store k v => rdAsis fuel rest (aset k v d)
    | .fail _ => rdAsis fuel (row :: rest) d
    | .sch k =>
      match schRows (rest.take 3) with
      | .error _ => rdAsis fuel (row :: rest) d
      | .ok m => rdAsis fuel (rest.drop 3) (aset k (.list m) d)
    | .bldHdr =>
      match bldBlockAsis rest [] with
      | .done acc rest' => rdAsis fuel rest' (aset (cs! "bld") (.list acc) d)
      | .eof => rdAsis fuel [] d
      | .stuck rest' => rdAsis fuel rest' d

def readInputAsis (fuel : Nat) (rows : List Row) : Option Dict := rdAsis fuel rows []

end Uwg.C06
