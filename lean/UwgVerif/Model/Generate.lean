/-
Composition E - `UWG._compute_input` (and what `generate()` does around it) as ONE total function.

`generate()` is `load_refDOE ; _customize_reference_data ; _read_epw ; _compute_BEM ; _compute_input ;
_hvac_autosize`. The reader of the header (`Epw.readHeader`), the building-stock selection (`Bem.computeBEM`),
the weather window (`Weather.read`) have exact-tied models; here is the rest, in the statement order of the Python:

  `SimParam(dtsim, dtweather, month, day, nday)`            → `simParam`   (refused timestep, `24*3600/timefor`)
  `Weather(...)`, `Forcing(staTemp, weather)`, `Forcing()`  → the FIRST station record is an argument (`Weather.read`
                                                              is the model of the rest); `forc` is the empty object
  `Param(...)` (`geoParam`)                                 → `geoParam` : all 36 fields, constants included
  `UBLDef('C', charlength, staTemp[0], maxdx, …)`           → `Urb.ublInit` (Model/UrbFlux.lean, Python `round`)
  `Material(kroad, croad)`, the three cover fractions, `ceil(droad / 0.05)`, the two `Element`s
                                                            → `materialChecks`, `elementChecks`, `newElem`
  `RSMDef(lat, lon, gmt, h_obs, T0, P0, geoParam, z_meso)`  → `rsmInit` : grid (`Rsm.mesoGrid`), the level search for
       `nz0 / nzref / nzfor / nz10 / nzi` (`level`; the three no pass reads are computed in `extraOfParts`), the initial
       temperature / pressure / real-temperature / density / wind profiles (hydrostatic integration UPWARDS from the
       station pressure - `vdm` integrates downwards)
  `RSMDef(…, bldheight / 10., …)` (`USM`)                   → same constructor, other height (`usmZ0r`, `usmDisp`)
  `UCMDef(…)`                                               → `Urb.ucmInit` / `Canyon.ucmGeometry` + `max(<str>, windMin)`
  `_procmat(road)`, soil padding, refusal, `Element(…)`     → `Pipeline.roadColumn` = `columnOutcome` (Model/Procmat.lean)
  the same for the rural column (`_soilindex2`)
  `_hvac_autosize`                                          → `autosize`

`stages` is the statements that can raise, in their order; `cfgOfParts`, `stateOfParts`, `extraOfParts` put the objects
together. Result: `Objects` = the configuration (`Step.Cfg`: everything a pass reads and never assigns), the state (`Step.State`:
everything a pass assigns) - in exactly the form `Step.step` / `Pipeline.pipeline` take them - and `Extra`: what
`generate()` leaves on the objects and no pass reads (all of `geoParam`, the padded `self.road`, `_soilindex1/2`,
`nz0 / nz10 / nzi`, `facAbsor`, `roadAbsor`, `ublWind`, `bldWidth`, `canWidth`, the `USM` roughness, the clock
constants `nt / timeInitial / timeFinal`). The tie (harness/props/generate.py) compares all three.

Exceptions are `GenErr` = (class, stage) in Python's order; the stage is the innermost frame of the real traceback.

What is NOT modelled here and stays an argument (said again in `Props/Generate.lean`):
* the selected `BEM` / `Sch` lists and the three totals as `_compute_BEM` delivers them (`Stock`); `stockOf` builds a
  `Stock` from the OUTPUT of the tied model `Bem.computeBEM` given the payload of every archetype (its `pid`);
* `z_meso` as a list of numbers (reading `z_meso.txt` is `float(''.join(line.split()))` per line);
* the libm symbols `Sym ℚ` (`math.pi`, `COLBURN = pow(0.713/0.621, 2/3.)`, `sqrt`, `**` with the exponents `r/cp`,
  `cp/r`, `0.5`; a negative base of `**` - a complex number in CPython - is outside the model as in `Rsm.vdm`);
* `RSM.nzfor = None` (no level at or above the night boundary-layer height although one at or above the reference
  height exists): `generate()` RETURNS, the first pass raises `TypeError` at `range(None)`; `Step.Cfg.nzfor` is a
  number, so this outcome is the explicit error `⟨nzfor, rsm⟩` of the model (the tie reports it on the real object);
* `dtweather ≠ 3600` in `generateFile` / `uwgMain` (the window arithmetic of `Model/Driver.lean` is for hourly files;
  `generateFull` itself takes any weather timestep).
-/
import UwgVerif.Model.Pipeline
import UwgVerif.Model.Bem

namespace Uwg.Gen
open Uwg Uwg.Step

/-! ## Exceptions -/

/-- Exception class: ZeroDivisionError, IndexError, ValueError, AssertionError, TypeError, the bare `Exception`s
    'TIMESTEP ERROR' and 'The road … is deeper than …', and the model's own `nzfor` (see the header). -/
inductive Cls where
  | zerodiv | index | value | assert | type | timestep | refused | nzfor
deriving DecidableEq, Repr

/-- Innermost uwg frame of the traceback: `SimParam.__init__`, `_compute_input` itself, `UBLDef.__init__`,
    a `Material` setter, an `Element` setter, `RSMDef.__init__`, `UCMDef.__init__`, `_procmat`. -/
inductive Stage where
  | simparam | input | ubl | material | element | rsm | ucm | procmat
deriving DecidableEq, Repr

structure GenErr where
  cls : Cls
  stage : Stage
deriving DecidableEq, Repr

def raise {α : Type} (c : Cls) (s : Stage) : Except GenErr α := .error ⟨c, s⟩

/-- a test that raises when it fails -/
def need (p : Prop) [Decidable p] (c : Cls) (s : Stage) : Except GenErr Unit :=
  if p then .ok () else .error ⟨c, s⟩

/-! ## Arguments -/

/-- The parameters of the `UWG` object that `_compute_input` / `_hvac_autosize` (or, later, a pass) read - ALL
    scalar parameters of `PARAMETER_LIST` except the stock selection (`zone`, `bld`, the six optional overrides:
    inputs of `_compute_BEM`, see `Bem.Params`), plus the attribute `latanth` (`None` unless assigned). -/
structure GenParams where
  month : Nat
  day : Nat
  nday : Nat
  dtsim : Nat
  dtweather : ℚ
  autosize : Bool
  sensocc : ℚ
  latfocc : ℚ
  radfocc : ℚ
  radfequip : ℚ
  radflight : ℚ
  h_ubl1 : ℚ
  h_ubl2 : ℚ
  h_ref : ℚ
  h_temp : ℚ
  h_wind : ℚ
  c_circ : ℚ
  c_exch : ℚ
  maxday : ℚ
  maxnight : ℚ
  windmin : ℚ
  h_obs : ℚ
  bldheight : ℚ
  h_mix : ℚ
  blddensity : ℚ
  vertohor : ℚ
  charlength : ℚ
  albroad : ℚ
  droad : ℚ
  sensanth : ℚ
  latanth : Option ℚ
  grasscover : ℚ
  treecover : ℚ
  vegstart : Nat
  vegend : Nat
  albveg : ℚ
  rurvegcover : ℚ
  latgrss : ℚ
  lattree : ℚ
  schtraffic : List (List ℚ)
  kroad : ℚ
  croad : ℚ

/-- `self.BEM`, `self.Sch`, `self.r_glaze_total`, `self.SHGC_total`, `self.alb_wall_total` after `_compute_BEM`. -/
structure Stock where
  blds : List (Bld ℚ)
  sch : List (Sched ℚ)
  rGlaze : ℚ
  shgc : ℚ
  albWall : ℚ

/-- The object `geoParam` (class `Param`): every field. -/
structure GeoParam where
  dayBLHeight : ℚ
  nightBLHeight : ℚ
  refHeight : ℚ
  tempHeight : ℚ
  windHeight : ℚ
  circCoeff : ℚ
  dayThreshold : ℚ
  nightThreshold : ℚ
  treeFLat : ℚ
  grassFLat : ℚ
  vegAlbedo : ℚ
  vegStart : Nat
  vegEnd : Nat
  nightSetStart : ℚ
  nightSetEnd : ℚ
  windMin : ℚ
  wgmax : ℚ
  exCoeff : ℚ
  maxdx : ℚ
  g : ℚ
  cp : ℚ
  vk : ℚ
  r : ℚ
  rv : ℚ
  lv : ℚ
  pi : ℚ
  sigma : ℚ
  waterDens : ℚ
  lvtt : ℚ
  tt : ℚ
  estt : ℚ
  cl : ℚ
  cpv : ℚ
  b : ℚ
  cm : ℚ
  colburn : ℚ
deriving DecidableEq, Repr

/-- `UWG.SIGMA = 5.67e-08`. -/
def sigmaC : ℚ := 567 / 10000000000

/-- `Param(self.h_ubl1, self.h_ubl2, self.h_ref, self.h_temp, self.h_wind, self.c_circ, self.maxday, self.maxnight,
    self.lattree, self.latgrss, self.albveg, self.vegstart, self.vegend, nightStart, nightEnd, self.windmin,
    self.WGMAX, self.c_exch, maxdx, self.G, self.CP, self.VK, self.R, self.RV, self.LV, math.pi, self.SIGMA,
    self.WATERDENS, self.LVTT, self.TT, self.ESTT, self.CL, self.CPV, self.B, self.CM, self.COLBURN)`. -/
def geoParam (S : Sym ℚ) (P : GenParams) : GeoParam :=
  { dayBLHeight := P.h_ubl1, nightBLHeight := P.h_ubl2, refHeight := P.h_ref, tempHeight := P.h_temp,
    windHeight := P.h_wind, circCoeff := P.c_circ, dayThreshold := P.maxday, nightThreshold := P.maxnight,
    treeFLat := P.lattree, grassFLat := P.latgrss, vegAlbedo := P.albveg, vegStart := P.vegstart,
    vegEnd := P.vegend, nightSetStart := 18, nightSetEnd := 8, windMin := P.windmin, wgmax := 5 / 1000,
    exCoeff := P.c_exch, maxdx := 250, g := 981 / 100, cp := 1004, vk := 4 / 10, r := 287, rv := 4615 / 10,
    lv := 2260000, pi := S.pi, sigma := sigmaC, waterDens := 1000, lvtt := 2500800, tt := 27316 / 100,
    estt := 61114 / 100, cl := 4218, cpv := 18461 / 10, b := 94 / 10, cm := 74 / 10,
    colburn := S.rpow (713 / 621) (2 / 3) }

/-- The fields of `geoParam` a pass reads. -/
def parOf (G : GeoParam) : Par ℚ :=
  { dayBLHeight := G.dayBLHeight, windHeight := G.windHeight, circCoeff := G.circCoeff,
    dayThreshold := G.dayThreshold, treeFLat := G.treeFLat, grassFLat := G.grassFLat, vegAlbedo := G.vegAlbedo,
    vegStart := G.vegStart, vegEnd := G.vegEnd, nightSetStart := G.nightSetStart, nightSetEnd := G.nightSetEnd,
    windMin := G.windMin, exCoeff := G.exCoeff, g := G.g, cp := G.cp, vk := G.vk, r := G.r, lv := G.lv,
    waterDens := G.waterDens }

/-! ## `SimParam.__init__` -/

/-- the constants of the clock object beside what `Clock.init` holds -/
structure SimTime where
  julian : Nat
  nt : Int
  timeInitial : Int
  timeFinal : Int
deriving DecidableEq, Repr

/-- `SimParam(dt, timefor, M, DAY, days)`: `3600 % dt` (ZeroDivisionError for 0), the refused timestep,
    `timeDay = 24 * 3600 / timefor` (ZeroDivisionError), `nt = int(round(timeMax / dt + 1))`,
    `H1 = int(julian * timeDay)`, `timeInitial = H1 + 8`, `timeFinal = int(H1 + timeDay * days - 1 + 8)`
    (`int` of a non-negative number is the floor). -/
def simParam (P : GenParams) : Except GenErr SimTime :=
  if P.dtsim = 0 then raise .zerodiv .simparam
  else if 3600 % P.dtsim ≠ 0 then raise .timestep .simparam
  else if P.dtweather = 0 then raise .zerodiv .simparam
  else
    let timeDay : ℚ := 86400 / P.dtweather
    let julian := (Clock.init P.month P.day).julian
    let h1 : Int := ⌊(julian : ℚ) * timeDay⌋
    .ok { julian := julian
          nt := Urb.pyRound (86400 * (P.nday : ℚ) / (P.dtsim : ℚ) + 1)
          timeInitial := h1 + 8
          timeFinal := ⌊(h1 : ℚ) + timeDay * (P.nday : ℚ) - 1 + 8⌋ }

/-! ## `Material`, `Element` -/

/-- the two asserting setters of `Material(thermalcond, volheat, name)`: `0 < value <= inf` -/
def materialChecks (k c : ℚ) : Except GenErr Unit := do
  need (0 < k) .assert .material
  need (0 < c) .assert .material

/-- the asserting setters of `Element.__init__`, in order: `albedo >= 0`, `emissivity >= 0`, every thickness `> 0`,
    `0 <= vegcoverage <= 1`, `t_init >= 0` (the two lists have equal lengths by construction) -/
def elementChecks (albedo emis : ℚ) (ds : List ℚ) (veg tInit : ℚ) : Except GenErr Unit := do
  need (0 ≤ albedo) .assert .element
  need (0 ≤ emis) .assert .element
  need (∀ d ∈ ds, 0 < d) .assert .element
  need (0 ≤ veg ∧ veg ≤ 1) .assert .element
  need (0 ≤ tInit) .assert .element

/-- the object `Element.__init__` leaves: every layer at `t_init`, fluxes 0, surface temperatures 293 -/
def newElem (albedo emis veg : ℚ) (cover : Option (ℚ × ℚ)) (ls : List (Lay ℚ)) (tInit : ℚ) : Elem ℚ :=
  { horizontal := true, albedo := albedo, emissivity := emis, vegcoverage := veg, roadCover := cover,
    layers := ls.map fun l => { d := l.d, k := l.k, c := l.c, t := tInit },
    solRec := 0, infra := 0, aeroCond := 0, solAbs := 0, lat := 0, sens := 0, flux := 0, tExt := 293, tInt := 293 }

/-! ## `RSMDef.__init__` -/

/-- The loop `for iz in range(len(z_meso) - 1): if (is_near_zero(z[iz] - h) or z[iz] > h) and flag: n = iz + 1;
    flag = False` for ONE of the five heights: the first level at (within 1e-10) or above `h`, plus one; `None`
    when there is none. (The five searches share one loop and do not interact.) -/
def levelFrom (h : ℚ) : Nat → List ℚ → Option Nat
  | _, [] => none
  | i, x :: xs => if Rsm.nearZero (x - h) = true ∨ x > h then some (i + 1) else levelFrom h (i + 1) xs

def level (z : List ℚ) (h : ℚ) : Option Nat := levelFrom h 0 z

/-- Body of the pressure loop of the constructor for one `iz ≥ 1` (hydrostatic integration UPWARDS):
    `presProf[iz] = (presProf[iz-1] ** (r/cp) - g/cp * (P_init ** (r/cp)) *
       (1./tempProf[iz] + 1./tempProf[iz-1]) * 0.5 * dz[iz]) ** (1. / (r/cp))`. -/
def presInitStep (sym : Sym ℚ) (P : Rsm.Param ℚ) (pInit : ℚ) (temp dz : List ℚ) (pres : List ℚ) (iz : Nat) :
    Rsm.R (List ℚ) := do
  let p ← Rsm.idx pres (iz - 1)
  let k1 ← Rsm.pdiv P.r P.cp
  let gc ← Rsm.pdiv P.g P.cp
  let k2 ← Rsm.pdiv P.r P.cp
  let t1 ← Rsm.idx temp iz
  let i1 ← Rsm.pdiv 1 t1
  let t0 ← Rsm.idx temp (iz - 1)
  let i0 ← Rsm.pdiv 1 t0
  let dzi ← Rsm.idx dz iz
  let k3 ← Rsm.pdiv P.r P.cp
  let e ← Rsm.pdiv 1 k3
  Rsm.setC pres iz (sym.rpow (sym.rpow p k1 - gc * sym.rpow pInit k2 * (i1 + i0) * (1 / 2) * dzi) e)

/-- The profiles of the constructor for a given `nzref`: `tempProf`, `presProf`, `tempRealProf`, `densityProfC`,
    `densityProfS` (`nzref + 1` entries), `windProf = [1, …]`. The real-temperature and the two density loops are
    the same expressions as in `vdm` (`Rsm.realVal`, `Rsm.densCVal`, `Rsm.densSVal`) with `P_init` for `forc.pres`. -/
def initProfiles (sym : Sym ℚ) (P : Rsm.Param ℚ) (nzref : Nat) (dz : List ℚ) (tInit pInit : ℚ) :
    Rsm.R (Rsm.VdmState ℚ) := do
  let temp := List.replicate nzref tInit
  let pres ← Rsm.foldE (presInitStep sym P pInit temp dz) (List.replicate nzref pInit) (List.range' 1 (nzref - 1))
  let treal ← Rsm.storeLoop (Rsm.realVal sym P pInit temp pres) (List.replicate nzref tInit) (List.range nzref)
  let dC ← Rsm.storeLoop (Rsm.densCVal P pres treal) (List.replicate nzref 0) (List.range nzref)
  let c0 ← Rsm.idx dC 0
  let dS1 ← Rsm.storeLoop (Rsm.densSVal dC dz) (List.replicate (nzref + 1) c0) (List.range' 1 (nzref - 1))
  let cl ← Rsm.idxPred dC nzref
  let dS ← Rsm.setC dS1 nzref cl
  pure { tempProf := temp, presProf := pres, tempRealProf := treal, densityProfC := dC, densityProfS := dS,
         windProf := List.replicate nzref 1 }

/-- what `RSMDef.__init__` leaves on the object and a pass reads (the three level indices no pass reads - `nz0`,
    `nz10`, `nzi` - are results of the same exception-free search: `Extra`) -/
structure RsmInit where
  z : List ℚ
  dz : List ℚ
  z0r : ℚ
  disp : ℚ
  nzref : Nat
  nzfor : Option Nat
  st : Rsm.VdmState ℚ

def ofRErr : Rsm.RErr → Cls
  | .index => .index | .zerodiv => .zerodiv | .value => .value

/-- `RSMDef(lat, lon, gmt, height, T_init, P_init, parameter, z_meso_path)` on the numbers of `z_meso.txt`
    (`refH`, `nightH` = `parameter.refHeight`, `parameter.nightBLHeight`; `Pm` = `parameter.r / cp / g`):
    `nzref = None` makes `[T_init for x in range(self.nzref)]` raise TypeError. -/
def rsmInit (sym : Sym ℚ) (Pm : Rsm.Param ℚ) (refH nightH height tInit pInit : ℚ) (zm : List ℚ) :
    Except GenErr RsmInit :=
  match level (Rsm.mesoGrid zm).1 refH with
  | none => raise .type .rsm
  | some nzref =>
    match initProfiles sym Pm nzref (Rsm.mesoGrid zm).2 tInit pInit with
    | .error e => raise (ofRErr e) .rsm
    | .ok st =>
      .ok { z := (Rsm.mesoGrid zm).1, dz := (Rsm.mesoGrid zm).2, z0r := 1 / 10 * height, disp := 1 / 2 * height,
            nzref := nzref, nzfor := level (Rsm.mesoGrid zm).1 nightH, st := st }

/-- the constants `RSMDef` takes from `geoParam`: `UWG.R`, `UWG.CP`, `UWG.G`, `UWG.VK`, and `h_ubl1` -/
def rsmParamOf (P : GenParams) : Rsm.Param ℚ := { r := 287, cp := 1004, g := 981 / 100, vk := 4 / 10, dayBL := P.h_ubl1 }

/-! ## The result -/

/-- What `generate()` leaves on the objects beside `Step.Cfg` and `Step.State` (nothing a pass reads, except
    `soilIndex1`, which `simulate` uses to choose the deep-temperature row: `Pipeline.tableOf` recomputes it). -/
structure Extra where
  geo : GeoParam
  sim : SimTime
  /-- `self.road`: the pavement refined by `_procmat` and padded with soil (the canyon simulates `UCM.road`) -/
  road : Elem ℚ
  soilIndex1 : Option Nat
  soilIndex2 : Option Nat
  nz0 : Option Nat
  nz10 : Option Nat
  nzi : Option Nat
  facAbsor : ℚ
  roadAbsor : ℚ
  ublWind : ℚ
  bldWidth : ℚ
  canWidth : ℚ
  usmZ0r : ℚ
  usmDisp : ℚ

structure Objects where
  cfg : Cfg ℚ
  state : State ℚ
  extra : Extra

/-- `Forcing()`: every field `None` (written as 0, as the serialisation of `harness/props/step.py` does). -/
def emptyForc : Forcing ℚ :=
  { deepTemp := 0, waterTemp := 0, infra := 0, wind := 0, uDir := 0, hum := 0, pres := 0, temp := 0, rHum := 0,
    prec := 0, dif := 0, dir := 0 }

/-- `_hvac_autosize`. -/
def autosize (on : Bool) (b : Bld ℚ) : Bld ℚ := if on then { b with coolcap := 9999, heatCap := 9999 } else b

def ofCanyon : Canyon.Err → Cls
  | .zerodiv => .zerodiv | .value => .value

/-- The `UCMDef` object after the constructor and `self.UCM.h_mix = self.h_mix`, as the part of the state. -/
def ucmState (road : Elem ℚ) (tInit hInit sensanth : ℚ) (u : Urb.UcmInit ℚ) : Ucm ℚ :=
  { road := road, canTemp := tInit, roadTemp := tInit, canHum := hInit, canWind := u.canWind, ustar := u.ustar,
    ustarMod := u.ustarMod, uExch := 0, turbU := 0, turbV := 0, turbW := 0, sensHeat := 0, latHeat := none,
    windProf := [], sensAnthrop := sensanth, treeSensHeat := 0, treeLatHeat := 0, solRecRoof := 0, solRecRoad := 0,
    solRecWall := 0, qRoof := 0, qWall := 0, qWindow := 0, qRoad := 0, qHvac := 0, qTraffic := 0, qUbl := 0,
    qVent := 0, elecTotal := 0, gasTotal := 0, roofTemp := 0, wallTemp := 0, canRHum := none, tdp := none }

/-- `road_veg_coverage = self.vegcover / (1 - self.blddensity)` with `vegcover = treecover + grasscover`. -/
def roadVeg (P : GenParams) : ℚ := (P.treecover + P.grasscover) / (1 - P.blddensity)

/-- `[0.05 for r in range(road_layer_num)]`, `[asphalt for …]` with `road_layer_num = int(math.ceil(droad / 0.05))`. -/
def pavement (P : GenParams) : List (Lay ℚ) := List.replicate ⌈P.droad / (1 / 20)⌉₊ ⟨1 / 20, P.kroad, P.croad⟩

/-- What the statements of `_compute_input` that can raise produce, in their order. -/
structure Parts where
  sim : SimTime
  /-- `weather.sta*[0]` -/
  w : Weather.Rec
  ubl : Urb.UblGeom
  rsm : RsmInit
  ucm : Urb.UcmInit ℚ
  /-- layers of the padded column (road and rural alike), `_soilindex1` (= `_soilindex2`) -/
  col : List (Lay ℚ) × Option Nat
  nzfor : Nat

/-- **The statements of `_compute_input` in their order**, as far as they can raise. Arguments: the libm symbols,
    the parameters, the three totals of the stock, the ground data of the header (`_read_epw`), the first station
    record of the window (`None`: empty window), the numbers of `z_meso.txt`. -/
def stages (S : Sym ℚ) (P : GenParams) (stock : Stock) (g : Epw.Ground) (first : Option Weather.Rec) (zm : List ℚ) :
    Except GenErr Parts := do
  -- self.simTime = SimParam(...)
  let sim ← simParam P
  -- self.weather, self.forcIP, self.forc: arguments; self.geoParam = Param(...): cannot raise
  -- self.UBL = UBLDef('C', self.charlength, self.weather.staTemp[0], maxdx, dayBLHeight, nightBLHeight)
  let w ← (match first with
    | some w => .ok w
    | none => raise .index .input)
  let ubl ← (match Urb.ublInit P.charlength 250 with
    | .ok u => .ok u
    | .error _ => raise .zerodiv .ubl)
  -- asphalt = Material(self.kroad, self.croad, 'asphalt')
  materialChecks P.kroad P.croad
  -- the three cover fractions of the unbuilt surface: `/ (1 - self.blddensity)`
  need (1 - P.blddensity ≠ 0) .zerodiv .input
  -- self.road = Element(albroad, 0.93, [0.05, …], [asphalt, …], road_veg_coverage, 293., 1, 'urban_road')
  elementChecks P.albroad (93 / 100) ((pavement P).map (·.d)) (roadVeg P) 293
  -- self.rural = Element(albroad, 0.93, …, self.rurvegcover, 293., 1, 'rural_road')
  elementChecks P.albroad (93 / 100) ((pavement P).map (·.d)) P.rurvegcover 293
  -- self.RSM = RSMDef(lat, lon, gmt, self.h_obs, staTemp[0], staPres[0], geoParam, Z_MESO_PATH)
  let rsm ← rsmInit S (rsmParamOf P) P.h_ref P.h_ubl2 P.h_obs w.temp w.pres zm
  -- self.USM = RSMDef(lat, lon, gmt, self.bldheight / 10., …): the same level search and profiles (they do not
  -- involve the height), so it raises exactly when RSM's constructor did - which came first
  -- self.UCM = UCMDef(bldheight, blddensity, vertohor, treecover, sensanth, latanth, T_init, H_init, wind_init,
  --                   geoParam, r_glaze_total, SHGC_total, alb_wall_total, self.road)
  let ucm ← (match w.umod with
    | .text =>
      -- the geometry statements come first, then `max(<str>, windMin)`
      match Canyon.ucmGeometry S P.bldheight P.blddensity P.vertohor P.treecover (roadVeg P) with
      | .error e => raise (ofCanyon e) .ucm
      | .ok _ => raise .type .ucm
    | .num wind =>
      match Urb.ucmInit S { bldHeight := P.bldheight, bldDensity := P.blddensity, verToHor := P.vertohor,
                            treeCoverage := P.treecover, roadVeg := roadVeg P, roadAlbedo := P.albroad,
                            initialWind := wind, windMin := P.windmin, rGlaze := stock.rGlaze,
                            shgc := stock.shgc, albWall := stock.albWall } with
      | .error e => raise (ofCanyon e) .ucm
      | .ok u => .ok u)
  -- roadMat, newthickness = _procmat(self.road, …); the padding loop; the refusal; self.road = Element(…)
  let col ← (match Pipeline.roadColumn P.droad P.kroad P.croad g with
    | .index => raise .index .procmat
    | .refused => raise .refused .input
    | .ok ls idx => .ok (ls, idx))
  elementChecks P.albroad (93 / 100) (col.1.map (·.d)) (roadVeg P) 293
  -- the rural column: the same pavement, the same `_procmat`, the same padding (`_soilindex2`), no refusal
  elementChecks P.albroad (93 / 100) (col.1.map (·.d)) P.rurvegcover 293
  -- Step.Cfg cannot hold `nzfor = None`
  let nzfor ← (match rsm.nzfor with
    | some n => .ok n
    | none => raise .nzfor .rsm)
  pure { sim := sim, w := w, ubl := ubl, rsm := rsm, ucm := ucm, col := col, nzfor := nzfor }

/-- The configuration: what the objects hold that a pass reads and never assigns. -/
def cfgOfParts (S : Sym ℚ) (P : GenParams) (stock : Stock) (site : Epw.Site) (p : Parts) : Cfg ℚ :=
  { par := parOf (geoParam S P), dt := (P.dtsim : ℚ), inobis := Uwg.inobis, lat := site.lat, lon := site.lon,
    gmt := site.gmt, sigma := sigmaC, sensanth := P.sensanth, schtraffic := P.schtraffic, sensocc := P.sensocc,
    latfocc := P.latfocc, radflight := P.radflight, radfequip := P.radfequip, sch := stock.sch,
    bldHeight := P.bldheight, bldDensity := P.blddensity, verToHor := P.vertohor, treeCoverage := P.treecover,
    vegcover := p.ucm.geom.vegcover, roadShad := p.ucm.geom.roadShad, canAspect := p.ucm.geom.canAspect,
    roadConf := p.ucm.geom.roadConf, wallConf := p.ucm.geom.wallConf, facArea := p.ucm.geom.facArea,
    roadArea := p.ucm.geom.roadArea, roofArea := p.ucm.geom.roofArea, z0u := p.ucm.z0u, lDisp := p.ucm.lDisp,
    albWall := stock.albWall, hMix := P.h_mix, latAnthrop := P.latanth, nzref := p.rsm.nzref, nzfor := p.nzfor,
    z := p.rsm.z, dz := p.rsm.dz, z0r := p.rsm.z0r, disp := p.rsm.disp, ublDayBLHeight := P.h_ubl1,
    ublNightBLHeight := P.h_ubl2, orthLength := p.ubl.orthLength, urbArea := p.ubl.urbArea,
    perimeter := p.ubl.perimeter, paralLength := p.ubl.paralLength, charLength := P.charlength,
    nightCount := Air.loopCount P.charlength p.ubl.paralLength }

/-- The state: what the objects hold that a pass assigns. `UCM.road` is the FIRST road element (the un-padded
    pavement with its two cover attributes); `self.road`, re-made from the padded column, is in `Extra`. -/
def stateOfParts (P : GenParams) (stock : Stock) (p : Parts) : State ℚ :=
  { forc := emptyForc
    ucm := ucmState (newElem P.albroad (93 / 100) (roadVeg P)
              (some (P.grasscover / (1 - P.blddensity), P.treecover / (1 - P.blddensity))) (pavement P) 293)
            p.w.temp p.w.hum P.sensanth p.ucm
    rural := newElem P.albroad (93 / 100) P.rurvegcover none p.col.1 293
    blds := stock.blds.map (autosize P.autosize)
    ubl := { ublTemp := p.w.temp, cells := List.replicate p.ubl.ncells p.w.temp, advHeat := 0, sensHeat := 0 }
    rsm := { st := p.rsm.st, ublPres := 0, dlu := [], dld := [] } }

def extraOfParts (S : Sym ℚ) (P : GenParams) (p : Parts) : Extra :=
  { geo := geoParam S P, sim := p.sim, road := newElem P.albroad (93 / 100) (roadVeg P) none p.col.1 293,
    soilIndex1 := p.col.2, soilIndex2 := p.col.2, nz0 := level p.rsm.z P.h_temp, nz10 := level p.rsm.z P.h_wind,
    nzi := level p.rsm.z P.h_ubl1, facAbsor := p.ucm.facAbsor, roadAbsor := p.ucm.roadAbsor,
    ublWind := p.ucm.ublWind, bldWidth := p.ucm.geom.bldWidth, canWidth := p.ucm.geom.canWidth,
    usmZ0r := 1 / 10 * (P.bldheight / 10), usmDisp := 1 / 2 * (P.bldheight / 10) }

/-- **`_compute_input` ; `_hvac_autosize`**: the statements that can raise (`stages`), then the objects. -/
def generateFull (S : Sym ℚ) (P : GenParams) (stock : Stock) (site : Epw.Site) (g : Epw.Ground)
    (first : Option Weather.Rec) (zm : List ℚ) : Except GenErr Objects :=
  match stages S P stock g first zm with
  | .error e => .error e
  | .ok p => .ok { cfg := cfgOfParts S P stock site p, state := stateOfParts P stock p, extra := extraOfParts S P p }

/-- **`generateState`**: configuration and state a simulation starts from. -/
def generateState (S : Sym ℚ) (P : GenParams) (stock : Stock) (site : Epw.Site) (g : Epw.Ground)
    (first : Option Weather.Rec) (zm : List ℚ) : Except GenErr (Cfg ℚ × State ℚ) :=
  match stages S P stock g first zm with
  | .error e => .error e
  | .ok p => .ok (cfgOfParts S P stock site p, stateOfParts P stock p)

/-! ## The stock from the selection model `Bem.computeBEM` -/

/-- One selected archetype as the object the simulation uses: `payload` is the `BEMDef` object with identity
    `pid` as the library holds it (everything the selection does not touch), the six attributes an override may
    replace, `frac` and `fl_area` come from the selection (`Bem.Entry`). -/
def bldOf (payload : Nat → Bld ℚ) (e : Bem.Entry ℚ) : Bld ℚ :=
  let b := payload e.arch.pid
  { b with frac := e.frac, flArea := e.flArea, glazingRatio := e.arch.glz, shgc := e.arch.shgc,
           floorHeight := e.arch.flrH, wall := { b.wall with albedo := e.arch.albWall },
           roof := { b.roof with albedo := e.arch.albRoof, vegcoverage := e.arch.vegRoof } }

/-- `self.BEM`, `self.Sch` and the three totals from the outcome of `_compute_BEM` (`Bem.computeBEM`);
    `sched` is the `SchDef` stored beside the archetype `pid`. -/
def stockOf (payload : Nat → Bld ℚ) (sched : Nat → Sched ℚ) (r : List (Bem.Entry ℚ) × Bem.Totals ℚ) : Stock :=
  { blds := r.1.map (bldOf payload), sch := r.1.map fun e => sched e.arch.pid,
    rGlaze := r.2.rGlaze, shgc := r.2.shgc, albWall := r.2.albWall }

/-! ## `generate()` on a file, and the whole program -/

inductive MainErr where
  | header (e : Epw.Err)           -- `_read_epw`
  | bem (e : Bem.Err)              -- `_customize_reference_data` / `_compute_BEM`
  | weather (e : Weather.Err)      -- `Weather.__init__`
  | gen (e : GenErr)               -- the rest of `_compute_input`
  | dtweather                      -- model limit: weather timestep other than 3600 s
  | pipe (e : Pipeline.PipeErr)    -- `simulate()` / `write_epw()`
deriving Repr

/-- `_read_epw ; [_compute_BEM: argument] ; _compute_input ; _hvac_autosize` on the header rows and data rows of
    the rural file: `SimParam` comes before `Weather`, `Weather` before everything else of `_compute_input`. -/
def generateFile (S : Sym ℚ) (P : GenParams) (stock : Stock) (zm : List ℚ) (hdr rows : List Csv.Row) :
    Except MainErr Objects :=
  match Epw.readHeader hdr with
  | .error e => .error (.header e)
  | .ok (site, g) =>
    match simParam P with
    | .error e => .error (.gen e)
    | .ok _ =>
      if P.dtweather ≠ 3600 then .error .dtweather
      else
        match Weather.read S (hdr ++ rows) (timeInitial P.month P.day) (timeFinal P.month P.day P.nday) with
        | .error e => .error (.weather e)
        | .ok recs =>
          match generateFull S P stock site g recs.head? zm with
          | .error e => .error (.gen e)
          | .ok x => .ok x

/-- **`uwgMain`**: parameters + stock + `z_meso` + rural file ↦ text of the morphed file - `generate();
    simulate(); write_epw()` with NO configuration / initial state handed in: they are the two components of
    `generateState` on the header and the first window row of the file itself, given to `Pipeline.pipeline`
    (which reads header and window again - the same readers on the same rows). `p` = `epw_precision`. -/
def uwgMain (S : Sym ℚ) (P : GenParams) (stock : Stock) (zm : List ℚ) (p : Nat) (hdr rows : List Csv.Row) :
    Except MainErr (List Char) :=
  match generateFile S P stock zm hdr rows with
  | .error e => .error e
  | .ok x =>
    match Pipeline.pipeline S x.cfg (fun _ => x.state) P.droad P.kroad P.croad P.dtsim P.month P.day P.nday p
        hdr rows with
    | .error e => .error (.pipe e)
    | .ok text => .ok text

/-- `uwgMain` for `hours` record slots (`Pipeline.pipelineCore`): what the exact tie executes for the first hours of a
    run; `uwgMain` is the case `hours = 24 * nday` (`uwgMain_eq_hours`). -/
def uwgHours (S : Sym ℚ) (P : GenParams) (stock : Stock) (zm : List ℚ) (hours p : Nat) (hdr rows : List Csv.Row) :
    Except MainErr (List Char) :=
  match generateFile S P stock zm hdr rows with
  | .error e => .error e
  | .ok x =>
    match Pipeline.pipelineCore S x.cfg (fun _ => x.state) P.droad P.kroad P.croad P.dtsim P.month P.day P.nday hours p
        hdr rows with
    | .error e => .error (.pipe e)
    | .ok text => .ok text

theorem uwgMain_eq_hours (S : Sym ℚ) (P : GenParams) (stock : Stock) (zm : List ℚ) (p : Nat) (hdr rows : List Csv.Row) :
    uwgMain S P stock zm p hdr rows = uwgHours S P stock zm (24 * P.nday) p hdr rows := rfl

/-- `uwgMain` with the stock selected by the tied model of `_customize_reference_data ; _compute_BEM` from a
    reference library: `generate()` reads the header first, then selects. -/
def uwgMainLib (S : Sym ℚ) (P : GenParams) (B : Bem.Params ℚ) (customs : List (Bem.Arch ℚ)) (lib : Bem.Lib ℚ)
    (payload : Nat → Bld ℚ) (sched : Nat → Sched ℚ) (zm : List ℚ) (p : Nat) (hdr rows : List Csv.Row) :
    Except MainErr (List Char) :=
  match Epw.readHeader hdr with
  | .error e => .error (.header e)
  | .ok _ =>
    match Bem.generateBEM B customs lib with
    | .error e => .error (.bem e)
    | .ok r => uwgMain S P (stockOf payload sched r) zm p hdr rows

end Uwg.Gen
