/-
Canyon radiation model (property C13): view factors, beam partition, short-wave reflection
closure, no-sun branch and long-wave exchange, mirroring

* `UCMDef.__init__`   (geometry part)              → `ucmGeometry`
* `SolarCalcs.solarcalcs` (everything after `solarangles`) → `solarcalcs`
* `infracalcs`                                      → `infracalcs`

as they stand in /repo, operation by operation, generic over an ordered field `K` with the libm
functions passed in as a `Sym K` (`pow(x, 0.5)` is the symbol `rpow x (1/2)`, exactly as the
fractionised source executes it; `sqrt(bldDensity)` is the symbol `sqrt`).

Conventions used by the energy statements (all per unit length of canyon and per unit road
width `w`; multiply by `w` for the totals, `h = a·w` being the wall height, `a` the aspect):

* `R` = `roadSol`, `B` = `bldSol`: first-incidence short-wave on road / on each wall (W m⁻²).
* `entering a R B = R + 2·a·B`. Because `R = horSol·Kr + Ψr·dif` and `B = horSol·Kw + Ψw·dif`,
  this *is* `horSol·(Kr + 2a·Kw) + dif·(Ψr + 2a·Ψw)` — the model's own beam split and sky view
  (`entering_eq_beam_dif`), and by reciprocity `Ψr + 2aΨw = 1`.
* `absorbed a αr αw roadRec wallRec = (1−αr)·roadRec + (1−αw)·2a·wallRec`, i.e.
  `((1−αr)·road.solRec·w + (1−αw)·wall.solRec·2h) / w`. `αr` is the road albedo *the closure
  itself uses* (`alb_road`, vegetation-weighted in season), `αw` is `UCM.alb_wall`.

Two reflection closures are kept (DESIGN §2.5 step 5):
* `Closure.impl` — as coded (Masson's `fr` with `+`, `mr = (rr + …)/fr`);
* `Closure.spec` — the radiosity fixed point  `Jr = αr(R + (1−Ψr)Jw)`,
  `Jw = αw(B + Ψw·Jr + (1−2Ψw)Jw)`  solved in closed form.
-/
import UwgVerif.Model.Symbols
import Mathlib.Algebra.Order.Field.Basic

namespace Uwg.Canyon

variable {K : Type} [Field K] [LinearOrder K] [IsStrictOrderedRing K]

/-- Python exception classes that the three routines can raise on numeric input. -/
inductive Err
  | zerodiv
  | value
  deriving DecidableEq, Repr

/-! ## Geometry (`UCMDef.__init__`) -/

/-- `roadConf = pow(pow(a,2)+1, 0.5) - a` with `s` the value returned for the root. -/
def roadConfOf (s a : K) : K := s - a

/-- `wallConf = 0.5 * (a + 1 - pow(pow(a,2)+1, 0.5)) / a`. -/
def wallConfOf (s a : K) : K := 1 / 2 * (a + 1 - s) / a

structure Geom (K : Type) where
  vegcover : K
  roadShad : K
  bldWidth : K
  canWidth : K
  canAspect : K
  roadConf : K
  wallConf : K
  facArea : K
  roadArea : K
  roofArea : K

/-- The geometry part of `UCMDef.__init__`, in source order (so the first failing operation
    determines the exception class). -/
def ucmGeometry (S : Sym K) (bldHeight bldDensity verToHor treeCoverage roadVeg : K) :
    Except Err (Geom K) :=
  let vegcover := (1 - bldDensity) * roadVeg
  if 1 - bldDensity = 0 then .error .zerodiv else
  let roadShad := min (treeCoverage / (1 - bldDensity)) 1
  if verToHor = 0 then .error .zerodiv else
  let bldWidth := 4 * bldHeight * bldDensity / verToHor
  if bldDensity < 0 then .error .value else
  let r := S.sqrt bldDensity
  if r = 0 then .error .zerodiv else
  let d := bldWidth / r
  let canWidth := d - bldWidth
  if canWidth = 0 then .error .zerodiv else
  let canAspect := bldHeight / canWidth
  let s := S.rpow (canAspect ^ 2 + 1) (1 / 2)
  if canAspect = 0 then .error .zerodiv else
  .ok { vegcover := vegcover
        roadShad := roadShad
        bldWidth := bldWidth
        canWidth := canWidth
        canAspect := canAspect
        roadConf := roadConfOf s canAspect
        wallConf := wallConfOf s canAspect
        facArea := 4 * bldWidth * bldHeight
        roadArea := d * d - bldWidth ^ 2
        roofArea := bldWidth ^ 2 }

/-! ## Beam partition -/

/-- Argument of `abs` in `Kw_term`: `1./a*(0.5 - θ/pi) + 1/pi*tanzen*(1 - cos θ)`. -/
def kwRaw (S : Sym K) (a θ tz : K) : K :=
  1 / a * (1 / 2 - θ / S.pi) + 1 / S.pi * tz * (1 - S.cos θ)

/-- Argument of `abs` in `Kr_term`: `2.*θ/pi - (2/pi*a*tanzen)*(1 - cos θ)`. -/
def krRaw (S : Sym K) (a θ tz : K) : K :=
  2 * θ / S.pi - 2 / S.pi * a * tz * (1 - S.cos θ)

def kwTerm (S : Sym K) (a θ tz : K) : K := min |kwRaw S a θ tz| 1

def krTerm (S : Sym K) (a θ tz : K) : K :=
  min |krRaw S a θ tz| (1 - 2 * a * kwTerm S a θ tz)

/-! ## Reflection closures -/

inductive Closure
  | impl
  | spec
  deriving DecidableEq, Repr

/-- Denominator as coded: `1 - (1-2Ψw)·αw + (1-Ψr)·Ψw·αr·αw`. -/
def frImpl (Ψr Ψw αr αw : K) : K := 1 - (1 - 2 * Ψw) * αw + (1 - Ψr) * Ψw * αr * αw

/-- Denominator of the radiosity solution: `1 - (1-2Ψw)·αw - (1-Ψr)·Ψw·αr·αw`. -/
def frSpec (Ψr Ψw αr αw : K) : K := 1 - (1 - 2 * Ψw) * αw - (1 - Ψr) * Ψw * αr * αw

def frOf : Closure → K → K → K → K → K
  | .impl => frImpl
  | .spec => frSpec

/-- Reflected flux leaving each wall (`mw`). Same numerator in both closures. -/
def mwOf (cl : Closure) (Ψr Ψw αr αw R B : K) : K :=
  (αw * B + Ψw * αw * (αr * R)) / frOf cl Ψr Ψw αr αw

/-- Reflected flux leaving the road (`mr`).
    As coded: `(rr + (1-Ψr)·αr·(rw + Ψw·αw·rr)) / fr`.
    Radiosity: `rr + (1-Ψr)·αr·mw`. -/
def mrOf (cl : Closure) (Ψr Ψw αr αw R B : K) : K :=
  match cl with
  | .impl => (αr * R + (1 - Ψr) * αr * (αw * B + Ψw * αw * (αr * R))) / frImpl Ψr Ψw αr αw
  | .spec => αr * R + (1 - Ψr) * αr * mwOf .spec Ψr Ψw αr αw R B

/-- `road.solRec = roadSol + (1 - roadConf)·mw`. -/
def roadRecOf (cl : Closure) (Ψr Ψw αr αw R B : K) : K :=
  R + (1 - Ψr) * mwOf cl Ψr Ψw αr αw R B

/-- `wall.solRec = bldSol + (1 - 2·wallConf)·mw + wallConf·mr`. -/
def wallRecOf (cl : Closure) (Ψr Ψw αr αw R B : K) : K :=
  B + (1 - 2 * Ψw) * mwOf cl Ψr Ψw αr αw R B + Ψw * mrOf cl Ψr Ψw αr αw R B

/-- Short-wave entering the canyon per unit road width. -/
def entering (a R B : K) : K := R + 2 * a * B

/-- Short-wave absorbed by road and both walls per unit road width. -/
def absorbed (a αr αw roadRec wallRec : K) : K :=
  (1 - αr) * roadRec + (1 - αw) * (2 * a) * wallRec

/-- Short-wave that leaves through the canyon top per unit road width (radiosity × sky view). -/
def escaped (a Ψr Ψw jr jw : K) : K := Ψr * jr + 2 * a * Ψw * jw

def absorbedOf (cl : Closure) (a Ψr Ψw αr αw R B : K) : K :=
  absorbed a αr αw (roadRecOf cl Ψr Ψw αr αw R B) (wallRecOf cl Ψr Ψw αr αw R B)

/-- Fraction absorbed of light first incident on the road, as coded (explicit form). -/
def cR (a Ψr Ψw αr αw : K) : K :=
  (1 - αr) * (1 + (1 - Ψr) * (Ψw * αw * αr) / frImpl Ψr Ψw αr αw) +
  (1 - αw) * (2 * a) *
    ((1 - 2 * Ψw) * (Ψw * αw * αr) / frImpl Ψr Ψw αr αw +
     Ψw * ((αr + (1 - Ψr) * αr * (Ψw * αw * αr)) / frImpl Ψr Ψw αr αw))

/-- Fraction absorbed of light first incident on the walls, as coded (explicit form). -/
def cB (a Ψr Ψw αr αw : K) : K :=
  ((1 - αr) * ((1 - Ψr) * αw / frImpl Ψr Ψw αr αw) +
   (1 - αw) * (2 * a) *
     (1 + (1 - 2 * Ψw) * αw / frImpl Ψr Ψw αr αw +
      Ψw * ((1 - Ψr) * αr * αw) / frImpl Ψr Ψw αr αw)) / (2 * a)

/-! ## `solarcalcs` -/

structure SolarIn (K : Type) where
  dir : K
  dif : K
  /-- set by `solarangles` -/
  zenith : K
  tanzen : K
  critOrient : K
  canAspect : K
  roadConf : K
  wallConf : K
  month : Int
  vegStart : Int
  vegEnd : Int
  roadAlbedo : K
  roadVeg : K
  vegAlbedo : K
  albWall : K
  treeCoverage : K
  vegcover : K
  treeFLat : K
  grassFLat : K

structure SolarOut (K : Type) where
  /-- which branch ran -/
  sun : Bool
  roadRec : K
  ruralRec : K
  roofRec : K
  wallRec : K
  solRecRoof : K
  solRecRoad : K
  solRecWall : K
  treeSens : K
  treeLat : K
  /-- attributes of the `SolarCalcs` object, assigned in the sunlit branch only (0 otherwise) -/
  horSol : K
  kw : K
  kr : K
  bldSol : K
  roadSol : K
  mr : K
  mw : K

/-- Season choice of the road albedo used by the closure (`or`, as in solarcalcs.py). -/
def albRoad (i : SolarIn K) : K :=
  if i.month < i.vegStart ∨ i.month > i.vegEnd then i.roadAlbedo
  else i.roadAlbedo * (1 - i.roadVeg) + i.vegAlbedo * i.roadVeg

def horSolOf (S : Sym K) (i : SolarIn K) : K := max (S.cos i.zenith * i.dir) 0

def bldSolOf (S : Sym K) (i : SolarIn K) : K :=
  horSolOf S i * kwTerm S i.canAspect i.critOrient i.tanzen + i.wallConf * i.dif

def roadSolOf (S : Sym K) (i : SolarIn K) : K :=
  horSolOf S i * krTerm S i.canAspect i.critOrient i.tanzen + i.roadConf * i.dif

/-- Everything the sunlit branch assigns (divisions totalised; `solarcalcs` adds the guards). -/
def sunlit (cl : Closure) (S : Sym K) (i : SolarIn K) : SolarOut K :=
  let horSol := horSolOf S i
  let bldSol := bldSolOf S i
  let roadSol := roadSolOf S i
  let αr := albRoad i
  let roadRec := roadRecOf cl i.roadConf i.wallConf αr i.albWall roadSol bldSol
  let grasscover := i.vegcover - i.treeCoverage
  { sun := true
    roadRec := roadRec
    ruralRec := horSol + i.dif
    roofRec := horSol + i.dif
    wallRec := wallRecOf cl i.roadConf i.wallConf αr i.albWall roadSol bldSol
    solRecRoof := horSol + i.dif
    solRecRoad := roadRec
    solRecWall := bldSol + (1 - 2 * i.wallConf) * i.roadAlbedo * roadSol
    -- outside the vegetation season the routine resets both vegetation heats to 0
    treeSens := if i.month < i.vegStart ∨ i.month > i.vegEnd then 0 else
                (1 - i.vegAlbedo) * (1 - i.treeFLat) * roadRec * i.treeCoverage +
                (1 - i.vegAlbedo) * (1 - i.grassFLat) * roadRec * grasscover
    treeLat := if i.month < i.vegStart ∨ i.month > i.vegEnd then 0 else
               (1 - i.vegAlbedo) * i.treeFLat * roadRec * i.treeCoverage +
               (1 - i.vegAlbedo) * i.grassFLat * roadRec * grasscover
    horSol := horSol
    kw := kwTerm S i.canAspect i.critOrient i.tanzen
    kr := krTerm S i.canAspect i.critOrient i.tanzen
    bldSol := bldSol
    roadSol := roadSol
    mr := mrOf cl i.roadConf i.wallConf αr i.albWall roadSol bldSol
    mw := mwOf cl i.roadConf i.wallConf αr i.albWall roadSol bldSol }

/-- The `else: # No Sun` branch. -/
def noSun : SolarOut K :=
  { sun := false, roadRec := 0, ruralRec := 0, roofRec := 0, wallRec := 0, solRecRoof := 0,
    solRecRoad := 0, solRecWall := 0, treeSens := 0, treeLat := 0, horSol := 0, kw := 0, kr := 0,
    bldSol := 0, roadSol := 0, mr := 0, mw := 0 }

/-- `SolarCalcs.solarcalcs` after `solarangles` has set `zenith`, `tanzen`, `critOrient`. -/
def solarcalcs (cl : Closure) (S : Sym K) (i : SolarIn K) : Except Err (SolarOut K) :=
  if i.dir + i.dif > 0 then
    if i.canAspect = 0 then .error .zerodiv else
    if frOf cl i.roadConf i.wallConf (albRoad i) i.albWall = 0 then .error .zerodiv else
    .ok (sunlit cl S i)
  else .ok noSun

/-! ## `infracalcs` -/

/-- `SIGMA = 5.67e-8`. -/
def sigma : K := 567 / 10000000000

structure InfraIn (K : Type) where
  roadConf : K
  wallConf : K
  roadShad : K
  infra : K
  eRoad : K
  eWall : K
  tRoad : K
  tWall : K

/-- road ← sky term. -/
def lwRoadSky (i : InfraIn K) : K :=
  i.eRoad * i.roadConf * (1 - i.roadShad) * (i.infra - sigma * i.tRoad ^ 4)

/-- road ← wall exchange term (`_wall_to_road_rad`). -/
def lwRoadFromWall (i : InfraIn K) : K :=
  (1 - i.roadShad) * i.eWall * i.eRoad * sigma * (1 - i.roadConf) * (i.tWall ^ 4 - i.tRoad ^ 4)

/-- wall ← sky term. -/
def lwWallSky (i : InfraIn K) : K :=
  i.eWall * i.wallConf * (i.infra - sigma * i.tWall ^ 4)

/-- wall ← road exchange term (`_road_to_wall_rad`). -/
def lwWallFromRoad (i : InfraIn K) : K :=
  (1 - i.roadShad) * i.eWall * i.eRoad * sigma * i.wallConf * (i.tRoad ^ 4 - i.tWall ^ 4)

/-- `infracalcs` → `(infra_road, infra_wall)`. -/
def infracalcs (i : InfraIn K) : K × K :=
  (lwRoadSky i + lwRoadFromWall i, lwWallSky i + lwWallFromRoad i)

end Uwg.Canyon
