/-
Model of the two tridiagonal solvers of uwg (`Element.invert` in element.py and
`RSMDef.invert` in RSMDef.py — the two Python functions are textually the same algorithm):

    for i in reversed(range(nz-1)):            -- eliminate the upper diagonal, bottom-up
        C[i]    = C[i]    - A[i][2] * C[i+1]    / A[i+1][1]
        A[i][1] = A[i][1] - A[i][2] * A[i+1][0] / A[i+1][1]
    for i in range(1, nz):                     -- forward substitution
        C[i] = C[i] - A[i][0] * C[i-1] / A[i-1][1]
    X[i] = C[i] / A[i][1]

Generic over a field `K`; executed at `K := ℚ` by the correspondence driver.
-/
import Mathlib.Algebra.Field.Defs

namespace Uwg

/-- One row of a tridiagonal system: lower, main, upper diagonal entries and right-hand side. -/
structure Row (K : Type) where
  a : K
  b : K
  c : K
  y : K
deriving Repr

variable {K : Type} [Field K]

/-- Bottom-up elimination of the upper diagonal (first Python loop). -/
def elim : List (Row K) → List (Row K)
  | [] => []
  | r :: rs =>
    match elim rs with
    | [] => [r]
    | r' :: rs' =>
      { r with b := r.b - r.c * r'.a / r'.b, y := r.y - r.c * r'.y / r'.b } :: r' :: rs'

/-- Forward substitution (second and third Python loops). `xprev` is the value already
    computed for the row above (0 for the first row, whose lower entry is never read). -/
def fwd (xprev : K) : List (Row K) → List K
  | [] => []
  | r :: rs =>
    let x := (r.y - r.a * xprev) / r.b
    x :: fwd x rs

/-- `invert`. -/
def solve (rs : List (Row K)) : List K := fwd 0 (elim rs)

/-- `xs` satisfies every equation of the tridiagonal system `rs`, where `xprev` stands for
    the unknown above the first listed row and the unknown below the last row is absent. -/
def Sat (xprev : K) : List (Row K) → List K → Prop
  | [], [] => True
  | r :: rs, x :: xs => r.a * xprev + r.b * x + r.c * xs.headD 0 = r.y ∧ Sat x rs xs
  | _, _ => False

end Uwg
