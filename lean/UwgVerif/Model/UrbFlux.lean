/-
Where the exchange weights of the air-node updates (property C15) come from.

`Model/AirNodes.lean` takes `uExch`, `aeroCond`, the air densities, the areas, the rural wind
profile and the loop count of the night boundary layer as *inputs*. This file models the code
that *produces* them, as it stands in /repo, operation by operation:

* `urbflux` (uwg/urbflux.py), everything after the road's `SurfFlux`: the three profile sums
  `forDens`, `intAdv1`, `intAdv2`, `UBL.advHeat`, `windUrb`, `dens`, `UCM.ustar`, `wstar`,
  `ustarMod = max(ustar, wstar)`, `uExch = exCoeff * ustarMod`, `canWind`, `turbU/V/W` and the
  urban wind profile (`UCM.windProf.append`)                                   → `urbTail`
* `Element.SurfFlux` (uwg/element.py), its first two statements: `dens` and
  `aeroCond = 5.8 + 3.7 * windRef`                                            → `surfHead`
* `UCMDef.__init__` (uwg/UCMDef.py): the geometry (`Uwg.Canyon.ucmGeometry`, shared with C13)
  followed by `z0u`, `l_disp` (piecewise in `frontDens = verToHor / 4`), `facAbsor`,
  `roadAbsor` and the initial wind attributes                                 → `ucmInit`
* `UBLDef.__init__` (uwg/UBLDef.py): `numdx = round(charLength / min(charLength, maxdx))`,
  `paralLength = charLength / numdx`, `int(numdx)` cells                        → `ublInit`
* the wind-profile loop of `RSMDef.vdm` (uwg/RSMDef.py):
  `windProf[iz] = ustarRur / vk * log((z[iz] - disp) / z0r)`, `except ValueError: 0` → `rsmWindLoop`

Conventions as in the other models: arithmetic generic over an ordered field `K`, libm passed in
as a `Sym K`; `log` raises ValueError for arguments ≤ 0 (guarded here exactly as the shared stub
and libm do), `x ** (1/3.)` and `x ** (-1/2.)` are the symbol `rpow`. Python's exceptions are
error classes; the arithmetic (`urbCore`) is total so that theorems can speak about it, the
guards (`urbGuards`) list the exceptions in program order.

The Kahan-compensated sums of `urbflux`: each compensation term is `(t - s) - y` with `t = s + y`,
which is *exactly zero* in a field, so `forDens -= c1` etc. subtract 0 and the three results are
the plain sums. `kahan` below is the loop as coded; `Uwg.C15.kahan_exact` proves it equal to the
plain sum, and `forDens` / `intAdv1` / `intAdv2` are defined by the plain sums (`Air.dot2`,
`Air.dot3`). What the compensation does under IEEE rounding is outside the exact model.

Two behaviours of real floats that the rational execution of the source cannot show (the stub
`rpow a b = a·b + 1` never raises) are still mirrored, and are checked against the plain float
package by the harness:
* `0.0 ** (-1/2.)` raises ZeroDivisionError                (`verToHor = 0` in `canWind`);
* `negative ** (1/3.)` is a *complex* number in Python 3, and `max(ustar, <complex>)` raises
  TypeError                                                (class `type`).
`negative ** (-1/2.)` is complex as well but nothing compares it, so `urbflux` returns with a
complex `canWind`; for `verToHor < 0` the model's `canWind` is just the symbol's value.
-/
import UwgVerif.Model.AirNodes
import UwgVerif.Model.Canyon

namespace Uwg.Urb
open Uwg.Air
variable {K : Type} [Field K] [LinearOrder K] [IsStrictOrderedRing K]

inductive Err where
  | zerodiv | index | value | type
deriving Repr, DecidableEq

/-! ## `Element.SurfFlux`: air density and convection coefficient -/

/-- `1000 * 0.287042 * T * (1. + 1.607858 * hum)` -/
def airDensDen (T hum : K) : K := 1000 * (287042 / 1000000) * T * (1 + 1607858 / 1000000 * hum)

/-- `dens = forc.pres / (1000 * 0.287042 * T * (1. + 1.607858 * hum))`
    (same expression in `SurfFlux`, `urbflux` and `UCModel`) -/
def airDens (pres T hum : K) : K := pres / airDensDen T hum

/-- `self.aeroCond = 5.8 + 3.7 * windRef` -/
def aeroCond (windRef : K) : K := 58 / 10 + 37 / 10 * windRef

/-- The first two statements of `SurfFlux`: `(dens, aeroCond)`. -/
def surfHead (pres tempRef humRef windRef : K) : Except Err (K × K) :=
  if airDensDen tempRef humRef = 0 then .error .zerodiv
  else .ok (airDens pres tempRef humRef, aeroCond windRef)

/-! ## `UCMDef.__init__`: roughness, displacement, absorptivities -/

/-- `frontDens = verToHor / 4.` -/
def frontDens (verToHor : K) : K := verToHor / 4

/-- urban roughness length -/
def z0u (bldHeight verToHor : K) : K :=
  if frontDens verToHor < 15 / 100 then frontDens verToHor * bldHeight else 15 / 100 * bldHeight

/-- urban displacement length -/
def lDisp (bldHeight verToHor : K) : K :=
  if frontDens verToHor < 5 / 100 then 3 * frontDens verToHor * bldHeight
  else if frontDens verToHor < 15 / 100 then
    (15 / 100 + 55 / 10 * (frontDens verToHor - 5 / 100)) * bldHeight
  else if frontDens verToHor < 1 then
    (7 / 10 + 35 / 100 * (frontDens verToHor - 15 / 100)) * bldHeight
  else 1 / 2 * bldHeight

/-- `facAbsor = (1 - r_glaze) * (1 - alb_wall) + r_glaze * (1 - 0.75 * SHGC)` -/
def facAbsor (rGlaze albWall shgc : K) : K :=
  (1 - rGlaze) * (1 - albWall) + rGlaze * (1 - 75 / 100 * shgc)

/-- `roadAbsor = (1 - road.vegcoverage) * (1 - road.albedo)` -/
def roadAbsor (roadVeg roadAlbedo : K) : K := (1 - roadVeg) * (1 - roadAlbedo)

structure UcmInitIn (K : Type) where
  bldHeight : K
  bldDensity : K
  verToHor : K
  treeCoverage : K
  roadVeg : K
  roadAlbedo : K
  initialWind : K
  windMin : K
  rGlaze : K
  shgc : K
  albWall : K

structure UcmInit (K : Type) where
  geom : Canyon.Geom K
  ublWind : K
  canWind : K
  ustar : K
  ustarMod : K
  z0u : K
  lDisp : K
  facAbsor : K
  roadAbsor : K

/-- `UCMDef.__init__`: the geometry statements can raise (`Canyon.ucmGeometry`, in source order),
    the rest cannot. -/
def ucmInit (S : Sym K) (i : UcmInitIn K) : Except Canyon.Err (UcmInit K) :=
  match Canyon.ucmGeometry S i.bldHeight i.bldDensity i.verToHor i.treeCoverage i.roadVeg with
  | .error e => .error e
  | .ok g => .ok {
      geom := g
      ublWind := max i.initialWind i.windMin
      canWind := i.initialWind
      ustar := 1 / 10 * i.initialWind
      ustarMod := 1 / 10 * i.initialWind
      z0u := z0u i.bldHeight i.verToHor
      lDisp := lDisp i.bldHeight i.verToHor
      facAbsor := facAbsor i.rGlaze i.albWall i.shgc
      roadAbsor := roadAbsor i.roadVeg i.roadAlbedo }

/-! ## The wind-profile loop of `RSMDef.vdm` -/

/-- One level: `ustarRur / vk * log((z - disp) / z0r)`, `0` when `log` raises ValueError. -/
def rsmWind (S : Sym K) (ustarRur vk disp z0r z : K) : K :=
  if (z - disp) / z0r ≤ 0 then 0 else ustarRur / vk * S.log ((z - disp) / z0r)

/-- `for iz in range(nzref): try: windProf[iz] = … except ValueError: windProf[iz] = 0`.
    Per iteration, in evaluation order: `ustarRur / vk` (ZeroDivisionError), `z[iz]` (IndexError),
    `/ z0r` (ZeroDivisionError), `log` (ValueError, caught), the store into `windProf[iz]`
    (IndexError). Entries from `nzref` on keep their old value. -/
def rsmWindLoop (S : Sym K) (ustarRur vk disp z0r : K) : Nat → List K → List K → Except Err (List K)
  | 0, _, old => .ok old
  | n + 1, zs, old =>
    if vk = 0 then .error .zerodiv else
    match zs with
    | [] => .error .index
    | z :: zs' =>
      if z0r = 0 then .error .zerodiv else
      match old with
      | [] => .error .index
      | _ :: old' =>
        match rsmWindLoop S ustarRur vk disp z0r n zs' old' with
        | .error e => .error e
        | .ok rest => .ok (rsmWind S ustarRur vk disp z0r z :: rest)

/-! ## `urbflux` after the road's `SurfFlux` -/

/-- The compensated summation loop of `urbflux` as coded: `(s, c)` ↦ `s - c` at the end. -/
def kahan : K → K → List K → K
  | s, c, [] => s - c
  | s, c, y :: ys => kahan (s + y) (c + ((s + y - s) - y)) ys

structure UrbIn (K : Type) where
  rsm : Rsm K
  z0r : K
  -- UBL
  paralLength : K
  ublTemp : K
  urbArea : K
  -- forc
  wind : K
  pres : K
  -- parameter
  cp : K
  windHeight : K
  vk : K
  g : K
  exCoeff : K
  -- UCM
  canTemp : K          -- `T_can` (read on entry)
  canHum : K
  bldHeight : K
  z0u : K
  lDisp : K
  sensHeat : K
  verToHor : K
  windProf0 : List K   -- `UCM.windProf` on entry: `urbflux` appends to it at every call

structure UrbOut (K : Type) where
  advHeat : K
  ustar : K
  ustarMod : K
  uExch : K
  canWind : K
  turbU : K
  turbV : K
  turbW : K
  windProf : List K

section urb
variable (S : Sym K) (x : UrbIn K)

/-- `RSM.z[RSM.nzfor - 1] + RSM.dz[RSM.nzfor-1] / 2.` -/
def forDensDen : K := x.rsm.z.getD (x.rsm.nzfor - 1) 0 + x.rsm.dz.getD (x.rsm.nzfor - 1) 0 / 2
/-- `Σ_{iz<nzfor} densityProfC[iz] * dz[iz] / (z[nzfor-1] + dz[nzfor-1]/2)` (exact value of the
    compensated sum) -/
def forDens : K := dot2 x.rsm.nzfor x.rsm.densityProfC x.rsm.dz / forDensDen x
def intAdv1 : K := dot3 x.rsm.nzfor x.rsm.windProf x.rsm.tempProf x.rsm.dz
def intAdv2 : K := dot2 x.rsm.nzfor x.rsm.windProf x.rsm.dz

def advHeat : K :=
  x.paralLength * x.cp * forDens x * (intAdv1 x - x.ublTemp * intAdv2 x) / x.urbArea

def zrUrb : K := 2 * x.bldHeight
def zref : K := x.rsm.z.getD (x.rsm.nzref - 1) 0

/-- `forc.wind*log(zref/z0r) / log(windHeight/z0r) * log(zrUrb/z0u) / log(zref/z0u)` -/
def windUrb : K :=
  x.wind * S.log (zref x / x.z0r) / S.log (x.windHeight / x.z0r) *
    S.log (zrUrb x / x.z0u) / S.log (zref x / x.z0u)

def dens : K := airDens x.pres x.canTemp x.canHum

/-- `UCM.ustar = vk * windUrb / log((zrUrb - l_disp) / z0u)` -/
def ustar : K := x.vk * windUrb S x / S.log ((zrUrb x - x.lDisp) / x.z0u)

/-- the base of `** (1/3.)`: `g * max(sensHeat, 0.0) * zref / dens / Cp / T_can` -/
def wstarBase : K := x.g * max x.sensHeat 0 * zref x / dens x / x.cp / x.canTemp
def wstar : K := S.rpow (wstarBase x) (1 / 3)
def ustarMod : K := max (ustar S x) (wstar S x)
def uExch : K := x.exCoeff * ustarMod S x
/-- `canWind = ustarMod * (verToHor / 8.) ** (-1 / 2.)` -/
def canWind : K := ustarMod S x * S.rpow (x.verToHor / 8) (-1 / 2)

/-- one appended level: `ustar / vk * log((z + bldHeight - l_disp) / z0u)` -/
def urbWind (z : K) : K := ustar S x / x.vk * S.log ((z + x.bldHeight - x.lDisp) / x.z0u)

def urbCore : UrbOut K :=
  { advHeat := advHeat x, ustar := ustar S x, ustarMod := ustarMod S x, uExch := uExch S x,
    canWind := canWind S x,
    turbU := 24 / 10 * ustarMod S x, turbV := 19 / 10 * ustarMod S x,
    turbW := 13 / 10 * ustarMod S x,
    windProf := x.windProf0 ++ (x.rsm.z.take x.rsm.nzref).map (urbWind S x) }

/-- Lists long enough for the three sums (`iz < nzfor`); `nzfor = 0` / `nzref = 0` (never
    produced by `RSMDef`) would index from the end in Python and are excluded, as in
    `Air.Rsm.wf`. -/
def sumsWf : Prop :=
  1 ≤ x.rsm.nzfor ∧ 1 ≤ x.rsm.nzref ∧
  x.rsm.nzfor ≤ x.rsm.densityProfC.length ∧ x.rsm.nzfor ≤ x.rsm.dz.length ∧
  x.rsm.nzfor ≤ x.rsm.z.length ∧ x.rsm.nzfor ≤ x.rsm.windProf.length ∧
  x.rsm.nzfor ≤ x.rsm.tempProf.length
instance : Decidable (sumsWf x) := by unfold sumsWf; infer_instance

/-- `log` raises ValueError -/
def logBad (a : K) : Prop := a ≤ 0
instance (a : K) : Decidable (logBad a) := by unfold logBad; infer_instance

/-- first level (in loop order) whose `log` argument is ≤ 0 -/
def anyLogBad (zs : List K) : Bool :=
  zs.any (fun z => decide (logBad ((z + x.bldHeight - x.lDisp) / x.z0u)))

/-- one guard: the exception class when the condition holds -/
def chk (c : Prop) [Decidable c] (e : Err) : Option Err := if c then some e else none

/-- The conditions under which the tail of `urbflux` raises, in program order. (When a list is
    too short *and* a denominator of the same stage is zero the class reported is `index`.) -/
def urbGuardList : List (Option Err) :=
  [ chk (¬ sumsWf x) .index,
    chk (forDensDen x = 0) .zerodiv,
    chk (x.urbArea = 0) .zerodiv,
    chk (x.rsm.z.length < x.rsm.nzref) .index,
    -- windUrb
    chk (x.z0r = 0) .zerodiv,
    chk (logBad (zref x / x.z0r)) .value,
    chk (logBad (x.windHeight / x.z0r)) .value,
    chk (S.log (x.windHeight / x.z0r) = 0) .zerodiv,
    chk (x.z0u = 0) .zerodiv,
    chk (logBad (zrUrb x / x.z0u)) .value,
    chk (logBad (zref x / x.z0u)) .value,
    chk (S.log (zref x / x.z0u) = 0) .zerodiv,
    -- dens
    chk (airDensDen x.canTemp x.canHum = 0) .zerodiv,
    -- ustar
    chk (logBad ((zrUrb x - x.lDisp) / x.z0u)) .value,
    chk (S.log ((zrUrb x - x.lDisp) / x.z0u) = 0) .zerodiv,
    -- wstar (`T_can ≠ 0` is known here); a negative base gives a complex number and
    -- `max(ustar, wstar)` raises TypeError
    chk (dens x = 0) .zerodiv,
    chk (x.cp = 0) .zerodiv,
    chk (wstarBase x < 0) .type,
    -- canWind: `0.0 ** (-1/2.)`
    chk (x.verToHor / 8 = 0) .zerodiv,
    -- urban wind profile (`nzref ≥ 1`, so the first iteration divides by `vk`)
    chk (x.vk = 0) .zerodiv,
    chk (anyLogBad x (x.rsm.z.take x.rsm.nzref) = true) .value ]

/-- the first exception raised, if any -/
def urbGuards : Option Err := (urbGuardList S x).findSome? id

def urbTail : Except Err (UrbOut K) :=
  match urbGuards S x with
  | some e => .error e
  | none => .ok (urbCore S x)

end urb

/-! ## `UBLDef.__init__` (over ℚ: `round`, `int` are not field operations) -/

/-- Python's `round(x)` on an exact rational (`Fraction.__round__`): nearest integer, ties to
    the even one. Floats round the same way (`float.__round__`). -/
def pyRound (x : Rat) : Int :=
  let f := x.num / (x.den : Int)
  let r := x.num % (x.den : Int)
  if r * 2 < (x.den : Int) then f
  else if r * 2 > (x.den : Int) then f + 1
  else if f % 2 = 0 then f
  else f + 1

structure UblGeom where
  perimeter : Rat
  urbArea : Rat
  orthLength : Rat
  numdx : Int
  paralLength : Rat
  /-- `len(ublTempdx) = len(range(int(numdx)))` -/
  ncells : Nat

/-- `UBLDef.__init__`: ZeroDivisionError when `min(charLength, maxdx) = 0` or `numdx = 0`. -/
def ublInit (charLength maxdx : Rat) : Except Err UblGeom :=
  if min charLength maxdx = 0 then .error .zerodiv
  else
    let numdx := pyRound (charLength / min charLength maxdx)
    if numdx = 0 then .error .zerodiv
    else .ok {
      perimeter := 4 * charLength
      urbArea := charLength ^ 2
      orthLength := charLength
      numdx := numdx
      paralLength := charLength / (numdx : Rat)
      ncells := numdx.toNat }

end Uwg.Urb
