/-
The morphing pipeline `generate(); simulate(); write_epw()` as ONE function (composition of the
models of C01, C02, C03, C10; core Lean only).

Mirrored code (uwg/uwg.py, uwg/weather.py, uwg/simparam.py), in the order the real calls happen:

* `generate()`  → `_read_epw` (the rural file is already given here as `hdr` = the header rows and
  `rows` = the data rows, i.e. `climate_data[0:8]` / `climate_data[8:]`; the *interpretation* of the
  header - latitude, ground temperatures - is handed in as the parameters `nSoilGe3`, `table`, `init`),
  then `SimParam(dt, …)`: refuses a timestep that does not divide one hour (`Clock.create`),
  then `Weather(epw, timeInitial, timeFinal)`: cuts the window `climate_data[HI:HF+1]`
  (`Sim.window`) and reads columns 6, 7, 8, 9, 12, 13, 14, 15, 20, 21 of every window row -
  IndexError when a window row has fewer than 22 cells, and (`str2fl(x)` looks at `x[0]`) when the
  window is empty;
* `simulate()`  → `Sim.simulateFile`: projection of the window rows onto the modelled columns
  (`proj`), the whole step loop with an arbitrary physics `P` whose hourly records are the four
  written quantities (`Csv.Res`: canyon temperature − 273.15, dew point, relative humidity, wind,
  each the exact value of the double that `write_epw` formats);
* `write_epw()` → `Csv.writeEpw hdr rows (timeInitial − 8) records precision`.

An exception anywhere propagates to the caller of the three calls: `write_epw` is never reached and no
file is written. `morph` returns the text of the written file or the stage that raised.
-/
import UwgVerif.Model.Csv
import UwgVerif.Model.Sim

namespace Uwg.Morph
open Uwg Uwg.Csv Uwg.Sim

/-- Where the pipeline stopped. -/
inductive MorphErr (E : Type) where
  | timestep (e : ClockErr)   -- `generate()`: `SimParam` refused the timestep
  | weather                   -- `generate()`: IndexError in `Weather` (short row in the window / empty window)
  | sim (e : SimErr E)        -- `simulate()` raised (physics, or forcing row missing: window past the file)
  | write                     -- `write_epw()`: IndexError
deriving Repr

variable {S R D E : Type}

/-- Data row (header excluded) at which `write_epw` starts patching: `timeInitial − 8`. -/
def startRow (M Dy : Nat) : Nat := timeInitial M Dy - 8

/-- `Weather.__init__` can index every column it reads in every row of the window. -/
def weatherOk (w : List Row) : Bool := !w.isEmpty && w.all (fun r => decide (22 ≤ r.length))

/-- `generate(); simulate(); write_epw()` on the rural file `hdr ++ rows`. -/
def morph (P : Phys S R D Res E) (nSoilGe3 : Bool) (table : Nat → D) (mean : List R → D)
    (proj : Row → R) (init : Option R → S) (dt M Dy days p : Nat) (hdr rows : List Row) :
    Except (MorphErr E) (List Char) :=
  match Clock.create dt M Dy with
  | .error e => .error (.timestep e)
  | .ok _ =>
    if weatherOk (window M Dy days rows) then
      match simulateFile P nSoilGe3 table mean proj dt M Dy days rows init with
      | .error x => .error (.sim x.2)
      | .ok x =>
        match writeEpw hdr rows (startRow M Dy) x.2 p with
        | none => .error .write
        | some text => .ok text
    else .error .weather

end Uwg.Morph
