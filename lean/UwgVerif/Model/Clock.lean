/-
Model of the simulation clock of uwg (`uwg/simparam.py`: `SimParam.__init__`, `SimParam.update_date`)
and of the day-type assignment in `UWG.simulate` (`uwg/uwg.py`), over `Nat`, core Lean only.

The model mirrors the code as it stands:

* `julian` is 0-based: `inobis[month-1] + DAY - 1`;
* `update_date` adds `dt` to `secDay`; when the result *equals* 86400 (`is_near_zero` of an integer
  difference is exact equality) it increments `day` and `julian`, resets `secDay`, and scans the twelve
  entries of `inobis` in order, doing `month += 1; day = 1` on every hit;
* afterwards `secDay > 86400` raises (→ `none`); otherwise `hourDay = floor(secDay / 3600)`.

Beside it stands an independent specification of the non-leap calendar (`trueCalendar`), defined from the
table of month *lengths* by walking the months, and of the weekday class (`trueDayType`), defined by
walking the week one day at a time from Sunday 1 January.
-/

namespace Uwg

/-- `SimParam.inobis`: 0-based day of year of the first day of each month (as written in the code). -/
def inobis : List Nat := [0, 31, 59, 90, 120, 151, 181, 212, 243, 273, 304, 334]

/-- State of `SimParam` that `update_date` touches. -/
structure Clock where
  month : Nat
  day : Nat
  julian : Nat
  secDay : Nat
  hourDay : Nat
deriving DecidableEq, Repr

/-- `SimParam.__init__` (clock part). Exact for `1 ≤ M ≤ 12`, `1 ≤ D` (the validated range of the `month`
and `day` parameters); outside it Python indexes from the end / raises, which the model does not follow. -/
def Clock.init (M D : Nat) : Clock :=
  { month := M, day := D, julian := inobis.getD (M - 1) 0 + D - 1, secDay := 0, hourDay := 0 }

/-- Outcome of the constructor's timestep guard `if 3600 % dt != 0: raise` followed by the clock set-up.
`dt = 0` makes Python's `%` raise `ZeroDivisionError` before the comparison. -/
inductive ClockErr
  | zerodiv | timestep
deriving DecidableEq, Repr

/-- `SimParam.__init__` including the guard on the timestep. -/
def Clock.create (dt M D : Nat) : Except ClockErr Clock :=
  if dt = 0 then .error .zerodiv
  else if 3600 % dt ≠ 0 then .error .timestep
  else .ok (Clock.init M D)

/-- The loop `for j in range(12): if julian == inobis[j]: month += 1; day = 1` over the remaining table
entries, threading `(month, day)`. -/
def monthScan (julian : Nat) : List Nat → Nat × Nat → Nat × Nat
  | [], md => md
  | b :: bs, (m, d) => if julian = b then monthScan julian bs (m + 1, 1) else monthScan julian bs (m, d)

/-- `SimParam.update_date`. `none` = the `TIMESTEP ERROR` exception (`secDay > 86400`). -/
def Clock.update (dt : Nat) (c : Clock) : Option Clock :=
  let sec := c.secDay + dt
  let c1 : Clock :=
    if sec = 86400 then
      let md := monthScan (c.julian + 1) inobis (c.month, c.day + 1)
      { month := md.1, day := md.2, julian := c.julian + 1, secDay := 0, hourDay := c.hourDay }
    else { c with secDay := sec }
  if c1.secDay > 86400 then none
  else some { c1 with hourDay := c1.secDay / 3600 }

/-- `k` successive calls of `update_date`. -/
def Clock.run (dt : Nat) : Nat → Clock → Option Clock
  | 0, c => some c
  | k + 1, c => (Clock.update dt c).bind (Clock.run dt k)

/-- Day type as assigned in `UWG.simulate` after the clock update:
3 = Sunday, 2 = Saturday, 1 = weekday. -/
def dayType (julian : Nat) : Nat :=
  if julian % 7 = 0 then 3 else if julian % 7 = 6 then 2 else 1

/-! ### Independent specification -/

/-- Lengths of the months of a non-leap year. -/
def mdays : List Nat := [31, 28, 31, 30, 31, 30, 31, 31, 30, 31, 30, 31]

/-- Length of month `M` (1-based); 0 outside 1..12. -/
def monthLen (M : Nat) : Nat := if M = 0 then 0 else mdays.getD (M - 1) 0

/-- Number of days before the first day of month `M` (1-based): sum of the lengths of months `1..M-1`. -/
def daysBefore (M : Nat) : Nat := ((mdays.take (M - 1)).foldl (· + ·) 0)

/-- Walk the months: `doy` days remain to be consumed, the current month is `m` and the months from `m`
on have the given lengths. Returns (month, day of month), both 1-based. Beyond the table the walk stops in
the month after the last one. -/
def monthDayFrom (doy : Nat) : List Nat → Nat → Nat × Nat
  | [], m => (m, doy + 1)
  | len :: rest, m => if doy < len then (m, doy + 1) else monthDayFrom (doy - len) rest (m + 1)

/-- (month, day of month) of the 0-based day of year `doy`. -/
def monthDay (doy : Nat) : Nat × Nat := monthDayFrom doy mdays 1

/-- True calendar instant `secs` seconds after 1 January 00:00 of a non-leap year, in the five fields of
the clock: month, day of month, 0-based day of year, seconds of day, hour of day. -/
def trueCalendar (secs : Nat) : Clock :=
  let doy := secs / 86400
  let s := secs % 86400
  { month := (monthDay doy).1, day := (monthDay doy).2, julian := doy, secDay := s, hourDay := s / 3600 }

/-- Days of the week. -/
inductive Weekday
  | sun | mon | tue | wed | thu | fri | sat
deriving DecidableEq, Repr

def Weekday.next : Weekday → Weekday
  | .sun => .mon | .mon => .tue | .tue => .wed | .wed => .thu | .thu => .fri | .fri => .sat | .sat => .sun

/-- Weekday of the 0-based day of year when 1 January is a Sunday: walk forward one day at a time. -/
def weekdayOf : Nat → Weekday
  | 0 => .sun
  | n + 1 => (weekdayOf n).next

/-- The three schedule classes: 3 = Sunday, 2 = Saturday, 1 = Monday..Friday. -/
def Weekday.cls : Weekday → Nat
  | .sun => 3 | .sat => 2 | _ => 1

/-- True day type of the 0-based day of year (1 January = Sunday). -/
def trueDayType (doy : Nat) : Nat := (weekdayOf doy).cls

end Uwg
