/-
Model of `uwg/psychrometrics.py`, operation by operation, generic over an ordered field `K` and a
table of function symbols `Sym K` (`exp`, `log`, `rpow`).

  psychrometrics(Tdb_in [K], w_in, P [Pa])  ->  (Tdb, w, phi, h, Tdp, v)      `psychro`
  saturation_pressure(Tdb_ [°C])            ->  kPa                           `satPressure`
  moist_air_density(P, Tdb, H)                                                `moistAirDensity`
  hum_from_rhum_temp(RH [%], T [°C], P [Pa]) -> humidity ratio                `humFromRh`

Python exceptions are modelled explicitly (`Except PErr`):
  * `x / 0`                          -> `zerodiv`
  * `log(x)` with `x ≤ 0`            -> `value`   (except inside the `try:` of `psychrometrics`,
                                                   where it selects `alpha = -3`)
  * `math.pow(x, 0.1984)` with `x<0` -> `value`   (CPython: negative base, non-integral exponent)
in the order in which CPython evaluates the sub-expressions.  `pow(alpha, 2)` and `pow(alpha, 3)`
are exact integer powers; `pow(_pw, 0.1984)` is the symbol `rpow`.

The two routines use different molar-mass ratios (0.621945 in `psychrometrics`, 0.62198 in
`hum_from_rhum_temp`); the saturation-pressure polynomial is the same in both (proved in
`Props/C09.lean`: `satExponent_eq`).
-/
import UwgVerif.Model.Symbols
import Mathlib.Algebra.Order.Field.Basic

namespace Uwg
variable {K : Type} [Field K] [LinearOrder K] [IsStrictOrderedRing K]

/-- Python exception classes that the psychrometric routines can raise in exact arithmetic. -/
inductive PErr where
  | zerodiv
  | value
deriving Repr, DecidableEq

def PErr.toString : PErr → String
  | .zerodiv => "zerodiv"
  | .value => "value"

/-- The six results of `psychrometrics`. -/
structure PsyOut (K : Type) where
  tdb : K
  w : K
  phi : K
  h : K
  tdp : K
  v : K

/-! ### saturation_pressure -/

/-- The argument of `exp` in `saturation_pressure`, as written there, in terms of `T = Tdb_ + 273.15`:
    `-1 * 5.8002206e3 / T + 1.3914993 + 4.8640239e-2 * T * -1.0 + 4.1764768e-5 * pow(T, 2)
     - 1.4452093e-8 * pow(T, 3) + 6.5459673 * log(T)`. -/
def satExponent (s : Sym K) (T : K) : K :=
  -1 * 5.8002206e3 / T + 1.3914993 + 4.8640239e-2 * T * -1.0 + 4.1764768e-5 * T ^ 2
    - 1.4452093e-8 * T ^ 3 + 6.5459673 * s.log T

/-- Value of `saturation_pressure(Tdb_)` [kPa] when no exception is raised. -/
def satPressureVal (s : Sym K) (tdb : K) : K :=
  s.exp (satExponent s (tdb + 273.15)) / 1000

/-- `saturation_pressure(Tdb_)`: `T = Tdb_ + 273.15`; `…/T` raises ZeroDivisionError for `T = 0`
    (evaluated first), `log(T)` raises ValueError for `T < 0`. -/
def satPressure (s : Sym K) (tdb : K) : Except PErr K :=
  let T := tdb + 273.15
  if T = 0 then .error .zerodiv
  else if T ≤ 0 then .error .value
  else .ok (satPressureVal s tdb)

/-! ### psychrometrics -/

/-- `Pw = (w * P) / (0.621945 + w)` with `P` already in kPa. -/
def vapourPressure (w P : K) : K := (w * P) / (0.621945 + w)

/-- `alpha`: `log(_pw)`, or `-3` where Python's `log` raises ValueError (`_pw ≤ 0`). -/
def dewAlpha (s : Sym K) (pw : K) : K := if pw ≤ 0 then -3 else s.log pw

/-- The dew-point correlation
    `6.54 + 14.526*alpha + pow(alpha,2)*0.7389 + pow(alpha,3)*0.09486 + pow(_pw,0.1984)*0.4569`. -/
def dewPoint (s : Sym K) (pw : K) : K :=
  let alpha := dewAlpha s pw
  6.54 + 14.526 * alpha + alpha ^ 2 * 0.7389 + alpha ^ 3 * 0.09486 + s.rpow pw 0.1984 * 0.4569

/-- Value of `phi` when nothing raises: `Pw / Pws * 100.0` (inputs in K and Pa). -/
def phiVal (s : Sym K) (tdbIn w P0 : K) : K :=
  vapourPressure w (P0 / 1000) / satPressureVal s (tdbIn - 273.15) * 100.0

/-- Value of `Tdp` when nothing raises. -/
def tdpVal (s : Sym K) (w P0 : K) : K := dewPoint s (vapourPressure w (P0 / 1000))

/-- `psychrometrics(Tdb_in, w_in, P)`. -/
def psychro (s : Sym K) (tdbIn wIn P0 : K) : Except PErr (PsyOut K) :=
  let c_air : K := 1006
  let hlg : K := 2501000
  let cw : K := 1860
  let P := P0 / 1000
  let tdb := tdbIn - 273.15
  let w := wIn
  if 0.621945 + w = 0 then .error .zerodiv else
  let pw := (w * P) / (0.621945 + w)
  match satPressure s tdb with
  | .error e => .error e
  | .ok pws =>
    if pws = 0 then .error .zerodiv else
    let phi := pw / pws * 100.0
    let h := c_air * tdb + w * (hlg + cw * tdb)
    if P = 0 then .error .zerodiv else
    let v := 0.287042 * (tdb + 273.15) * (1 + 1.607858 * w) / P
    let pw' := (w * P) / (0.621945 + w)
    if pw' < 0 then .error .value else      -- math.pow(negative, 0.1984)
    .ok { tdb := tdb, w := w, phi := phi, h := h, tdp := dewPoint s pw', v := v }

/-! ### moist_air_density -/

/-- `P / (1000 * 0.287042 * Tdb * (1. + 1.607858 * H))`. -/
def moistAirDensity (P tdb H : K) : Except PErr K :=
  let d := 1000 * 0.287042 * tdb * (1 + 1.607858 * H)
  if d = 0 then .error .zerodiv else .ok (P / d)

/-! ### hum_from_rhum_temp -/

/-- The argument of `exp` in `hum_from_rhum_temp` as written there (constants C8..C13). -/
def humExponent (s : Sym K) (T : K) : K :=
  -5.8002206e3 / T + 1.3914993 + -4.8640239e-2 * T + 4.1764768e-5 * T ^ 2
    + -1.4452093e-8 * T ^ 3 + 6.5459673 * s.log T

/-- Value of `hum_from_rhum_temp(RH, T, P)` when nothing raises. -/
def humFromRhVal (s : Sym K) (RH tC P : K) : K :=
  let pws := s.exp (humExponent s (tC + 273.15))
  let pw := RH * pws / 100.0
  0.62198 * pw / (P - pw)

/-- `hum_from_rhum_temp(RH, T, P)`. -/
def humFromRh (s : Sym K) (RH tC P : K) : Except PErr K :=
  let T := tC + 273.15
  if T = 0 then .error .zerodiv
  else if T ≤ 0 then .error .value
  else
    let pws := s.exp (humExponent s T)
    let pw := RH * pws / 100.0
    if P - pw = 0 then .error .zerodiv else .ok (0.62198 * pw / (P - pw))

/-! ### driver fragment (uwg.py `simulate`, weather.py) -/

/-- The three columns of a rural EPW row that determine its humidity ratio
    (`staRhum` [%], `staTemp` [°C] before the +273.15, `staPres` [Pa]). -/
structure RuralRow (K : Type) where
  rh : K
  tC : K
  pres : K

/-- `Weather.staHum[i] = hum_from_rhum_temp(staRhum[i], staTemp[i], staPres[i])`;
    `forc.hum = forcIP.hum[row]`; `UCM.canHum = copy(forc.hum)`. -/
def canHumOf (s : Sym K) (row : RuralRow K) : Except PErr K :=
  humFromRh s row.rh row.tC row.pres

/-- What `simulate` stores at record time for a step driven by rural row `row` whose physics
    produced the canyon temperature `canTemp` [K]:
    `psychrometrics(UCM.canTemp, UCM.canHum, forc.pres)` with `canHum = staHum(row)`. -/
def recordHumidity (s : Sym K) (row : RuralRow K) (canTemp : K) : Except PErr (PsyOut K) :=
  match canHumOf s row with
  | .error e => .error e
  | .ok w => psychro s canTemp w row.pres

end Uwg
