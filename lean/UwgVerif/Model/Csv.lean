/-
C01 model: the text layer of `write_epw` / `_read_epw` (core Lean only, strings as `List Char`).

Mirrors, in /repo/uwg:
* `UWG._csv_field`            → `renderCell`
* `','.join(... for c in row)` → `renderRow`
* `csv.reader(file, delimiter=',')` on one physical line → `parseLine`
  (CPython `_csv.c` state machine, default dialect: doublequote, quotechar `"`, delimiter `,`, no
  escapechar, QUOTE_MINIMAL, skipinitialspace False, strict False)
* `'{0:.{1}f}'.format(x, p)` on the exact value `x = num/den` → `fmtFixed`
* the patch loop + the two write loops of `write_epw` → `patchRows`, `writeEpw`
* the default of `new_epw_path` → `defaultName`
* the writer before the repair (kept as a documented defect) → `renderRowAsis`, `renderHeaderAsis`

Coverage claimed for `parseLine`: physical lines without `\n` / `\r` (inside a line CPython treats these
as record terminators in unquoted fields and as data in quoted fields; the model treats them as ordinary
characters, and every theorem carries the guard "no `\n`, `\r` in any cell").
-/

namespace Uwg.Csv

abbrev Cell := List Char
abbrev Row := List Cell

/-! ### Writer: `_csv_field` and `','.join` -/

/-- `',' in cell or '"' in cell`. -/
def needsQuote (c : Cell) : Bool := c.contains ',' || c.contains '"'

/-- `cell.replace('"', '""')`. -/
def escapeQuotes : Cell → List Char
  | [] => []
  | ch :: cs => if ch = '"' then '"' :: '"' :: escapeQuotes cs else ch :: escapeQuotes cs

/-- `UWG._csv_field`. -/
def renderCell (c : Cell) : List Char :=
  if needsQuote c then '"' :: (escapeQuotes c ++ ['"']) else c

/-- `','.join(UWG._csv_field(c) for c in row)`. -/
def renderRow : Row → List Char
  | [] => []
  | [c] => renderCell c
  | c :: d :: ds => renderCell c ++ ',' :: renderRow (d :: ds)

/-! ### Reader: the `csv.reader` automaton on one line -/

/-- Parser states (`_csv.c`): START_FIELD, IN_FIELD, IN_QUOTED_FIELD, QUOTE_IN_QUOTED_FIELD. -/
inductive St
  | start | infield | quoted | qq
  deriving DecidableEq, Repr

/-- Add a character in front of the field currently being collected. -/
def consHead (c : Char) : List Cell → List Cell
  | [] => [[c]]
  | f :: fs => (c :: f) :: fs

/-- The automaton, written as a right fold: the result is the list of fields of the rest of the line, its
head being the rest of the field currently collected. End of line saves the current field in every state
(in `quoted` that is CPython's non-strict behaviour at end of input). -/
def parseAux : St → List Char → List Cell
  | _, [] => [[]]
  | .start, c :: cs =>
      if c = '"' then parseAux .quoted cs
      else if c = ',' then [] :: parseAux .start cs
      else consHead c (parseAux .infield cs)
  | .infield, c :: cs =>
      if c = ',' then [] :: parseAux .start cs
      else consHead c (parseAux .infield cs)
  | .quoted, c :: cs =>
      if c = '"' then parseAux .qq cs
      else consHead c (parseAux .quoted cs)
  | .qq, c :: cs =>
      if c = '"' then consHead c (parseAux .quoted cs)
      else if c = ',' then [] :: parseAux .start cs
      else consHead c (parseAux .infield cs)

/-- One record of `csv.reader`: the empty line is the empty record `[]` (START_RECORD sees end of line),
every other line has at least one field. -/
def parseLine : List Char → List Cell
  | [] => []
  | c :: cs => parseAux .start (c :: cs)

/-- State of the automaton at the end of the line (used to show that a rendered row never leaves a quoted
field open, i.e. that `csv.reader` does not continue the record on the next physical line). -/
def endSt : St → List Char → St
  | s, [] => s
  | .start, c :: cs => if c = '"' then endSt .quoted cs else if c = ',' then endSt .start cs else endSt .infield cs
  | .infield, c :: cs => if c = ',' then endSt .start cs else endSt .infield cs
  | .quoted, c :: cs => if c = '"' then endSt .qq cs else endSt .quoted cs
  | .qq, c :: cs =>
      if c = '"' then endSt .quoted cs else if c = ',' then endSt .start cs else endSt .infield cs

/-- Split a text into physical lines at `\n` (a final line without terminator is kept when non-empty). -/
def splitLines : List Char → List (List Char)
  | [] => []
  | c :: cs =>
    if c = '\n' then [] :: splitLines cs
    else match splitLines cs with
      | [] => [[c]]
      | l :: ls => (c :: l) :: ls

/-- `[r for r in csv.reader(file)]` for files whose records do not span lines. -/
def parseFile (text : List Char) : List Row := (splitLines text).map parseLine

/-! ### Fixed-point formatting: `'{:.{p}f}'.format(x)` for the exact value `x = num/den` -/

def digitChar (d : Nat) : Char := Char.ofNat (48 + d)

/-- Decimal digits of a natural number, most significant first (`0` ↦ `"0"`). -/
def natDigits (n : Nat) : List Char :=
  if n < 10 then [digitChar n] else natDigits (n / 10) ++ [digitChar (n % 10)]
termination_by n
decreasing_by omega

/-- Exactly `k` decimal digits of `m mod 10^k`, most significant first. -/
def fixedDigits : Nat → Nat → List Char
  | 0, _ => []
  | k + 1, m => fixedDigits k (m / 10) ++ [digitChar (m % 10)]

/-- Round `a/den` to the nearest integer, ties to even. -/
def roundHalfEven (a den : Nat) : Nat :=
  let q := a / den
  let r := a % den
  if den < 2 * r ∨ (2 * r = den ∧ q % 2 = 1) then q + 1 else q

/-- The scaled integer CPython prints: round-half-even of `|num/den|·10^p`. -/
def fmtScaled (num : Int) (den p : Nat) : Nat := roundHalfEven (num.natAbs * 10 ^ p) den

/-- `'{:.{p}f}'.format(num/den)`: sign kept whenever the value is negative (so `-0.0` for small negative
values), no decimal point when `p = 0`. Meaningful for `den > 0`. -/
def fmtFixed (num : Int) (den p : Nat) : List Char :=
  let n := fmtScaled num den p
  let body := natDigits (n / 10 ^ p) ++ (if p = 0 then [] else '.' :: fixedDigits p (n % 10 ^ p))
  if num < 0 then '-' :: body else body

/-- Value of a string of decimal digits. -/
def decValue (l : List Char) : Nat := l.foldl (fun acc c => acc * 10 + (c.toNat - 48)) 0

/-! ### `write_epw` -/

/-- An exact rational `num/den` (the double that the real code formats). -/
structure Frac where
  num : Int
  den : Nat
  deriving Repr, DecidableEq

/-- The four values written for one simulated hour: `canTemp - 273.15`, `Tdp`, `canRHum`, `wind`
(each the exact value of the double handed to `format`). -/
structure Res where
  tdb : Frac
  tdp : Frac
  rh : Frac
  wind : Frac
  deriving Repr, DecidableEq

def fmtFrac (q : Frac) (p : Nat) : Cell := fmtFixed q.num q.den p

/-- `row[j] = v` (IndexError ↦ `none`). -/
def setCol (j : Nat) (v : Cell) (r : Row) : Option Row :=
  if j < r.length then some (r.set j v) else none

/-- The four assignments of one loop iteration, in source order. -/
def patchRow (p : Nat) (r : Row) (x : Res) : Option Row :=
  (setCol 6 (fmtFrac x.tdb p) r).bind fun r1 =>
  (setCol 7 (fmtFrac x.tdp p) r1).bind fun r2 =>
  (setCol 8 (fmtFrac x.rh p) r2).bind fun r3 =>
  setCol 21 (fmtFrac x.wind p) r3

/-- `for iJ in range(len(UCMData)): epwinput[iJ + timeInitial - 8][…] = …` with `s = timeInitial - 8`. -/
def patchRows (p : Nat) : List Row → Nat → List Res → Option (List Row)
  | rows, _, [] => some rows
  | rows, s, x :: xs =>
    match rows[s]? with
    | none => none
    | some r => (patchRow p r x).bind fun r' => patchRows p (rows.set s r') (s + 1) xs

/-- Text of a list of rows: every row rendered and terminated by `\n`. -/
def writeText (rows : List Row) : List Char := rows.flatMap fun r => renderRow r ++ ['\n']

/-- `write_epw`: patch the window, then write 8 header rows and all data rows.
`none` = IndexError (window outside the data, a window row with fewer than 22 cells, fewer than 8 header
rows). -/
def writeEpw (hdr rows : List Row) (s : Nat) (res : List Res) (p : Nat) : Option (List Char) :=
  (patchRows p rows s res).bind fun rows' =>
    if hdr.length < 8 then none else some (writeText (hdr.take 8 ++ rows'))

/-! ### Default output name -/

def suffixEpw : List Char := ['.', 'e', 'p', 'w']
def suffixUwg : List Char := ['_', 'U', 'W', 'G', '.', 'e', 'p', 'w']

/-- `name.lower().endswith('.epw')` (ASCII names). -/
def endsWithEpw (n : List Char) : Bool := (n.drop (n.length - 4)).map Char.toLower == suffixEpw

/-- Default `new_epw_name`: strip a case-insensitive `.epw`, append `_UWG.epw`. -/
def defaultName (n : List Char) : List Char :=
  (if endsWithEpw n then n.take (n.length - 4) else n) ++ suffixUwg

/-! ### The writer before the repair (documented defect) -/

/-- Pre-repair data row: `printme += cell + ','` for every cell, then the last cell once more. -/
def renderRowAsis (r : Row) : List Char := (r.flatMap fun c => c ++ [',']) ++ r.getLastD []

/-- Pre-repair header row: `reduce(lambda x, y: x + ',' + y, row)` - no quoting. -/
def renderHeaderAsis : Row → List Char
  | [] => []
  | [c] => c
  | c :: d :: ds => c ++ ',' :: renderHeaderAsis (d :: ds)

end Uwg.Csv
