/-
Model of `RSMDef.diffusion_equation(nz, dt, co, da, daz, cd, dz)` (uwg/RSMDef.py): one implicit
step of the vertical diffusion of potential temperature at the rural site.

    cddz = [0]*(nz+2); a = nz x 3 zeros; c = [0]*nz
    cddz[0] = daz[0]*cd[0]/dz[0]
    for iz in range(1, nz):  cddz[iz] = 2.*daz[iz]*cd[iz]/(dz[iz]+dz[iz-1])
    cddz[nz] = daz[nz]*cd[nz]/dz[nz]
    a[0] = (0,1,0); c[0] = co[0]
    for iz in range(1, nz-1):
        dzv = dz[iz]
        a[iz][0] = -cddz[iz]*dt/dzv/da[iz]
        a[iz][1] = 1 + dt*(cddz[iz]+cddz[iz+1])/dzv/da[iz]
        a[iz][2] = -cddz[iz+1]*dt/dzv/da[iz]
        c[iz] = co[iz]
    a[nz-1] = (-1,1,0); c[nz-1] = 0
    return RSMDef.invert(nz, a, c)

Facts about the code as it is that the model keeps:
* `cddz[0]` and `cddz[nz]` are computed (so `daz[0]`, `cd[0]`, `dz[0]`, `daz[nz]`, `cd[nz]`,
  `dz[nz]` are read and `dz[0]`, `dz[nz]` divide) but never used by any row; the rows only use
  the interface coefficients `cddz[1..nz-1]`.
* `co[nz-1]`, `da[0]`, `da[nz-1]` are never read.
* Python raises IndexError / ZeroDivisionError in statement order; `pyChecks` lists every
  subscript / division that can fail in exactly that order, `firstErr` picks the first failure.
* `invert` raises ZeroDivisionError iff a pivot of the eliminated system is zero (`solveChecked`).

Generic over a field `K` with decidable equality; executed at `K := ℚ`.
-/
import UwgVerif.Model.Tridiag

namespace Uwg
variable {K : Type} [Field K]

/-- Everything `diffusion_equation` may read at one level `i`:
    `co[i]`, `da[i]`, `dz[i]` and the lower-interface values `daz[i]`, `cd[i]`. -/
structure Level (K : Type) where
  co : K
  da : K
  dz : K
  daz : K
  cd : K
deriving Repr

/-- `cddz[iz] = 2*daz[iz]*cd[iz]/(dz[iz]+dz[iz-1])` for the interface between level `lo`
    (index `iz-1`) and level `up` (index `iz`). -/
def cddzI (lo up : Level K) : K := 2 * up.daz * up.cd / (up.dz + lo.dz)

/-- The interior row of level `l` with lower-interface coefficient `g = cddz[iz]` and
    upper-interface coefficient `g' = cddz[iz+1]`. -/
def diffRow (dt g g' : K) (l : Level K) : Row K :=
  { a := -g * dt / l.dz / l.da
    b := 1 + dt * (g + g') / l.dz / l.da
    c := -g' * dt / l.dz / l.da
    y := l.co }

/-- The closing row `a[nz-1] = (-1, 1, 0)`, `c[nz-1] = 0` ("top two levels equal"). -/
def topRow : Row K := { a := -1, b := 1, c := 0, y := 0 }

/-- Rows of the levels from the current one upwards; `g` is the coefficient of the interface
    below the head level (threaded like `gin` in `condRows`). The last listed level gets the
    closing row. -/
def interiorRows (dt : K) (g : K) : List (Level K) → List (Row K)
  | [] => []
  | [_] => [topRow]
  | l :: l' :: rest =>
    diffRow dt g (cddzI l l') l :: interiorRows dt (cddzI l l') (l' :: rest)

/-- All `nz` rows, bottom level first. With a single level the Dirichlet row is overwritten by
    the closing row, exactly as the assignments to `a[nz-1]` overwrite `a[0]` in Python. -/
def diffusionRows (dt : K) : List (Level K) → List (Row K)
  | [] => []
  | [_] => [topRow]
  | l0 :: l1 :: rest =>
    { a := 0, b := 1, c := 0, y := l0.co } :: interiorRows dt (cddzI l0 l1) (l1 :: rest)

/-- The first `nz` levels of the input lists. Entries that do not exist are filled with 0; the
    guard `pyChecks` makes sure that every entry a row actually uses does exist. -/
def mkLevels (nz : Nat) (co da daz cd dz : List K) : List (Level K) :=
  (List.range nz).map fun i =>
    { co := co.getD i 0, da := da.getD i 0, dz := dz.getD i 0, daz := daz.getD i 0,
      cd := cd.getD i 0 }

/-- The two exceptions the arithmetic kernels can raise on numeric lists. -/
inductive PyErr where
  | index
  | zerodiv
deriving Repr, DecidableEq

/-- `l[i]` raises IndexError? -/
def needIdx (l : List K) (i : Nat) : Option PyErr :=
  if i < l.length then none else some .index

section Dec
variable [DecidableEq K]

/-- `_ / b` raises ZeroDivisionError? -/
def needNZ (b : K) : Option PyErr := if b = 0 then some .zerodiv else none

/-- Every subscript and division of `diffusion_equation` that can fail, in evaluation order. -/
def pyChecks (nz : Nat) (co da daz cd dz : List K) : List (Option PyErr) :=
  -- cddz[0] = daz[0] * cd[0] / dz[0]
  [needIdx daz 0, needIdx cd 0, needIdx dz 0, needNZ (dz.getD 0 0)]
  -- for iz in range(1, nz): cddz[iz] = 2.*daz[iz]*cd[iz]/(dz[iz]+dz[iz-1])
  ++ (List.range' 1 (nz - 1)).flatMap (fun iz =>
      [needIdx daz iz, needIdx cd iz, needIdx dz iz, needNZ (dz.getD iz 0 + dz.getD (iz - 1) 0)])
  -- cddz[nz] = daz[nz] * cd[nz] / dz[nz]
  ++ [needIdx daz nz, needIdx cd nz, needIdx dz nz, needNZ (dz.getD nz 0)]
  -- a[0][0] = 0.   (a has nz rows);   c[0] = co[0]
  ++ [if nz = 0 then some .index else none, needIdx co 0]
  -- for iz in range(1, nz-1): ... / dzv / da[iz] ...; c[iz] = co[iz]
  ++ (List.range' 1 (nz - 2)).flatMap (fun iz =>
      [needNZ (dz.getD iz 0), needIdx da iz, needNZ (da.getD iz 0), needIdx co iz])

/-- The first failing check, if any. -/
def firstErr : List (Option PyErr) → Option PyErr
  | [] => none
  | some e :: _ => some e
  | none :: cs => firstErr cs

/-- `invert` with its ZeroDivisionError: raised iff some pivot of the eliminated system is 0. -/
def solveChecked (rs : List (Row K)) : Except PyErr (List K) :=
  if (elim rs).any (fun r => decide (r.b = 0)) then .error .zerodiv else .ok (solve rs)

/-- `RSMDef.diffusion_equation(nz, dt, co, da, daz, cd, dz)`. -/
def diffusion (nz : Nat) (dt : K) (co da daz cd dz : List K) : Except PyErr (List K) :=
  match firstErr (pyChecks nz co da daz cd dz) with
  | some e => .error e
  | none => solveChecked (diffusionRows dt (mkLevels nz co da daz cd dz))

end Dec

/-- `Σ_{i=lo}^{lo+n-1} f i` (vocabulary of the conservation statement; not used by the model). -/
def sumFrom (f : Nat → K) : Nat → Nat → K
  | _, 0 => 0
  | lo, n + 1 => f lo + sumFrom f (lo + 1) n

end Uwg
