/-
Composition C — the body of the `for it` loop of `UWG.simulate` (uwg/uwg.py) as ONE total function
`step`, composed from the kernel models that the per-property checks tie to the real code:

  forcing selection (`max(wind, windMin)`, `UCM.canHum = forc.hum`)        — here
  `SolarCalcs.solarcalcs`  = `solaranglesImpl` (Model/Solar) ; `Canyon.solarcalcs` (Model/Canyon)
  day type, traffic schedule, per-building schedule look-ups, internal-gain
  fractions with the `intHeat > 0` guard (`Sim.loadFractions`), the asserting
  setters `vent`, `int_heat_night`, `int_heat_flat`, envelope temperatures  — here
  `rural.infra`, rural `Element.SurfFlux`                                   — `Uwg.surfFlux` (Model/SurfFlux)
  `RSMDef.vdm`                                                              — `Rsm.vdm` (Model/RsmCoef)
  `urbflux`: per-building loop (`Building.BEMCalc` = `Hvac.bemCalc` with `psychrometrics` =
    `Uwg.psychro` for `indoorRhum`, roof long-wave, `infracalcs` = `Canyon.infracalcs`, mass
    `Conduction` = `Uwg.conduction`, roof / wall `SurfFlux`), road `infracalcs` + `SurfFlux`,
    `latHeat` (`None` stays `None`), then the tail = `Urb.urbTail` (Model/UrbFlux)
  `UCMDef.UCModel`, `UBLDef.ublmodel`                                       — `Air.ucModel`, `Air.ublModel`
  the record block: `psychrometrics(canTemp, canHum, forc.pres)` → `UCM.canRHum`, `UCM.Tdp`.

`step` is everything between `simTime.update_date()` and the end of the loop body: the clock view of the
step (`StepTrace`, produced by `Model/Driver.lean`), the forcing row selected at `ceil_time_step` and the
deep / ground-water temperatures chosen *before* the clock advanced are its arguments — exactly the
interface `Sim.Phys` that the C03 / C10 theorems quantify over. Nothing is left uninterpreted except the
libm symbols (`Sym K`), as in the kernels.

Conventions: generic over an ordered field `K`; Python exceptions are error classes; the first
exception in program order is the outcome. Constants of the objects (geometry, parameters, schedules)
are in `Cfg`, everything a step assigns is in `State`. Each `Element` is carried whole (its layer
constants sit beside the layer temperatures in `Layer`); the four parallel lists of an `Element`
(`layer_thickness_lst`, `layerThermalCond`, `layerVolHeat`, `layerTemp`) have equal lengths by the
constructor's assertion and every `Conduction` returns `len(layerTemp)` values, so a single list of
`Layer`s mirrors them (lists of unequal length are outside the model).

Facts about the code as it is that the model keeps:
* `forc` is overwritten field by field before anything reads it: the pre-state forcing is dead;
* `UCM.latHeat` is `None` after `UCMDef.__init__`; `+=` raises TypeError which is swallowed, so it stays
  `None` for ever (`Option`); the same TypeError is swallowed when `UCM.latAnthrop` is `None` (the
  parameter `latanth` is optional), so then a numeric `latHeat` is left unchanged;
* `Building.latWaste` is only assigned in the cooling branch (`Option`: the attribute does not exist
  before the first cooling step);
* `UCM.windProf` grows by `nzref` entries at every step (never read);
* `urbflux` uses the emissivity of the LAST building's wall for the road's long-wave balance; with no
  building at all the name `e_wall` is unbound (UnboundLocalError → `unbound`);
* the road column simulated by the canyon is `UCM.road` (the un-padded pavement, known finding C20);
* `int(charLength) // int(paralLength)` (the loop bound of `nightforc`) is not a field operation: it is
  the constant `Cfg.nightCount`, computed by `Air.loopCount` from the rationals by the driver;
* the record test `secDay % timePrint == 0 and n < N` is `StepTrace.recorded`.
-/
import UwgVerif.Model.Sim
import UwgVerif.Model.Solar
import UwgVerif.Model.Canyon
import UwgVerif.Model.SurfFlux
import UwgVerif.Model.RsmCoef
import UwgVerif.Model.UrbFlux
import UwgVerif.Model.Hvac
import UwgVerif.Model.AirNodes
import UwgVerif.Model.Psychro

namespace Uwg.Step
open Uwg

/-- Exception classes of the loop body: ZeroDivisionError, IndexError, ValueError, the bare
    `Exception`s raised by the plausibility checks (`fatal`), AssertionError of a validating setter,
    TypeError (`max(ustar, <complex>)`), UnboundLocalError (`e_wall` with an empty `BEM`). -/
inductive Err where
  | zerodiv | index | value | fatal | assert | type | unbound
deriving Repr, DecidableEq

def ofSol : SolErr → Err
  | .index => .index | .zerodiv => .zerodiv
def ofCanyon : Canyon.Err → Err
  | .zerodiv => .zerodiv | .value => .value
def ofSurf : SurfErr → Err
  | .zerodiv => .zerodiv | .index => .index | .fatal => .fatal
def ofRsm : Rsm.RErr → Err
  | .index => .index | .zerodiv => .zerodiv | .value => .value
def ofHvac : Hvac.Err → Err
  | .zerodiv => .zerodiv | .fatal => .fatal
def ofPsy : PErr → Err
  | .zerodiv => .zerodiv | .value => .value
def ofUrb : Urb.Err → Err
  | .zerodiv => .zerodiv | .index => .index | .value => .value | .type => .type
def ofAir : Air.Err → Err
  | .zerodiv => .zerodiv | .index => .index | .fatal => .fatal

/-- Re-class the exception of a kernel. -/
def lift {ε α : Type} (f : ε → Err) : Except ε α → Except Err α
  | .ok a => .ok a
  | .error e => .error (f e)

/-- A test that raises `e` when it fails (`assert`, or a division about to be made). -/
def ensure (c : Prop) [Decidable c] (e : Err) : Except Err Unit := if c then .ok () else .error e

/-! ## Data -/

/-- One row of the rural window as `Forcing` holds it (`forcIP.<field>[ceil_time_step]`). -/
structure FRow (K : Type) where
  infra : K
  wind : K
  uDir : K
  hum : K
  pres : K
  temp : K
  rHum : K
  prec : K
  dif : K
  dir : K
deriving Repr

/-- `forc.deepTemp`, `forc.waterTemp` as selected at the top of the loop body. -/
structure Deep (K : Type) where
  deepTemp : K
  waterTemp : K
deriving Repr

/-- The `forc` object after the selection block. -/
structure Forcing (K : Type) where
  deepTemp : K
  waterTemp : K
  infra : K
  wind : K
  uDir : K
  hum : K
  pres : K
  temp : K
  rHum : K
  prec : K
  dif : K
  dir : K
deriving Repr

/-- The fields of `geoParam` (class `Param`) the loop body reads. -/
structure Par (K : Type) where
  dayBLHeight : K
  windHeight : K
  circCoeff : K
  dayThreshold : K
  treeFLat : K
  grassFLat : K
  vegAlbedo : K
  vegStart : Nat
  vegEnd : Nat
  nightSetStart : K
  nightSetEnd : K
  windMin : K
  exCoeff : K
  g : K
  cp : K
  vk : K
  r : K
  lv : K
  waterDens : K

/-- One `SchDef`: seven weekly tables (3 day types × 24 hours) and six scalars. -/
structure Sched (K : Type) where
  elec : List (List K)
  gas : List (List K)
  light : List (List K)
  occ : List (List K)
  cool : List (List K)
  heat : List (List K)
  swh : List (List K)
  qElec : K
  qGas : K
  qLight : K
  nOcc : K
  vent : K
  vSwh : K

/-- Everything the loop body reads and never assigns. -/
structure Cfg (K : Type) where
  par : Par K
  /-- `simTime.dt` -/
  dt : K
  /-- `simTime.inobis` -/
  inobis : List Nat
  /-- `RSM.lat`, `RSM.lon`, `RSM.gmt` -/
  lat : K
  lon : K
  gmt : K
  /-- `UWG.SIGMA` (used for `rural.infra`; `urbflux` and `infracalcs` have their own literal) -/
  sigma : K
  sensanth : K
  schtraffic : List (List K)
  sensocc : K
  latfocc : K
  radflight : K
  radfequip : K
  sch : List (Sched K)
  -- constants of `UCM`
  bldHeight : K
  bldDensity : K
  verToHor : K
  treeCoverage : K
  vegcover : K
  roadShad : K
  canAspect : K
  roadConf : K
  wallConf : K
  facArea : K
  roadArea : K
  roofArea : K
  z0u : K
  lDisp : K
  albWall : K
  hMix : K
  /-- `UCM.latAnthrop` (`None` when the parameter `latanth` is not given) -/
  latAnthrop : Option K
  -- constants of `RSM`
  nzref : Nat
  nzfor : Nat
  z : List K
  dz : List K
  z0r : K
  disp : K
  -- constants of `UBL`
  ublDayBLHeight : K
  ublNightBLHeight : K
  orthLength : K
  urbArea : K
  perimeter : K
  paralLength : K
  charLength : K
  /-- `int(charLength) // int(paralLength)`; `none`: ZeroDivisionError -/
  nightCount : Option Nat

/-- An `Element` object. -/
structure Elem (K : Type) where
  horizontal : Bool
  albedo : K
  emissivity : K
  vegcoverage : K
  /-- `(grasscoverage, treecoverage)`: attributes that exist only on the urban road -/
  roadCover : Option (K × K)
  layers : List (Layer K)
  solRec : K
  infra : K
  aeroCond : K
  solAbs : K
  lat : K
  sens : K
  flux : K
  tExt : K
  tInt : K

/-- One `BEMDef` with its `Building`. -/
structure Bld (K : Type) where
  -- constants of the BEMDef
  frac : K
  flArea : K
  -- constants of the Building
  floorHeight : K
  infil : K
  glazingRatio : K
  uValue : K
  shgc : K
  cond : Hvac.Cond
  copAdj : K
  coolcap : K
  heateff : K
  heatCap : K
  -- the three elements
  mass : Elem K
  wall : Elem K
  roof : Elem K
  -- BEMDef attributes assigned by the loop body
  elec : K
  light : K
  nocc : K
  qocc : K
  swh : K
  gas : K
  tWallex : K
  tWallin : K
  tRoofex : K
  tRoofin : K
  elecTotal : K
  -- Building attributes assigned by the loop body
  coolSetDay : K
  coolSetNight : K
  heatSetDay : K
  heatSetNight : K
  vent : K
  intHeatDay : K
  intHeatNight : K
  intHeatFRad : K
  intHeatFLat : K
  -- Building attributes read and assigned by `BEMCalc`
  indoorTemp : K
  indoorHum : K
  latWaste : Option K
  /-- all attributes `BEMCalc` assigns (`none`: it never ran on this object) -/
  out : Option (Hvac.BemOut K)

/-- What a step assigns on the `UCMDef` object, and its road. -/
structure Ucm (K : Type) where
  road : Elem K
  canTemp : K
  roadTemp : K
  canHum : K
  canWind : K
  ustar : K
  ustarMod : K
  uExch : K
  turbU : K
  turbV : K
  turbW : K
  sensHeat : K
  latHeat : Option K
  windProf : List K
  sensAnthrop : K
  treeSensHeat : K
  treeLatHeat : K
  solRecRoof : K
  solRecRoad : K
  solRecWall : K
  qRoof : K
  qWall : K
  qWindow : K
  qRoad : K
  qHvac : K
  qTraffic : K
  qUbl : K
  qVent : K
  elecTotal : K
  gasTotal : K
  roofTemp : K
  wallTemp : K
  canRHum : Option K
  tdp : Option K

structure Ubl (K : Type) where
  ublTemp : K
  cells : List K
  advHeat : K
  sensHeat : K

/-- Everything a step assigns. -/
structure State (K : Type) where
  forc : Forcing K
  ucm : Ucm K
  rural : Elem K
  blds : List (Bld K)
  ubl : Ubl K
  rsm : Rsm.VdmOut K

/-- The hourly record: what `write_epw` takes from `UCMData[n]` and `WeatherData[n]`. -/
structure Rec (K : Type) where
  canTemp : K
  tdp : K
  canRHum : K
  wind : K
deriving Repr

variable {K : Type} [Field K] [LinearOrder K] [IsStrictOrderedRing K]

/-! ## Glue of `simulate` -/

/-- The forcing-selection block. -/
def forcOf (windMin : K) (r : FRow K) (d : Deep K) : Forcing K :=
  { deepTemp := d.deepTemp, waterTemp := d.waterTemp, infra := r.infra, wind := max r.wind windMin,
    uDir := r.uDir, hum := r.hum, pres := r.pres, temp := r.temp, rHum := r.rHum, prec := r.prec,
    dif := r.dif, dir := r.dir }

/-- `table[di][hi]`. -/
def look (tab : List (List K)) (di hi : Nat) : Except Err K :=
  match tab[di]? with
  | none => .error .index
  | some row =>
    match row[hi]? with
    | none => .error .index
    | some v => .ok v

/-- `self.dayType - 1` of the advanced clock. -/
def dayIdx (t : StepTrace) : Nat := dayType t.julian - 1

/-- `SolarCalcs(...).solarcalcs()`: `solarangles` only when the sun is up. -/
def solarStage (S : Sym K) (C : Cfg K) (t : StepTrace) (f : Forcing K) (road : Elem K) :
    Except Err (Canyon.SolarOut K) := do
  let a ← (if f.dir + f.dif > 0 then
      lift ofSol (solaranglesImpl S C.inobis t.month t.day t.secDay C.lat C.lon C.gmt C.canAspect)
    else .ok { ut := 0, ad := 0, eqtime := 0, decsol := 0, ha := 0, zenith := 0, tanzen := 0,
               critOrient := 0 })
  lift ofCanyon (Canyon.solarcalcs .impl S
    { dir := f.dir, dif := f.dif, zenith := a.zenith, tanzen := a.tanzen, critOrient := a.critOrient,
      canAspect := C.canAspect, roadConf := C.roadConf, wallConf := C.wallConf, month := t.month,
      vegStart := C.par.vegStart, vegEnd := C.par.vegEnd, roadAlbedo := road.albedo,
      roadVeg := road.vegcoverage, vegAlbedo := C.par.vegAlbedo, albWall := C.albWall,
      treeCoverage := C.treeCoverage, vegcover := C.vegcover, treeFLat := C.par.treeFLat,
      grassFLat := C.par.grassFLat })

/-- `layerTemp[0]` -/
def Elem.t0 (e : Elem K) : Except Err K :=
  match e.layers.head? with
  | some l => .ok l.t
  | none => .error .index

/-- `layerTemp[-1]` -/
def Elem.tLast (e : Elem K) : Except Err K :=
  match e.layers.getLast? with
  | some l => .ok l.t
  | none => .error .index

/-- The per-building block of the loop body (schedules, internal gains, envelope temperatures);
    `roofRec`, `wallRec` are what `solarcalcs` stored on the roof and wall just before. -/
def glueBld (C : Cfg K) (di hi : Nat) (roofRec wallRec : K) (sc : Sched K) (b : Bld K) :
    Except Err (Bld K) := do
  let cool ← look sc.cool di hi
  let heat ← look sc.heat di hi
  let fe ← look sc.elec di hi
  let fl ← look sc.light di hi
  let fo ← look sc.occ di hi
  let fs ← look sc.swh di hi
  -- `building.vent = Sch.vent`: the setter asserts `0 <= value`
  ensure (0 ≤ sc.vent) .assert
  let fg ← look sc.gas di hi
  let elec := sc.qElec * fe
  let light := sc.qLight * fl
  let nocc := sc.nOcc * fo
  let qocc := C.sensocc * (1 - C.latfocc) * nocc
  let intHeat := light + elec + qocc
  -- `building.int_heat_night = intHeat`: the setter asserts `0 <= value` (`int_heat_day` has none)
  ensure (0 ≤ intHeat) .assert
  let fr := Sim.loadFractions light elec qocc nocc C.radflight C.radfequip C.latfocc C.sensocc
  -- `building.int_heat_flat = …`: the setter asserts `0 <= value`
  ensure (0 ≤ fr.2) .assert
  let twx ← b.wall.t0
  let twi ← b.wall.tLast
  let trx ← b.roof.t0
  let tri ← b.roof.tLast
  pure { b with
    wall := { b.wall with solRec := wallRec }, roof := { b.roof with solRec := roofRec },
    coolSetDay := cool + 273.15, coolSetNight := cool + 273.15,
    heatSetDay := heat + 273.15, heatSetNight := heat + 273.15,
    elec := elec, light := light, nocc := nocc, qocc := qocc, swh := sc.vSwh * fs, vent := sc.vent,
    gas := sc.qGas * fg, intHeatDay := intHeat, intHeatNight := intHeat, intHeatFRad := fr.1,
    intHeatFLat := fr.2, tWallex := twx, tWallin := twi, tRoofex := trx, tRoofin := tri }

/-- `for i in range(len(self.BEM))` with `self.Sch[i]`. -/
def glueAll (C : Cfg K) (di hi : Nat) (roofRec wallRec : K) :
    List (Sched K) → List (Bld K) → Except Err (List (Bld K))
  | _, [] => .ok []
  | [], _ :: _ => .error .index
  | sc :: scs, b :: bs =>
    match glueBld C di hi roofRec wallRec sc b with
    | .error e => .error e
    | .ok b' =>
      match glueAll C di hi roofRec wallRec scs bs with
      | .error e => .error e
      | .ok r => .ok (b' :: r)

/-! ## `Element.SurfFlux` on an element of the state -/

/-- `l.t := x` layer by layer. -/
def setTemps : List (Layer K) → List K → List (Layer K)
  | l :: ls, x :: xs => { l with t := x } :: setTemps ls xs
  | _, _ => []

def Elem.surf (e : Elem K) : SurfElement K :=
  { horizontal := e.horizontal, albedo := e.albedo, vegcoverage := e.vegcoverage,
    roadCover := e.roadCover, solRec := e.solRec, infra := e.infra, layers := e.layers }

/-- The arguments of a `SurfFlux` call of the loop body. -/
def surfArgs (C : Cfg K) (t : StepTrace) (f : Forcing K)
    (humRef tempRef windRef boundCond intFlux : K) : SurfArgs K :=
  { pres := f.pres, deepTemp := f.deepTemp, vegStart := C.par.vegStart, vegEnd := C.par.vegEnd,
    vegAlbedo := C.par.vegAlbedo, grassFLat := C.par.grassFLat, treeFLat := C.par.treeFLat,
    waterDens := C.par.waterDens, lv := C.par.lv, month := t.month, dt := C.dt, humRef := humRef,
    tempRef := tempRef, windRef := windRef, boundCond := boundCond, intFlux := intFlux }

/-- What `SurfFlux` leaves on the element. -/
def Elem.after (e : Elem K) (r : SurfResult K) : Elem K :=
  { e with aeroCond := r.aeroCond, solAbs := r.solAbs, lat := r.lat, sens := r.sens, flux := r.flux,
           layers := setTemps e.layers r.layerTemp, tExt := r.tExt, tInt := r.tInt }

def Elem.surfFlux (e : Elem K) (a : SurfArgs K) : Except Err (Elem K) :=
  match Uwg.surfFlux e.surf a with
  | .error x => .error (ofSurf x)
  | .ok r => .ok (e.after r)

/-- `rural.infra = …; rural.SurfFlux(forc, geoParam, simTime, forc.hum, forc.temp, forc.wind, 2., 0.)`
    (`solRec` is what `solarcalcs` stored). -/
def ruralStage (C : Cfg K) (t : StepTrace) (f : Forcing K) (solRec : K) (rural : Elem K) :
    Except Err (Elem K) := do
  let t0 ← rural.t0
  let e : Elem K := { rural with solRec := solRec,
                                 infra := f.infra - rural.emissivity * C.sigma * t0 ^ 4 }
  e.surfFlux (surfArgs C t f f.hum f.temp f.wind 2 0)

/-! ## `RSMDef.vdm` -/

def rsmParam (C : Cfg K) : Rsm.Param K :=
  { r := C.par.r, cp := C.par.cp, g := C.par.g, vk := C.par.vk, dayBL := C.par.dayBLHeight }

def vdmStage (S : Sym K) (C : Cfg K) (f : Forcing K) (ruralSens : K) (rsm : Rsm.VdmOut K) :
    Except Err (Rsm.VdmOut K) :=
  lift ofRsm (Rsm.vdm S (rsmParam C) C.nzref C.nzfor C.dt C.z C.dz C.z0r C.disp
    { temp := f.temp, pres := f.pres, wind := f.wind } ruralSens rsm.st)

/-- What `urbflux`, `ublmodel` read of `RSM`. -/
def rsmView (C : Cfg K) (rsm : Rsm.VdmOut K) : Air.Rsm K :=
  { nzref := C.nzref, nzfor := C.nzfor, densityProfC := rsm.st.densityProfC, dz := C.dz, z := C.z,
    tempProf := rsm.st.tempProf, windProf := rsm.st.windProf }

/-! ## `urbflux`: the per-building loop -/

/-- The arguments of `Building.BEMCalc` taken from the objects. -/
def bemIn (C : Cfg K) (t : StepTrace) (f : Forcing K) (canTemp canHum : K) (b : Bld K)
    (tWall tCeil tMass : K) : Hvac.BemIn K :=
  { floorHeight := b.floorHeight, intHeatNight := b.intHeatNight, intHeatDay := b.intHeatDay,
    intHeatFRad := b.intHeatFRad, intHeatFLat := b.intHeatFLat, infil := b.infil, vent := b.vent,
    glazingRatio := b.glazingRatio, uValue := b.uValue, shgc := b.shgc, cond := b.cond,
    copAdj := b.copAdj, coolcap := b.coolcap, heateff := b.heateff, heatCap := b.heatCap,
    coolSetDay := b.coolSetDay, coolSetNight := b.coolSetNight, heatSetDay := b.heatSetDay,
    heatSetNight := b.heatSetNight, indoorTemp := b.indoorTemp, indoorHum := b.indoorHum,
    latWaste0 := b.latWaste.getD 0, bldHeight := C.bldHeight, verToHor := C.verToHor,
    bldDensity := C.bldDensity, canTemp := canTemp, canHum := canHum, tWall := tWall, tCeil := tCeil,
    tMass := tMass, solRec := b.wall.solRec, swh := b.swh, elec := b.elec, light := b.light,
    gas := b.gas, pres := f.pres, waterTemp := f.waterTemp, lv := C.par.lv, cp := C.par.cp,
    nightSetStart := C.par.nightSetStart, nightSetEnd := C.par.nightSetEnd, secDay := t.secDay,
    dt := C.dt }

/-- `Building.BEMCalc` with `psychrometrics` interpreted (`Hvac.bemCalc` takes the relative humidity
    as a parameter). Program order: the guards of `Hvac.guards` up to the indoor balance, then the
    exceptions of `psychrometrics(indoor_temp, indoor_hum, forc.pres)`, then `1 / heateff`. -/
def bemCalcFull (S : Sym K) (i : Hvac.BemIn K) : Except Err (Hvac.BemOut K) :=
  if i.floorHeight = 0 ∨ Hvac.densDen i = 0 ∨ i.bldDensity = 0 then .error .zerodiv
  else if ¬ Hvac.tempsOk i then .error .fatal
  else if Hvac.branchGuard i then .error .zerodiv
  else if Hvac.h2 i = 0 ∨ Hvac.humDen i = 0 then .error .zerodiv
  else
    match psychro S (Hvac.indoorTempNew i) (Hvac.indoorHumNew i) i.pres with
    | .error e => .error (ofPsy e)
    | .ok p =>
      if i.heateff = 0 then .error .zerodiv
      else .ok (Hvac.bemCore (fun _ _ _ => p.phi) i)

/-- Threaded through the per-building loop of `urbflux`: `UCM.wallTemp`, `UCM.roofTemp`, and the
    local `e_wall` (unbound before the first iteration). -/
structure HeadAcc (K : Type) where
  wallTemp : K
  roofTemp : K
  eWall : Option K

/-- One iteration of `for j in range(len(BEM))` in `urbflux`. `canTemp`, `canHum`, `canWind`,
    `roadTemp`, `roadEmis` are `UCM.canTemp` (`T_can`), `UCM.canHum`, `UCM.canWind`, `UCM.roadTemp`,
    `UCM.road.emissivity` on entry. -/
def headBld (S : Sym K) (C : Cfg K) (t : StepTrace) (f : Forcing K)
    (canTemp canHum canWind roadTemp roadEmis : K) (b : Bld K) : Except Err (Bld K) := do
  -- BEMCalc: the first two divisions, then the three inner / outer layer temperatures
  ensure (b.floorHeight ≠ 0 ∧ Hvac.densDen (bemIn C t f canTemp canHum b 0 0 0) ≠ 0) .zerodiv
  let tWall ← b.wall.tLast
  let tCeil ← b.roof.tLast
  let tMass ← b.mass.t0
  let i := bemIn C t f canTemp canHum b tWall tCeil tMass
  let o ← bemCalcFull S i
  -- roof and wall long-wave
  let tRoof ← b.roof.t0
  let roofInfra := b.roof.emissivity * (f.infra - Canyon.sigma * tRoof ^ 4)
  let tWall0 ← b.wall.t0
  let wallInfra := (Canyon.infracalcs
    { roadConf := C.roadConf, wallConf := C.wallConf, roadShad := C.roadShad, infra := f.infra,
      eRoad := roadEmis, eWall := b.wall.emissivity, tRoad := roadTemp, tWall := tWall0 }).2
  -- mass.Conduction(dt, fluxMass, 1., 0., fluxMass)
  let massT ← (match conduction C.dt o.fluxMass (.flux o.fluxMass) b.mass.layers with
    | some xs => Except.ok xs
    | none => Except.error Err.index)
  let roof ← ({ b.roof with infra := roofInfra } : Elem K).surfFlux
    (surfArgs C t f canHum canTemp (max f.wind canWind) 1 o.fluxRoof)
  let wall ← ({ b.wall with infra := wallInfra } : Elem K).surfFlux
    (surfArgs C t f canHum canTemp canWind 1 o.fluxWall)
  pure { b with
    mass := { b.mass with layers := setTemps b.mass.layers massT }, roof := roof, wall := wall,
    indoorTemp := o.indoorTemp, indoorHum := o.indoorHum,
    latWaste := (match Hvac.branch i with
      | .cool => some o.latWaste
      | _ => b.latWaste),
    out := some o, elecTotal := o.elecTotal * b.flArea }

/-- The per-building loop of `urbflux`. -/
def headAll (S : Sym K) (C : Cfg K) (t : StepTrace) (f : Forcing K)
    (canTemp canHum canWind roadTemp roadEmis : K) :
    HeadAcc K → List (Bld K) → Except Err (List (Bld K) × HeadAcc K)
  | acc, [] => .ok ([], acc)
  | acc, b :: bs =>
    match headBld S C t f canTemp canHum canWind roadTemp roadEmis b with
    | .error e => .error e
    | .ok b' =>
      match b'.wall.t0, b'.roof.t0 with
      | .ok tw, .ok tr =>
        match headAll S C t f canTemp canHum canWind roadTemp roadEmis
            { wallTemp := acc.wallTemp + b'.frac * tw, roofTemp := acc.roofTemp + b'.frac * tr,
              eWall := some b'.wall.emissivity } bs with
        | .error e => .error e
        | .ok (r, acc') => .ok (b' :: r, acc')
      | _, _ => .error .index

/-- `UCM.road.infra, _ = infracalcs(…, e_wall, UCM.roadTemp, UCM.wallTemp)` and the road's `SurfFlux`
    (`solRec` is what `solarcalcs` stored). -/
def roadStage (C : Cfg K) (t : StepTrace) (f : Forcing K) (solRec canTemp canHum canWind roadTemp : K)
    (acc : HeadAcc K) (road : Elem K) : Except Err (Elem K) :=
  match acc.eWall with
  | none => .error .unbound
  | some eWall =>
    let infra := (Canyon.infracalcs
      { roadConf := C.roadConf, wallConf := C.wallConf, roadShad := C.roadShad, infra := f.infra,
        eRoad := road.emissivity, eWall := eWall, tRoad := roadTemp, tWall := acc.wallTemp }).1
    ({ road with solRec := solRec, infra := infra } : Elem K).surfFlux
      (surfArgs C t f canHum canTemp canWind 2 0)

/-- The inputs of the tail of `urbflux` (`Urb.urbTail`). -/
def urbIn (C : Cfg K) (f : Forcing K) (u : Ucm K) (ubl : Ubl K) (rsm : Rsm.VdmOut K) : Urb.UrbIn K :=
  { rsm := rsmView C rsm, z0r := C.z0r, paralLength := C.paralLength, ublTemp := ubl.ublTemp,
    urbArea := C.urbArea, wind := f.wind, pres := f.pres, cp := C.par.cp,
    windHeight := C.par.windHeight, vk := C.par.vk, g := C.par.g, exCoeff := C.par.exCoeff,
    canTemp := u.canTemp, canHum := f.hum, bldHeight := C.bldHeight, z0u := C.z0u, lDisp := C.lDisp,
    sensHeat := u.sensHeat, verToHor := C.verToHor, windProf0 := u.windProf }

/-! ## `UCModel`, `ublmodel` -/

/-- What `UCModel` reads of one building after `urbflux`. -/
def airBld (b : Bld K) (o : Hvac.BemOut K) (tWall tRoof : K) : Air.Bld K :=
  { frac := b.frac, indoorTemp := b.indoorTemp, tWall := tWall, glazingRatio := b.glazingRatio,
    uValue := b.uValue, vent := b.vent, nFloor := o.nFloor, infil := b.infil,
    sensWaste := o.sensWaste, solRec := b.wall.solRec, shgc := b.shgc, tRoof := tRoof,
    roofSens := b.roof.sens, flArea := b.flArea, elecTotal := o.elecTotal, gasTotal := o.gasTotal }

def airBlds : List (Bld K) → Except Err (List (Air.Bld K))
  | [] => .ok []
  | b :: bs =>
    match b.out, b.wall.t0, b.roof.t0, airBlds bs with
    | some o, .ok tw, .ok tr, .ok r => .ok (airBld b o tw tr :: r)
    | _, _, _, _ => .error .index

def ucmIn (C : Cfg K) (f : Forcing K) (canTemp tUbl tRoad aeroCond uExch sensAnthrop treeSens : K) :
    Air.UcmIn K :=
  { pres := f.pres, forcHum := f.hum, cp := C.par.cp, tUbl := tUbl, canTemp := canTemp,
    canHum := f.hum, tRoad := tRoad, aeroCond := aeroCond, roadArea := C.roadArea,
    roofArea := C.roofArea, facArea := C.facArea, uExch := uExch, sensAnthrop := sensAnthrop,
    treeSensHeat := treeSens, bldHeight := C.bldHeight, hMix := C.hMix, bldDensity := C.bldDensity,
    verToHor := C.verToHor, qRoof0 := 0 }

def ublIn (C : Cfg K) (t : StepTrace) (f : Forcing K) (sensHeat qUbl ruralSens : K) (ubl : Ubl K)
    (rsm : Rsm.VdmOut K) : Air.UblIn K :=
  { sensHeat := sensHeat, qUbl := qUbl, ruralSens := ruralSens, cp := C.par.cp,
    circCoeff := C.par.circCoeff, g := C.par.g, dayThreshold := C.par.dayThreshold,
    windMin := C.par.windMin, wind := f.wind, dir := f.dir, dif := f.dif, secDay := t.secDay,
    dt := C.dt, dayBLHeight := C.ublDayBLHeight, nightBLHeight := C.ublNightBLHeight,
    orthLength := C.orthLength, urbArea := C.urbArea, perimeter := C.perimeter,
    paralLength := C.paralLength, charLength := C.charLength, ublTemp := ubl.ublTemp,
    cells := ubl.cells, count := C.nightCount, rsm := rsmView C rsm }

/-- The record block: `psychrometrics(UCM.canTemp, UCM.canHum, forc.pres)` at record steps. -/
def recordStage (S : Sym K) (recorded : Bool) (canTemp canHum pres : K) :
    Except Err (Option (PsyOut K)) :=
  if recorded then
    match psychro S canTemp canHum pres with
    | .error e => .error (ofPsy e)
    | .ok p => .ok (some p)
  else .ok none

/-! ## The loop body -/

/-- The objects after the pass, put together from the results of the stages. -/
def assemble (C : Cfg K) (s : State K) (f : Forcing K) (sol : Canyon.SolarOut K) (sensAnthrop : K)
    (rural : Elem K) (rsm : Rsm.VdmOut K) (blds : List (Bld K)) (road : Elem K) (roadT : K)
    (tl : Urb.UrbOut K) (uc : Air.UcmOut K) (ub : Air.UblOut K) (psy : Option (PsyOut K)) : State K :=
  {
    forc := f
    ucm := {
      road := road, canTemp := uc.canTemp, roadTemp := roadT, canHum := f.hum,
      canWind := tl.canWind, ustar := tl.ustar, ustarMod := tl.ustarMod, uExch := tl.uExch,
      turbU := tl.turbU, turbV := tl.turbV, turbW := tl.turbW, sensHeat := uc.sensHeat,
      latHeat := (match s.ucm.latHeat, C.latAnthrop with
        | some l, some a => some (l + (a + sol.treeLat + road.lat * (1 - C.bldDensity)))
        | _, _ => s.ucm.latHeat),
      windProf := tl.windProf, sensAnthrop := sensAnthrop, treeSensHeat := sol.treeSens,
      treeLatHeat := sol.treeLat, solRecRoof := sol.solRecRoof, solRecRoad := sol.solRecRoad,
      solRecWall := sol.solRecWall, qRoof := uc.qRoof, qWall := uc.qWall, qWindow := uc.qWindow,
      qRoad := uc.qRoad, qHvac := uc.qHvac, qTraffic := uc.qTraffic, qUbl := uc.qUbl,
      qVent := uc.qVent, elecTotal := uc.elecTotal, gasTotal := uc.gasTotal,
      roofTemp := uc.roofTemp, wallTemp := uc.wallTemp,
      canRHum := (match psy with
        | some p => some p.phi
        | none => s.ucm.canRHum),
      tdp := (match psy with
        | some p => some p.tdp
        | none => s.ucm.tdp) }
    rural := rural
    blds := blds
    ubl := { ublTemp := ub.ublTemp, cells := ub.cells, advHeat := tl.advHeat, sensHeat := uc.sensHeat }
    rsm := rsm }

/-- The body of `for it in range(1, nt)` after `simTime.update_date()`: `t` is the clock view of the
    step, `r` the rural row at `ceil_time_step`, `d` the deep temperatures chosen before the clock
    advanced. -/
def step (S : Sym K) (C : Cfg K) (s : State K) (t : StepTrace) (r : FRow K) (d : Deep K) :
    Except Err (State K) := do
  let f := forcOf C.par.windMin r d
  -- `UCM.canHum = copy(forc.hum)`; solar
  let sol ← solarStage S C t f s.ucm.road
  -- day type, traffic, buildings
  let tr ← look C.schtraffic (dayIdx t) t.hourDay
  let sensAnthrop := C.sensanth * tr
  let blds1 ← glueAll C (dayIdx t) t.hourDay sol.roofRec sol.wallRec C.sch s.blds
  -- rural road, vertical diffusion
  let rural ← ruralStage C t f sol.ruralRec s.rural
  let rsm ← vdmStage S C f rural.sens s.rsm
  -- urbflux
  let hd ← headAll S C t f s.ucm.canTemp f.hum s.ucm.canWind s.ucm.roadTemp s.ucm.road.emissivity
    { wallTemp := 0, roofTemp := 0, eWall := none } blds1
  let road ← roadStage C t f sol.roadRec s.ucm.canTemp f.hum s.ucm.canWind s.ucm.roadTemp hd.2
    s.ucm.road
  let roadT ← road.t0
  let tl ← lift ofUrb (Urb.urbTail S (urbIn C f s.ucm s.ubl rsm))
  -- UCModel, ublmodel
  let ab ← airBlds hd.1
  let uc ← lift ofAir (Air.ucModel
    (ucmIn C f s.ucm.canTemp s.ubl.ublTemp roadT road.aeroCond tl.uExch sensAnthrop sol.treeSens) ab)
  let ub ← lift ofAir (Air.ublModel S.rpow (ublIn C t f uc.sensHeat uc.qUbl rural.sens s.ubl rsm))
  -- record
  let psy ← recordStage S t.recorded uc.canTemp f.hum f.pres
  pure (assemble C s f sol sensAnthrop rural rsm hd.1 road roadT tl uc ub psy)

/-- What is stored at a record step (`UCMData[n].canTemp / Tdp / canRHum`, `WeatherData[n].wind`),
    read off the post-state. `Tdp` and `canRHum` are `some` after every recorded step
    (`Uwg.StepProps.step_record_defined`); the defaults are never used there. -/
def record (s : State K) (_t : StepTrace) (_r : FRow K) : Rec K :=
  { canTemp := s.ucm.canTemp, tdp := s.ucm.tdp.getD 0, canRHum := s.ucm.canRHum.getD 0,
    wind := s.forc.wind }

/-- The physics of uwg as an instance of the interface of `Model/Sim.lean`. -/
def phys (S : Sym K) (C : Cfg K) : Sim.Phys (State K) (FRow K) (Deep K) (Rec K) Err :=
  { step := step S C, record := record }

/-- The whole loop body seen from the forcing table: `forcIP` is a list of rows, the body selects
    row `t.row` (IndexError when the window is too short). -/
def body (S : Sym K) (C : Cfg K) (tab : List (FRow K)) (d : Deep K) (s : State K) (t : StepTrace) :
    Except Err (State K) :=
  match tab[t.row]? with
  | none => .error .index
  | some r => step S C s t r d

end Uwg.Step


