/-
Model of `SolarCalcs.solarangles` (uwg/solarcalcs.py) — AS CODED (`solaranglesImpl`) — and of the
NOAA general solar position algorithm it claims to follow (`solaranglesSpec`).

Python (abridged):

    self.ut = (24. + (int(secDay) / 3600. % 24.)) % 24.
    ibis = list(range(len(inobis)))
    for JI in range(1, 12): ibis[JI] = inobis[JI] + 1          # dead code, can only raise IndexError
    date = day + inobis[month-1] - 1
    self.ad = 2.0 * math.pi / 365. * (date - 1 + (self.ut - (12 / 24.)))
    self.eqtime = 229.18 * (0.000075 + 0.001868 cos ad - 0.032077 sin ad - 0.01461 cos 2ad - 0.040849 sin 2ad)
    self.decsol = 0.006918 - 0.399912 cos ad + 0.070257 sin ad - 0.006758 cos 2ad + 0.000907 sin 2ad
                  - 0.002697 cos 3ad + 0.00148 sin 3ad
    time_offset = self.eqtime - 4. * lon + 60 * GMT
    tst = secDay + time_offset * 60
    ha = (tst / 4. / 60. - 180.) * math.pi / 180.
    zlat = lat * (math.pi / 180.)
    self.zenith = acos(sin zlat * sin decsol + cos zlat * cos decsol * cos ha)
    tanzen: clamps with 1e-6 around pi/2 and 0, else tan(zenith)
    self.critOrient = asin(min(abs(1. / self.tanzen) / canAspect, 1.))

Generic over an ordered field `K` and a symbol table `Sym K` (cos, sin, tan, acos, asin, pi);
executed at ℚ with `stubQ` against the fractionised real source, reasoned about at ℝ with
`realSym`.  Decimal literals are written as the exact fractions they denote.

The two deviations of the code from NOAA (DESIGN §3, known finding C12):
  * `time_offset = eqtime − 4·lon + 60·GMT`: NOAA's west-positive form applied to the east-positive
    longitude / hours-east-of-UTC zone of the EPW header (spec: `eqtime + 4·lon − 60·tz`);
  * fractional year `2π/365·(date − 1 + ut − 1/2)` with `date` already 0-based and `ut` in hours
    (spec: `2π/365·(doy − 1 + (hour − 12)/24)` with 1-based `doy`).
-/
import UwgVerif.Model.Symbols
import Mathlib.Algebra.Order.Field.Basic

namespace Uwg

/-- Error classes of `solarangles`: `IndexError` (month table) and `ZeroDivisionError`. -/
inductive SolErr where
  | index
  | zerodiv
deriving Repr, DecidableEq

/-- Everything `solarangles` stores on the object, plus the local hour angle `ha`. -/
structure SolarOut (K : Type) where
  ut : K
  ad : K
  eqtime : K
  decsol : K
  ha : K
  zenith : K
  tanzen : K
  critOrient : K

/-- `SimParam.inobis`: days before the first of each month (non-leap year). -/
def inobisStd : List Nat := [0, 31, 59, 90, 120, 151, 181, 212, 243, 273, 304, 334]

/-- Python list indexing `l[i]`: negative indices count from the end, out of range → `none`
    (IndexError). `inobis[month-1]` with `month = 0` reads the *last* entry. -/
def pyIndex (l : List Nat) (i : Int) : Option Nat :=
  if 0 ≤ i then l[i.toNat]?
  else if -(l.length : Int) ≤ i then l[((l.length : Int) + i).toNat]?
  else none

/-- The dead `ibis` loop: `ibis = list(range(len(inobis))); for JI in range(1, 12):
    ibis[JI] = inobis[JI] + 1`. Its result is never used; it matters only because it raises
    IndexError (`none`) when `inobis` has fewer than 12 entries. -/
def ibisLoop (inobis : List Nat) : Option (List Nat) :=
  (List.range' 1 11).foldlM
    (fun ibis ji => do
      let v ← inobis[ji]?
      if ji < ibis.length then some (ibis.set ji (v + 1)) else none)
    (List.range inobis.length)

section field
variable {K : Type} [Field K] [LinearOrder K] [IsStrictOrderedRing K]

/-- `ut = (24. + (int(secDay) / 3600. % 24.)) % 24.` for an integer number of seconds.
    For an integer `p`, Python's `(p / 3600) % 24` (floor-mod of the exact quotient) equals
    `(p mod 86400) / 3600` with the non-negative remainder (`Int.emod`); adding 24 adds 86400 to
    the numerator, and the outer `% 24` is again a `mod 86400` on the numerator. -/
def utImpl (secDay : Int) : K := (((86400 + secDay % 86400) % 86400 : Int) : K) / 3600

/-- As coded: `2π/365 · (date − 1 + (ut − 12/24))`, `date = day + inobis[month−1] − 1`. -/
def adImpl (S : Sym K) (date : Int) (ut : K) : K :=
  2 * S.pi / 365 * ((date : K) - 1 + (ut - 12 / 24))

/-- NOAA: `γ = 2π/365 · (doy − 1 + (hour − 12)/24)`, `doy` 1-based. -/
def adSpec (S : Sym K) (doy : Int) (hour : K) : K :=
  2 * S.pi / 365 * ((doy : K) - 1 + (hour - 12) / 24)

/-- Equation of time (minutes), NOAA series with the coefficients as written in the code. -/
def eqtimeOf (S : Sym K) (ad : K) : K :=
  22918 / 100 * (75 / 1000000 + 1868 / 1000000 * S.cos ad - 32077 / 1000000 * S.sin ad
    - 1461 / 100000 * S.cos (2 * ad) - 40849 / 1000000 * S.sin (2 * ad))

/-- Solar declination (radians), NOAA series. -/
def decsolOf (S : Sym K) (ad : K) : K :=
  6918 / 1000000 - 399912 / 1000000 * S.cos ad + 70257 / 1000000 * S.sin ad
    - 6758 / 1000000 * S.cos (2 * ad) + 907 / 1000000 * S.sin (2 * ad)
    - 2697 / 1000000 * S.cos (3 * ad) + 148 / 100000 * S.sin (3 * ad)

/-- As coded: `eqtime − 4·lon + 60·GMT` (west-positive convention). -/
def timeOffsetImpl (eqtime lon gmt : K) : K := eqtime - 4 * lon + 60 * gmt

/-- NOAA with east-positive longitude and zone hours east of UTC: `eqtime + 4·lon − 60·tz`. -/
def timeOffsetSpec (eqtime lon tz : K) : K := eqtime + 4 * lon - 60 * tz

/-- As coded: `tst = secDay + time_offset*60` (seconds); `ha = (tst/4/60 − 180)·π/180`. -/
def haImplOf (S : Sym K) (secDay : Int) (timeOffset : K) : K :=
  (((secDay : K) + timeOffset * 60) / 4 / 60 - 180) * S.pi / 180

/-- NOAA: `tst = hr·60 + mn + sc/60 + time_offset` (minutes); `ha = tst/4 − 180` (degrees). -/
def haSpecOf (S : Sym K) (secDay : Int) (timeOffset : K) : K :=
  (((secDay : K) / 60 + timeOffset) / 4 - 180) * S.pi / 180

/-- The argument of `acos`: cosine of the zenith angle by the spherical law of cosines. -/
def cosZenArg (S : Sym K) (zlat decsol ha : K) : K :=
  S.sin zlat * S.sin decsol + S.cos zlat * S.cos decsol * S.cos ha

def zenithOf (S : Sym K) (zlat decsol ha : K) : K := S.acos (cosZenArg S zlat decsol ha)

/-- The `tanzen` clamps. The inner Python `if … > 0 / elif … <= 0` is exhaustive in an ordered
    field (no NaN in the exact model), hence a plain `if/else`. -/
def tanzenOf (S : Sym K) (zenith : K) : K :=
  if |1 / 2 * S.pi - zenith| < 1 / 1000000 then
    if 1 / 2 * S.pi - zenith > 0 then S.tan (1 / 2 * S.pi - 1 / 1000000)
    else S.tan (1 / 2 * S.pi + 1 / 1000000)
  else if |zenith| < 1 / 1000000 then 1 / 1000000
  else S.tan zenith

/-- `asin(min(abs(1. / tanzen) / canAspect, 1.))` (guards are stated by the callers). -/
def critOrientOf (S : Sym K) (tanzen canAspect : K) : K :=
  S.asin (min (|1 / tanzen| / canAspect) 1)

/-- Everything after the calendar look-up, as coded (`ino = inobis[month−1]`). -/
def implOut (S : Sym K) (ino : Nat) (day secDay : Int) (lat lon gmt canAspect : K) : SolarOut K :=
  let ut : K := utImpl secDay
  let date : Int := day + (ino : Int) - 1
  let ad := adImpl S date ut
  let eqtime := eqtimeOf S ad
  let decsol := decsolOf S ad
  let ha := haImplOf S secDay (timeOffsetImpl eqtime lon gmt)
  let zenith := zenithOf S (lat * (S.pi / 180)) decsol ha
  let tanzen := tanzenOf S zenith
  { ut := ut, ad := ad, eqtime := eqtime, decsol := decsol, ha := ha, zenith := zenith,
    tanzen := tanzen, critOrient := critOrientOf S tanzen canAspect }

/-- `SolarCalcs.solarangles` as coded. `inobis` is `simTime.inobis`; `month`, `day`, `secDay`
    are the integer clock values; `lat`, `lon`, `gmt` come from the EPW header via `RSMDef`.
    `.error .index`: the dead `ibis` loop or `inobis[month-1]` raises IndexError;
    `.error .zerodiv`: `1./tanzen` or `/ canAspect` divides by zero (last statement). -/
def solaranglesImpl (S : Sym K) (inobis : List Nat) (month day secDay : Int)
    (lat lon gmt canAspect : K) : Except SolErr (SolarOut K) :=
  match ibisLoop inobis with
  | none => .error .index
  | some _ =>
    match pyIndex inobis (month - 1) with
    | none => .error .index
    | some ino =>
      let o := implOut S ino day secDay lat lon gmt canAspect
      if o.tanzen = 0 ∨ canAspect = 0 then .error .zerodiv else .ok o

/-- 1-based day of the year of (month, day) in a non-leap year (meaningful for 1 ≤ month ≤ 12). -/
def doySpec (month day : Int) : Int := (inobisStd.getD (month - 1).toNat 0 : Nat) + day

/-- NOAA general solar position for local standard time `secDay` seconds after midnight on
    (month, day), east-positive longitude `lon` (degrees), time zone `tz` hours east of UTC. -/
def specOut (S : Sym K) (month day secDay : Int) (lat lon tz canAspect : K) : SolarOut K :=
  let hour : K := (secDay : K) / 3600
  let ad := adSpec S (doySpec month day) hour
  let eqtime := eqtimeOf S ad
  let decsol := decsolOf S ad
  let ha := haSpecOf S secDay (timeOffsetSpec eqtime lon tz)
  let zenith := zenithOf S (lat * (S.pi / 180)) decsol ha
  let tanzen := tanzenOf S zenith
  { ut := hour, ad := ad, eqtime := eqtime, decsol := decsol, ha := ha, zenith := zenith,
    tanzen := tanzen, critOrient := critOrientOf S tanzen canAspect }

/-- The specification: NOAA position, then the same `tanzen` clamps and `critOrient` as the code.
    `.error .index` for a month outside 1..12. -/
def solaranglesSpec (S : Sym K) (month day secDay : Int) (lat lon tz canAspect : K) :
    Except SolErr (SolarOut K) :=
  if month < 1 ∨ 12 < month then .error .index else
  let o := specOut S month day secDay lat lon tz canAspect
  if o.tanzen = 0 ∨ canAspect = 0 then .error .zerodiv else .ok o

end field
end Uwg
