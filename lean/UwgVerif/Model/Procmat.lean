/-
Model of `UWG._procmat` (refinement of a layered construction into computational sub-layers)
and of the soil padding of the road / rural columns in `UWG._compute_input` (uwg/uwg.py).
-/
import Mathlib.Algebra.Order.Floor.Ring
import Mathlib.Algebra.Order.Field.Basic

namespace Uwg
variable {K : Type} [Field K] [LinearOrder K] [IsStrictOrderedRing K] [FloorRing K]

/-- A material layer: thickness, conductivity, volumetric heat capacity. -/
structure Lay (K : Type) where
  d : K
  k : K
  c : K
deriving Repr, DecidableEq

/-- `nlayers = ceil(d / max_thickness)` sub-layers of thickness `d / nlayers`. -/
def subdivide (maxT : K) (l : Lay K) : List (Lay K) :=
  let n := ⌈l.d / maxT⌉₊
  List.replicate n { l with d := l.d / (n : K) }

/-- Per-layer rule of the multi-layer branch: split if thicker than `maxT`, drop (with a warning)
    if thinner than `minT`, keep otherwise. -/
def splitLayer (maxT minT : K) (l : Lay K) : List (Lay K) :=
  if l.d > maxT then subdivide maxT l
  else if l.d < minT then []
  else [l]

/-- `_procmat`; `none` where the Python raises IndexError (empty layer list). -/
def procmat (maxT minT : K) : List (Lay K) → Option (List (Lay K))
  | [] => none
  | [l] =>
    if l.d > maxT then some (subdivide maxT l)
    else some [{ l with d := l.d / 2 }, { l with d := l.d / 2 }]   -- both remaining branches halve
  | ls => some (ls.flatMap (splitLayer maxT minT))

/-- The pre-repair single-layer rule: a layer thinner than `2·minT` became two layers of `minT/2`. -/
def procmatAsis (maxT minT : K) : List (Lay K) → Option (List (Lay K))
  | [] => none
  | [l] =>
    if l.d > maxT then some (subdivide maxT l)
    else if l.d < minT * 2 then some [{ l with d := minT / 2 }, { l with d := minT / 2 }]
    else some [{ l with d := l.d / 2 }, { l with d := l.d / 2 }]
  | ls => some (ls.flatMap (splitLayer maxT minT))

def totalThickness (ls : List (Lay K)) : K := (ls.map (·.d)).sum
def totalResistance (ls : List (Lay K)) : K := (ls.map (fun l => l.d / l.k)).sum
def totalCapacity (ls : List (Lay K)) : K := (ls.map (fun l => l.d * l.c)).sum

/-- Soil padding. The code scans the ground-temperature depths in file order and takes the first
    one that is (within 1e-15 of) at least the column thickness `total`; it then appends
    `maxT`-thick soil layers while the depth still exceeds the column. Returns the chosen index
    and the number of appended layers; `none` when no depth qualifies (the attribute is then never
    set by the code). The loop `while depth > total: total += maxT` is given in closed form. -/
def padFrom (maxT eps total : K) : Nat → List K → Option (Nat × Nat)
  | _, [] => none
  | i, depth :: rest =>
    if |depth - total| < eps ∨ depth > total then
      some (i, ⌈(depth - total) / maxT⌉₊)
    else padFrom maxT eps total (i + 1) rest

def pad (maxT eps total : K) (depths : List K) : Option (Nat × Nat) := padFrom maxT eps total 0 depths

end Uwg

namespace Uwg
variable {K : Type} [Field K] [LinearOrder K] [IsStrictOrderedRing K] [FloorRing K]

/-- The whole road / rural ground column as `_compute_input` builds it: `ceil(droad/0.05)` pavement
    layers of 5 cm, refined by `_procmat`, then padded with soil. Returns the layer list and the
    chosen ground-temperature index (`none` = attribute never set). -/
def groundColumn (maxT minT eps droad kroad croad ksoil csoil : K) (depths : List K) :
    Option (List (Lay K) × Option Nat) :=
  let n := ⌈droad / maxT⌉₊
  match procmat maxT minT (List.replicate n ⟨maxT, kroad, croad⟩) with
  | none => none
  | some ls =>
    match pad maxT eps (totalThickness ls) depths with
    | none => some (ls, none)
    | some (i, k) => some (ls ++ List.replicate k ⟨maxT, ksoil, csoil⟩, some i)

/-- What `_compute_input` does with the road column: with at least three ground depths (the case in which
    `simulate()` reads `Tsoil[_soilindex1]`) a column that no depth reaches is REFUSED (an exception, repair
    b493016); with fewer depths the index is simply left unset (the deep temperature is then the window mean). -/
inductive ColumnOutcome (K : Type) where
  | index                                     -- IndexError inside `_procmat`
  | refused                                   -- 'The road … is deeper than the deepest ground temperature depth'
  | ok (ls : List (Lay K)) (idx : Option Nat)

def columnOutcome (maxT minT eps droad kroad croad ksoil csoil : K) (depths : List K) : ColumnOutcome K :=
  match groundColumn maxT minT eps droad kroad croad ksoil csoil depths with
  | none => .index
  | some (ls, none) => if 3 ≤ depths.length then .refused else .ok ls none
  | some (ls, some i) => .ok ls (some i)

end Uwg
