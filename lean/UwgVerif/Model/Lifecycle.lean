/-
Object life-cycle model for C17 (generate() forgets the past) and C05 (results are a pure
function of parameters and rural file; no interference between objects).

The physics is abstracted: a `Machine` packages the pristine reference library shipped with uwg
and three *uninterpreted* functions
  * `customize p lib`  – `_customize_reference_data` (insert custom archetypes),
  * `select p lib`     – `_read_epw; _compute_BEM; _compute_input; _hvac_autosize` (build everything
                         a simulation starts from; the rural file is part of `p`),
  * `sim b lib`        – `simulate` (advances the built objects; because the selected archetypes are
                         *aliases* of library entries it also changes the library).
Theorems hold for every machine, i.e. whatever those functions compute. What ties the model to the
code is the *shape* of `generate`: the repaired code reloads the library (`generate` below), the
original code kept using the object's current library (`generateAsis`).
-/

namespace Uwg.Life

structure Machine (P L B R : Type) where
  pristine : L
  customize : P → L → L
  select : P → L → B
  sim : B → L → B × L × R

structure Obj (P L B R : Type) where
  params : P
  lib : L
  built : Option B
  last : Option R

inductive Op (P : Type) where
  | set (f : P → P)
  | generate
  | simulate

variable {P L B R : Type}

def fresh (M : Machine P L B R) (p : P) : Obj P L B R :=
  { params := p, lib := M.pristine, built := none, last := none }

/-- `generate()` as repaired: starts from the pristine library. -/
def generate (M : Machine P L B R) (o : Obj P L B R) : Obj P L B R :=
  let lib := M.customize o.params M.pristine
  { o with lib := lib, built := some (M.select o.params lib) }

/-- `generate()` before the repair: customises and selects from the object's *current* library. -/
def generateAsis (M : Machine P L B R) (o : Obj P L B R) : Obj P L B R :=
  let lib := M.customize o.params o.lib
  { o with lib := lib, built := some (M.select o.params lib) }

/-- `simulate()`; before any `generate` the real code raises AttributeError and changes nothing. -/
def simulate (M : Machine P L B R) (o : Obj P L B R) : Obj P L B R :=
  match o.built with
  | none => o
  | some b =>
    let (b', lib', r) := M.sim b o.lib
    { o with lib := lib', built := some b', last := some r }

def step (M : Machine P L B R) (asis : Bool) (o : Obj P L B R) : Op P → Obj P L B R
  | .set f => { o with params := f o.params }
  | .generate => if asis then generateAsis M o else generate M o
  | .simulate => simulate M o

def run (M : Machine P L B R) (asis : Bool) (o : Obj P L B R) (ops : List (Op P)) : Obj P L B R :=
  ops.foldl (step M asis) o

/-! ### Several objects in one interpreter (C05) -/

/-- A world: finitely many objects, addressed by index. Class- and module-level state of uwg
    (`UWG.SOIL`, `SchDef.DEFAULT_*`, constants, the pickle on disk) is read-only and therefore part
    of the machine `M`, not of the mutable world. -/
abbrev World (P L B R : Type) := List (Obj P L B R)

def stepAt (M : Machine P L B R) (w : World P L B R) (i : Nat) (op : Op P) : World P L B R :=
  w.modify i (fun o => step M false o op)

def runWorld (M : Machine P L B R) (w : World P L B R) (ops : List (Nat × Op P)) : World P L B R :=
  ops.foldl (fun w iop => stepAt M w iop.1 iop.2) w

/-! ### A small concrete instance, executed against the real code by the correspondence check.
    Library = the selected archetypes; each carries its reference glazing ratio and roof albedo
    (per mille), the current values, and whether a simulation has advanced it. -/

structure Arch where
  glzRef : Nat
  albRef : Nat
  glz : Nat
  alb : Nat
  dirty : Bool
deriving Repr, DecidableEq

structure Ov where
  glzr : Option Nat
  albroof : Option Nat
deriving Repr, DecidableEq

def applyOv (p : Ov) (a : Arch) : Arch :=
  { a with glz := (p.glzr.getD a.glz), alb := (p.albroof.getD a.alb) }

/-- The concrete machine. The selected archetypes are *aliases* of library entries, so the
    overrides `_compute_BEM` writes land in the library: they are modelled as part of `customize`
    (everything `generate` does to the library), and `select` hands out the library entries
    themselves. `sim` marks every archetype dirty. The simulation result observed is the state the
    run started from. -/
def toy (pristine : List Arch) : Machine Ov (List Arch) (List Arch) (List Arch) where
  pristine := pristine
  customize := fun p l => l.map (applyOv p)
  select := fun _ l => l
  sim := fun b _ => (b.map ({ · with dirty := true }), b.map ({ · with dirty := true }), b)

end Uwg.Life
