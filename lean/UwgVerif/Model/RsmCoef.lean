/-
Model of the code that produces the inputs of `RSMDef.diffusion_equation` (uwg/RSMDef.py):

* `RSMDef.dissipation_bougeault(g, nz, z, dz, te, pt)`   → `dissipation`
* `RSMDef.length_bougeault(nz, dld, dlu, z)`             → `lengthBougeault`
* `RSMDef.diffusion_coefficient(rho, z, dz, z0, disp, tempRur, heatRur, nz, uref, th, parameter)`
                                                         → `diffusionCoefficient`
* `RSMDef.vdm(forc, rural, parameter, simTime)`          → `vdm` (the whole step: pressure, real
  temperature and density profiles, diffusion coefficient, diffusion equation, wind profile,
  average pressure)
* the grid part of `RSMDef.__init__` (`z`, `dz` from `z_meso`) → `mesoGrid`

The model is written statement by statement in the `Except RErr` monad, in Python's evaluation
order (operands left to right, then the operation), so the *first* exception Python raises is the
error the model returns:

* `idx l i`       – `l[i]`, IndexError when `i ≥ len(l)`
* `idxPred l n`   – `l[n-1]` with Python's negative index for `n = 0` (`l[-1]`)
* `setC l i v`    – `l[i] = v`, IndexError when `i ≥ len(l)`
* `pdiv a b`      – `a / b`, ZeroDivisionError when `b = 0`
* `plog`, `psqrt` – `math.log` (ValueError for `x ≤ 0`), `math.sqrt` (ValueError for `x < 0`)

Numbers: `x ** 2.`, `x ** 3` are exact powers; `** (1 / 3.)`, `** (-1. / 3.)`, `pow(p, r/cp)`,
`** (1. / (r/cp))` have non-integral exponents and go through the symbol `Sym.rpow` (as in
`harness/fracexec.py`; the harness only generates `r/cp` and `cp/r` non-integral). `Sym.rpow` is a
total function: CPython's behaviour for a negative base (`math.pow` raises ValueError, `**` returns
a complex number and the following `max` raises TypeError) is outside the model; the theorems of
`Props/C16Coef.lean` only use it on positive bases.
`is_near_zero(x)` is `abs(float(x)) < 1e-10`.

Facts about the code as it is that the model keeps:
* `lengthRur` (Monin–Obukhov length) is computed *before* the stability test and divides by
  `heatRur`: a rural sensible heat flux of exactly 0 raises ZeroDivisionError although the stable
  branch never uses `lengthRur`. In the unstable branch `uref = 0` gives `ustar = 0`,
  `lengthRur = 0` and a ZeroDivisionError in `phi_m`.
* inside the scans of `dissipation_bougeault` the new length may be assigned several times
  (once per level where the test fires); the last assignment wins.
* the `bbb ≈ 0` branch divides by `beta * (pt[izz] - pt[iz])`, which is 0 for `izz = iz`.
* `length_bougeault` overwrites `dld` in place and returns it with its original length.
* `Kt[nz] = Kt[nz-1]`; with `nz = 0` this is `Kt[0] = Kt[-1] = 0`.
* `vdm` keeps the top pressure `presProf[nzref-1]` of the previous step and integrates downwards.

Generic over a linearly ordered field `K`; executed at `K := ℚ` with `stubQ`.
-/
import UwgVerif.Model.Diffusion
import UwgVerif.Model.Symbols
import Mathlib.Algebra.Order.Field.Basic

namespace Uwg.Rsm
open Uwg

/-- The exceptions the arithmetic of `RSMDef` can raise. -/
inductive RErr where
  | index
  | zerodiv
  | value
deriving Repr, DecidableEq

/-- Exceptions of `diffusion_equation` (model `Uwg.diffusion`) seen from `vdm`. -/
def ofPy : PyErr → RErr
  | .index => .index
  | .zerodiv => .zerodiv

abbrev R := Except RErr

def liftPy {α : Type} : Except PyErr α → R α
  | .ok a => .ok a
  | .error e => .error (ofPy e)

section Lists
variable {α β σ ι : Type}

/-- `l[i]`. -/
def idx (l : List α) (i : Nat) : R α :=
  match l[i]? with
  | some v => .ok v
  | none => .error .index

/-- `l[n-1]` as Python evaluates it for a natural number `n`: `l[-1]` (last entry) for `n = 0`. -/
def idxPred (l : List α) (n : Nat) : R α :=
  match n with
  | 0 =>
    match l.getLast? with
    | some v => .ok v
    | none => .error .index
  | k + 1 => idx l k

/-- `l[i] = v`. -/
def setC (l : List α) (i : Nat) (v : α) : R (List α) :=
  if i < l.length then .ok (l.set i v) else .error .index

/-- A `for` loop threading a state; stops at the first exception. -/
def foldE (f : σ → ι → R σ) : σ → List ι → R σ
  | s, [] => .ok s
  | s, i :: is =>
    match f s i with
    | .error e => .error e
    | .ok s' => foldE f s' is

/-- A `for` loop computing one value per index; stops at the first exception. -/
def mapE (f : ι → R β) : List ι → R (List β)
  | [] => .ok []
  | i :: is =>
    match f i with
    | .error e => .error e
    | .ok b =>
      match mapE f is with
      | .error e => .error e
      | .ok bs => .ok (b :: bs)

/-- `for i in is: l[i] = f(i)` where `f` does not read `l`. -/
def storeLoop (f : Nat → R α) : List α → List Nat → R (List α)
  | l, [] => .ok l
  | l, i :: is =>
    match f i with
    | .error e => .error e
    | .ok v =>
      match setC l i v with
      | .error e => .error e
      | .ok l' => storeLoop f l' is

end Lists

variable {K : Type} [Field K] [LinearOrder K] [IsStrictOrderedRing K]

/-- `a / b`. -/
def pdiv (a b : K) : R K := if b = 0 then .error .zerodiv else .ok (a / b)

/-- `math.sqrt(x)`. -/
def psqrt (s : Sym K) (x : K) : R K := if x < 0 then .error .value else .ok (s.sqrt x)

/-- `math.log(x)`. -/
def plog (s : Sym K) (x : K) : R K := if x ≤ 0 then .error .value else .ok (s.log x)

/-- `utilities.is_near_zero(x)`: `abs(float(x)) < 1e-10`. -/
def nearZero (x : K) : Bool := decide (-(1 / 10 ^ 10 : K) < x) && decide (x < 1 / 10 ^ 10)

/-! ### `dissipation_bougeault` -/

/-- State of one of the two scans for level `iz`: the running buoyancy integral (`zup` / `zdo`),
    the distance travelled `zzz`, the integral one level before (`zup_inf` / `zdo_sup`) and the
    current value of `dlu[iz]` / `dld[iz]`. -/
structure Scan (K : Type) where
  acc : K
  zzz : K
  prev : K
  len : K
deriving Repr

/-- Body of `for izz in range(iz, nz - 1)` (upward scan). -/
def upStep (sym : Sym K) (beta : K) (dz te pt : List K) (iz : Nat) (st : Scan K) (izz : Nat) :
    R (Scan K) := do
  let dzA ← idx dz (izz + 1)
  let dzB ← idx dz izz
  let dzt := (dzA + dzB) / 2
  let ptiz ← idx pt iz
  let zup1 := st.acc - beta * ptiz * dzt
  let ptA ← idx pt (izz + 1)
  let ptB ← idx pt izz
  let zup := zup1 + beta * (ptA + ptB) * dzt / 2
  let zzz := st.zzz + dzt
  let teiz ← idx te iz
  if teiz < zup ∧ (st.prev < teiz ∨ nearZero (teiz - st.prev) = true) then do
    let bbb ← pdiv (ptA - ptB) dzt
    let tl ← (if nearZero (bbb - 0) = false then do
        let t1 ← psqrt sym (max 0 ((beta * (ptB - ptiz)) ^ 2 + 2 * bbb * beta * (teiz - st.prev)))
        let q ← pdiv (-beta * (ptB - ptiz) + t1) bbb
        pdiv q beta
      else pdiv (teiz - st.prev) (beta * (ptB - ptiz)))
    pure { acc := zup, zzz := zzz, prev := zup, len := max 1 (zzz - dzt + tl) }
  else pure { acc := zup, zzz := zzz, prev := zup, len := st.len }

/-- Body of `for izz in range(iz, 0, -1)` (downward scan) for `izz = j + 1`. -/
def dnStep (sym : Sym K) (beta : K) (dz te pt : List K) (iz : Nat) (st : Scan K) (j : Nat) :
    R (Scan K) := do
  let dzA ← idx dz j
  let dzB ← idx dz (j + 1)
  let dzt := (dzA + dzB) / 2
  let ptiz ← idx pt iz
  let zdo1 := st.acc + beta * ptiz * dzt
  let ptA ← idx pt j
  let ptB ← idx pt (j + 1)
  let zdo := zdo1 - beta * (ptA + ptB) * dzt / 2
  let zzz := st.zzz + dzt
  let teiz ← idx te iz
  if teiz < zdo ∧ (st.prev < teiz ∨ nearZero (teiz - st.prev) = true) then do
    let bbb ← pdiv (ptB - ptA) dzt
    let tl ← (if nearZero (bbb - 0) = false then do
        let t1 ← psqrt sym (max 0 ((beta * (ptB - ptiz)) ^ 2 + 2 * bbb * beta * (teiz - st.prev)))
        let q ← pdiv (beta * (ptB - ptiz) + t1) bbb
        pdiv q beta
      else pdiv (teiz - st.prev) (beta * (ptB - ptiz)))
    pure { acc := zdo, zzz := zzz, prev := zdo, len := max 1 (zzz - dzt + tl) }
  else pure { acc := zdo, zzz := zzz, prev := zdo, len := st.len }

/-- One iteration of the outer loop: `(dlu[iz], dld[iz])`. -/
def dissipAt (sym : Sym K) (g : K) (nz : Nat) (z dz te pt : List K) (iz : Nat) : R (K × K) := do
  let znz ← idx z nz
  let ziz ← idx z iz
  let dziz ← idx dz iz
  let ptiz ← idx pt iz
  let beta ← pdiv g ptiz
  let up ← foldE (upStep sym beta dz te pt iz) ⟨0, 0, 0, znz - ziz - dziz / 2⟩
    (List.range' iz (nz - 1 - iz))
  let dn ← foldE (dnStep sym beta dz te pt iz) ⟨0, 0, 0, ziz + dziz / 2⟩ (List.range iz).reverse
  pure (up.len, dn.len)

/-- `RSMDef.dissipation_bougeault(g, nz, z, dz, te, pt)` → `(dlu, dld)`. -/
def dissipation (sym : Sym K) (g : K) (nz : Nat) (z dz te pt : List K) : R (List K × List K) := do
  let rows ← mapE (dissipAt sym g nz z dz te pt) (List.range nz)
  pure (rows.map (·.1), rows.map (·.2))

/-! ### `length_bougeault` -/

/-- Second loop of `length_bougeault` at level `iz` with `dlg[iz] = gI`:
    `(dld[iz], dls[iz], dlk[iz])`. -/
def lengthAt (sym : Sym K) (dld dlu : List K) (p : Nat × K) : R (K × K × K) := do
  let d ← idx dld p.1
  let d' := min d p.2
  let u ← idx dlu p.1
  let s ← psqrt sym (u * d')
  pure (d', s, min u d')

/-- `RSMDef.length_bougeault(nz, dld, dlu, z)` → `(dld, dls, dlk)`; `dld` is overwritten in place
    and keeps its length. -/
def lengthBougeault (sym : Sym K) (nz : Nat) (dld dlu z : List K) :
    R (List K × List K × List K) := do
  let dlg ← mapE (fun iz => do
    let a ← idx z iz
    let b ← idx z (iz + 1)
    pure ((a + b) / 2)) (List.range nz)
  let rows ← mapE (lengthAt sym dld dlu) ((List.range nz).zip dlg)
  pure (rows.map (·.1) ++ dld.drop nz, rows.map (·.2.1), rows.map (·.2.2))

/-! ### `diffusion_coefficient` -/

/-- The fields of `parameter` that `vdm` and `diffusion_coefficient` read. -/
structure Param (K : Type) where
  r : K
  cp : K
  g : K
  vk : K
  dayBL : K
deriving Repr

/-- What `diffusion_coefficient` returns (`kt`, `ustar`), leaves on the object (`self.dlu`,
    `self.dld`) and hands to `dissipation_bougeault` (`te`). -/
structure CoefOut (K : Type) where
  kt : List K
  ustar : K
  te : List K
  dlu : List K
  dld : List K
deriving Repr

/-- The TKE profile `te`: unstable branch (`heatRur > 1e-2`) or stable / neutral branch. -/
def teProfile (sym : Sym K) (P : Param K) (rho tempRur heatRur ustar lengthRur : K) (nz : Nat)
    (z : List K) : R (List K) :=
  if 1 / 100 < heatRur then do
    let a ← pdiv (P.g * heatRur * P.dayBL) rho
    let b ← pdiv a P.cp
    let c ← pdiv b tempRur
    let wstar := sym.rpow c (1 / 3)
    let d ← pdiv (8 * (1 / 10) * P.dayBL) lengthRur
    let phim := sym.rpow (1 - d) (-1 / 3)
    mapE (fun iz => do
      let ziz ← idx z iz
      let q ← pdiv (phim * P.vk * wstar ^ 3 * ziz) P.dayBL
      let ws := sym.rpow (ustar ^ 3 + q) (1 / 3)
      pure (max (ws ^ 2) (1 / 100))) (List.range nz)
  else .ok ((List.range nz).map fun _ => max (ustar ^ 2) (1 / 100))

/-- `Kt[iz] = 0.4 * dlk[iz] * sqrt(te[iz])`. -/
def ktAt (sym : Sym K) (dlk te : List K) (iz : Nat) : R K := do
  let k ← idx dlk iz
  let t ← idx te iz
  let s ← psqrt sym t
  pure (2 / 5 * k * s)

/-- `RSMDef.diffusion_coefficient(rho, z, dz, z0, disp, tempRur, heatRur, nz, uref, th, parameter)`. -/
def diffusionCoefficient (sym : Sym K) (P : Param K) (rho : K) (z dz : List K)
    (z0 disp tempRur heatRur : K) (nz : Nat) (uref : K) (th : List K) : R (CoefOut K) := do
  let x ← pdiv (10 - disp) z0
  let lg ← plog sym x
  let ustar ← pdiv (P.vk * uref) lg
  let a ← pdiv (-rho * P.cp * ustar ^ 3 * tempRur) P.vk
  let b ← pdiv a P.g
  let c ← pdiv b heatRur
  let lengthRur := max c (-50)
  let te ← teProfile sym P rho tempRur heatRur ustar lengthRur nz z
  let dl ← dissipation sym P.g nz z dz te th
  let lb ← lengthBougeault sym nz dl.2 dl.1 z
  let kt0 ← mapE (ktAt sym lb.2.2 te) (List.range nz)
  let last ← idxPred (kt0 ++ [0]) nz
  pure { kt := kt0 ++ [last], ustar := ustar, te := te, dlu := dl.1, dld := lb.1 }

/-! ### `vdm` -/

/-- The profiles `vdm` keeps on the object. -/
structure VdmState (K : Type) where
  tempProf : List K
  presProf : List K
  tempRealProf : List K
  densityProfC : List K
  densityProfS : List K
  windProf : List K
deriving Repr

/-- `forc.temp`, `forc.pres`, `forc.wind`. -/
structure Forc (K : Type) where
  temp : K
  pres : K
  wind : K
deriving Repr

/-- Body of the pressure loop for one `iz ≥ 1` (hydrostatic integration downwards):
    `presProf[iz-1] = (pow(presProf[iz], r/cp) + g/cp * pow(forc.pres, r/cp) *
       (1./tempProf[iz] + 1./tempProf[iz-1]) * 0.5 * dz[iz]) ** (1. / (r/cp))`. -/
def presStep (sym : Sym K) (P : Param K) (fpres : K) (temp dz : List K) (pres : List K)
    (iz : Nat) : R (List K) := do
  let p ← idx pres iz
  let k1 ← pdiv P.r P.cp
  let gc ← pdiv P.g P.cp
  let k2 ← pdiv P.r P.cp
  let t1 ← idx temp iz
  let i1 ← pdiv 1 t1
  let t0 ← idx temp (iz - 1)
  let i0 ← pdiv 1 t0
  let dzi ← idx dz iz
  let k3 ← pdiv P.r P.cp
  let e ← pdiv 1 k3
  setC pres (iz - 1)
    (sym.rpow (sym.rpow p k1 + gc * sym.rpow fpres k2 * (i1 + i0) * (1 / 2) * dzi) e)

/-- `tempProf[iz] * (presProf[iz] / forc.pres) ** (r/cp)`. -/
def realVal (sym : Sym K) (P : Param K) (fpres : K) (temp pres : List K) (iz : Nat) : R K := do
  let t ← idx temp iz
  let p ← idx pres iz
  let q ← pdiv p fpres
  let k ← pdiv P.r P.cp
  pure (t * sym.rpow q k)

/-- `presProf[iz] / r / tempRealProf[iz]`. -/
def densCVal (P : Param K) (pres treal : List K) (iz : Nat) : R K := do
  let p ← idx pres iz
  let a ← pdiv p P.r
  let t ← idx treal iz
  pdiv a t

/-- `(densityProfC[iz]*dz[iz-1] + densityProfC[iz-1]*dz[iz]) / (dz[iz-1] + dz[iz])`, `iz ≥ 1`. -/
def densSVal (dC dz : List K) (iz : Nat) : R K := do
  let c1 ← idx dC iz
  let z0 ← idx dz (iz - 1)
  let c0 ← idx dC (iz - 1)
  let z1 ← idx dz iz
  pdiv (c1 * z0 + c0 * z1) (z0 + z1)

/-- `ustarRur / vk * log((z[iz] - disp) / z0r)`, 0 when `log` raises ValueError. -/
def windVal (sym : Sym K) (vk ustar disp z0r : K) (z : List K) (iz : Nat) : R K := do
  let q ← pdiv ustar vk
  let ziz ← idx z iz
  let x ← pdiv (ziz - disp) z0r
  if x ≤ 0 then pure 0 else pure (q * sym.log x)

/-- Body of the average-pressure loop. -/
def ublStep (nzref : Nat) (pres z dz : List K) (acc : K) (iz : Nat) : R K := do
  let p ← idx pres iz
  let d ← idx dz iz
  let zt ← idxPred z nzref
  let dt ← idxPred dz nzref
  let q ← pdiv (p * d) (zt + dt / 2)
  pure (acc + q)

/-- Everything `vdm` computes before it calls `diffusion_equation`: the updated profiles and the
    result of `diffusion_coefficient`. -/
structure VdmPre (K : Type) where
  temp : List K
  pres : List K
  treal : List K
  dC : List K
  dS : List K
  coef : CoefOut K
deriving Repr

/-- The part of `vdm` up to the density profiles. -/
def vdmProfiles (sym : Sym K) (P : Param K) (nzref : Nat) (dz : List K) (F : Forc K)
    (st : VdmState K) : R (List K × List K × List K × List K × List K) := do
  let temp ← setC st.tempProf 0 F.temp
  let pres ← foldE (presStep sym P F.pres temp dz) st.presProf (List.range' 1 (nzref - 1)).reverse
  let treal ← storeLoop (realVal sym P F.pres temp pres) st.tempRealProf (List.range nzref)
  let dC ← storeLoop (densCVal P pres treal) st.densityProfC (List.range nzref)
  let c0 ← idx dC 0
  let dS0 ← setC st.densityProfS 0 c0
  let dS1 ← storeLoop (densSVal dC dz) dS0 (List.range' 1 (nzref - 1))
  let cl ← idxPred dC nzref
  let dS ← setC dS1 nzref cl
  pure (temp, pres, treal, dC, dS)

/-- `vdm` up to and including the call of `diffusion_coefficient`. -/
def vdmPre (sym : Sym K) (P : Param K) (nzref : Nat) (z dz : List K) (z0r disp : K) (F : Forc K)
    (sens : K) (st : VdmState K) : R (VdmPre K) := do
  let pr ← vdmProfiles sym P nzref dz F st
  let rho ← idx pr.2.2.2.1 0
  let t0 ← idx pr.1 0
  let co ← diffusionCoefficient sym P rho z dz z0r disp t0 sens nzref F.wind pr.1
  pure { temp := pr.1, pres := pr.2.1, treal := pr.2.2.1, dC := pr.2.2.2.1, dS := pr.2.2.2.2,
         coef := co }

/-- State after a `vdm` step (`ublPres` and the two length profiles left on the object). -/
structure VdmOut (K : Type) where
  st : VdmState K
  ublPres : K
  dlu : List K
  dld : List K
deriving Repr

/-- `RSMDef.vdm(forc, rural, parameter, simTime)` on an object with the given `nzref`, `nzfor`,
    `z`, `dz`, `z0r`, `disp` and profiles `st`; `sens = rural.sens`, `dt = simTime.dt`. -/
def vdm (sym : Sym K) (P : Param K) (nzref nzfor : Nat) (dt : K) (z dz : List K) (z0r disp : K)
    (F : Forc K) (sens : K) (st : VdmState K) : R (VdmOut K) := do
  let pre ← vdmPre sym P nzref z dz z0r disp F sens st
  let newT ← liftPy (diffusion nzref dt pre.temp pre.dC pre.dS pre.coef.kt dz)
  let wind ← storeLoop (windVal sym P.vk pre.coef.ustar disp z0r z) st.windProf (List.range nzref)
  let ubl ← foldE (ublStep nzref pre.pres z dz) 0 (List.range nzfor)
  pure { st := { tempProf := newT, presProf := pre.pres, tempRealProf := pre.treal,
                 densityProfC := pre.dC, densityProfS := pre.dS, windProf := wind },
         ublPres := ubl, dlu := pre.coef.dlu, dld := pre.coef.dld }

/-! ### the grid built by `RSMDef.__init__` -/

/-- `z[i] = 0.5 * (z_meso[i] + z_meso[i+1])`, `dz[i] = z_meso[i+1] - z_meso[i]`
    for `i < len(z_meso) - 1`. -/
def mesoGrid : List K → List K × List K
  | a :: b :: rest =>
    let g := mesoGrid (b :: rest)
    (1 / 2 * (a + b) :: g.1, (b - a) :: g.2)
  | _ => ([], [])

end Uwg.Rsm
