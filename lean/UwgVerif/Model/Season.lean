/-
Model of the vegetation-season logic:
  * `Element.SurfFlux` (uwg/element.py), horizontal branch: the season test and the
    absorbed / latent / sensible partition (waterStorage is hard-wired to 0 in uwg, so the
    evaporation branch contributes `soilLat = 0`; the model takes `soilLat` as an input);
  * `SolarCalcs.solarcalcs` (uwg/solarcalcs.py): the season test selecting the road albedo used
    by the reflection model.
-/
import Mathlib.Algebra.Field.Defs

namespace Uwg

/-- `simTime.month < parameter.vegStart or simTime.month > parameter.vegEnd` (element.py). -/
def offSeasonElement (m s e : Nat) : Bool := decide (m < s) || decide (m > e)

/-- `self.simTime.month < self.parameter.vegStart or self.simTime.month > self.parameter.vegEnd`
    (solarcalcs.py). -/
def offSeasonSolar (m s e : Nat) : Bool := decide (m < s) || decide (m > e)

/-- The test as it stood before the repair of element.py (`and`). -/
def offSeasonElementAsis (m s e : Nat) : Bool := decide (m < s) && decide (m > e)

variable {K : Type} [Field K]

/-- Inputs of the horizontal branch of `SurfFlux` that matter for the partition. -/
structure SurfIn (K : Type) where
  albedo : K
  vegcoverage : K
  /-- `(grasscoverage, treecoverage)` — present only on the urban road element -/
  roadCover : Option (K × K)
  solRec : K
  infra : K
  soilLat : K
  aeroCond : K
  tSurf : K
  tempRef : K
  vegAlbedo : K
  grassFLat : K
  treeFLat : K

structure SurfOut (K : Type) where
  solAbs : K
  lat : K
  sens : K
  flux : K

/-- Horizontal branch of `Element.SurfFlux` up to the net flux handed to `Conduction`. -/
def surfFluxHorizontal (off : Bool) (i : SurfIn K) : SurfOut K :=
  let (solAbs, vegLat, vegSen) :=
    if off then
      ((1 - i.albedo) * i.solRec, (0 : K), (0 : K))
    else
      let solAbs := ((1 - i.vegcoverage) * (1 - i.albedo) + i.vegcoverage * (1 - i.vegAlbedo)) * i.solRec
      match i.roadCover with
      | some (g, t) =>
        (solAbs,
         g * (1 - i.vegAlbedo) * i.grassFLat * i.solRec + t * (1 - i.vegAlbedo) * i.treeFLat * i.solRec,
         g * (1 - i.vegAlbedo) * (1 - i.grassFLat) * i.solRec
           + t * (1 - i.vegAlbedo) * (1 - i.treeFLat) * i.solRec)
      | none =>
        (solAbs,
         i.vegcoverage * (1 - i.vegAlbedo) * i.grassFLat * i.solRec,
         i.vegcoverage * (1 - i.vegAlbedo) * (1 - i.grassFLat) * i.solRec)
  let lat := i.soilLat + vegLat
  let sens := vegSen + i.aeroCond * (i.tSurf - i.tempRef)
  { solAbs := solAbs, lat := lat, sens := sens, flux := solAbs + i.infra - lat - sens }

/-- Road albedo handed to the reflection closure in `solarcalcs`. -/
def roadAlbedo (off : Bool) (albedo vegcoverage vegAlbedo : K) : K :=
  if off then albedo else albedo * (1 - vegcoverage) + vegAlbedo * vegcoverage

/-- `UCM.treeSensHeat`, `UCM.treeLatHeat` after `solarcalcs` (sun-up branch): heat released by
    trees and grass per unit urban area, gated by the same season test. -/
def vegHeat (off : Bool) (vegAlbedo treeFLat grassFLat solRecRoad treeCoverage vegcover : K) : K × K :=
  if off then (0, 0) else
    ((1 - vegAlbedo) * (1 - treeFLat) * solRecRoad * treeCoverage
       + (1 - vegAlbedo) * (1 - grassFLat) * solRecRoad * (vegcover - treeCoverage),
     (1 - vegAlbedo) * treeFLat * solRecRoad * treeCoverage
       + (1 - vegAlbedo) * grassFLat * solRecRoad * (vegcover - treeCoverage))

end Uwg
