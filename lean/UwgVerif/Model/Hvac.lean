/-
Model of `Building.BEMCalc(UCM, BEM, forc, parameter, simTime)` (uwg/building.py): one step of
the building-energy model — load sums, HVAC branch (cooling / heating / none), indoor air
temperature and humidity balance, surface fluxes, waste heat and energy totals.

The model mirrors the code *as it is* in /repo, including

* `nFloor = max(bldHeight / floor_height, 1)`, `moist_air_density` inline,
* the night/day set-point choice (with `is_near_zero(hour - nightSetStart)`),
* the −50..100 °C check on indoor and ceiling temperature (→ `fatal`),
* the ceiling coefficient branch, the two `max(…, 0)` demands,
* cooling iff `sensCoolDemand > 0 ∧ canTemp > 288`, **else** heating iff
  `sensHeatDemand > 0 ∧ canTemp < 288`, else neither ("idle"),
* the capacity rescaling (repaired form: both parts scaled with the original total),
* AIR / WATER waste heat, the later divisions by `nFloor`,
* `Q = int_heat + winTrans + Qheat − sensCoolDemand` — note that in the idle branch the
  positive part of the cooling load is *still subtracted* although no system runs and no energy
  is used ("free cooling", canyon ≤ 288 K). This is mirrored, not corrected.

Every Python division is guarded in `guards` (→ `zerodiv`), in program order relative to the
`fatal` check; the arithmetic itself lives in total functions so theorems can talk about them.
`psychrometrics` (only used for `indoorRhum`) is a parameter `phi`.
-/
import Mathlib.Algebra.Order.Field.Basic

namespace Uwg.Hvac
variable {K : Type} [Field K] [LinearOrder K] [IsStrictOrderedRing K]

/-- `condtype` (the setter admits exactly these two). -/
inductive Cond where
  | air | water
deriving Repr, DecidableEq

/-- Everything `BEMCalc` reads. -/
structure BemIn (K : Type) where
  -- Building (self)
  floorHeight : K
  intHeatNight : K
  intHeatDay : K
  intHeatFRad : K       -- `int_heat_f_rad`
  intHeatFLat : K       -- `int_heat_flat`
  infil : K
  vent : K
  glazingRatio : K
  uValue : K
  shgc : K
  cond : Cond
  copAdj : K
  coolcap : K
  heateff : K
  heatCap : K
  coolSetDay : K
  coolSetNight : K
  heatSetDay : K
  heatSetNight : K
  indoorTemp : K
  indoorHum : K
  latWaste0 : K         -- value of `latWaste` before the call (only the cooling branch assigns it)
  -- UCM
  bldHeight : K
  verToHor : K
  bldDensity : K
  canTemp : K
  canHum : K
  -- BEM
  tWall : K             -- `BEM.wall.layerTemp[-1]`
  tCeil : K             -- `BEM.roof.layerTemp[-1]`
  tMass : K             -- `BEM.mass.layerTemp[0]`
  solRec : K            -- `BEM.wall.solRec`
  swh : K
  elec : K
  light : K
  gas : K
  -- forc
  pres : K
  waterTemp : K
  -- parameter
  lv : K
  cp : K
  nightSetStart : K
  nightSetEnd : K
  -- simTime
  secDay : K
  dt : K

/-- Which HVAC branch `BEMCalc` takes. -/
inductive Branch where
  | cool | heat | idle
deriving Repr, DecidableEq

section defs
variable (i : BemIn K)

def nFloor : K := max (i.bldHeight / i.floorHeight) 1

/-- denominator of `moist_air_density(pres, indoor_temp, indoor_hum)` -/
def densDen : K := 1000 * (287042 / 1000000) * i.indoorTemp * (1 + 1607858 / 1000000 * i.indoorHum)
def dens : K := i.pres / densDen i
def volVent : K := i.vent * nFloor i
def volInfil : K := i.infil * i.bldHeight / 3600
def volSWH : K := i.swh * nFloor i / 3600
def facArea : K := i.verToHor / i.bldDensity
def wallArea : K := facArea i * (1 - i.glazingRatio)
def winArea : K := facArea i * i.glazingRatio
def massArea : K := 2 * nFloor i - 1

def hour : K := i.secDay / 3600

/-- `is_near_zero(hour - nightSetStart)` = `abs(x) < 1e-10` -/
def nearStart : Prop :=
  -(1 / 10000000000 : K) < hour i - i.nightSetStart ∧ hour i - i.nightSetStart < 1 / 10000000000

instance : Decidable (nearStart i) := by unfold nearStart; infer_instance

def isNight : Prop := hour i < i.nightSetEnd ∨ (hour i > i.nightSetStart ∨ nearStart i)

instance : Decidable (isNight i) := by unfold isNight; infer_instance

def tCool : K := if isNight i then i.coolSetNight else i.coolSetDay
def tHeat : K := if isNight i then i.heatSetNight else i.heatSetDay
/-- `self.int_heat` after the set-point block -/
def intHeat : K := (if isNight i then i.intHeatNight else i.intHeatDay) * nFloor i

def zacWall : K := 3076 / 1000
def zacMass : K := 3076 / 1000
def zacCeil : K := if i.tCeil > i.indoorTemp then 948 / 1000 else 4040 / 1000

def convergeHi : K := 100 + 27315 / 100
def convergeLo : K := -50 + 27315 / 100

/-- the −50..100 °C plausibility test on indoor and ceiling temperature -/
def tempsOk : Prop :=
  (convergeLo ≤ i.indoorTemp ∧ i.indoorTemp ≤ convergeHi) ∧
  (convergeLo ≤ i.tCeil ∧ i.tCeil ≤ convergeHi)

instance : Decidable (tempsOk i) := by unfold tempsOk; infer_instance

def winTrans : K := i.solRec * i.shgc * winArea i
def qlInfil : K := volInfil i * dens i * i.lv * (i.canHum - i.indoorHum)
def qlVent : K := volVent i * dens i * i.lv * (i.canHum - i.indoorHum)
def qlIntload : K := intHeat i * i.intHeatFLat

/-- The eight-term load sum of the code at set-point `T` (used with `T_cool` and, negated, with
    `T_heat`): wall, mass, window, ceiling, internal, infiltration, ventilation, solar. -/
def loadAt (T : K) : K :=
  wallArea i * zacWall * (i.tWall - T) +
  massArea i * zacMass * (i.tMass - T) +
  winArea i * i.uValue * (i.canTemp - T) +
  zacCeil i * (i.tCeil - T) +
  intHeat i +
  volInfil i * dens i * i.cp * (i.canTemp - T) +
  volVent i * dens i * i.cp * (i.canTemp - T) +
  winTrans i

/-- `sensCoolDemand` before the HVAC block -/
def sensCool0 : K := max (loadAt i (tCool i)) 0
/-- `sensHeatDemand` before the HVAC block -/
def sensHeat0 : K := max (-(loadAt i (tHeat i))) 0

def branch : Branch :=
  if sensCool0 i > 0 ∧ i.canTemp > 288 then .cool
  else if sensHeat0 i > 0 ∧ i.canTemp < 288 then .heat
  else .idle

/-! ### cooling branch -/

def coolDen : K := dens i * i.cp * (i.indoorTemp - 28315 / 100)
def volCool0 : K := sensCool0 i / coolDen i
/-- `0.9 * 0.0078` -/
def humRef : K := 9 / 10 * (78 / 10000)
def dehum0 : K := max (volCool0 i * dens i * (i.indoorHum - humRef) * i.lv) 0
/-- rated capacity per footprint: `coolcap * nFloor` -/
def capTot : K := i.coolcap * nFloor i
def totDemand : K := dehum0 i + sensCool0 i
/-- the capacity test `dehumDemand + sensCoolDemand > coolcap * nFloor` -/
def limited : Prop := totDemand i > capTot i

instance : Decidable (limited i) := by unfold limited; infer_instance

def volCool : K := if limited i then volCool0 i / totDemand i * capTot i else volCool0 i
/-- delivered sensible cooling per footprint -/
def sensCoolC : K := if limited i then sensCool0 i * capTot i / totDemand i else sensCool0 i
/-- delivered dehumidification per footprint -/
def dehumC : K := if limited i then dehum0 i * capTot i / totDemand i else dehum0 i
def qhvacC : K := if limited i then capTot i else dehum0 i + sensCool0 i
def qdehumC : K := volCool i * dens i * i.lv * (i.indoorHum - humRef)
/-- removed heat `max(sens + dehum, 0)` -/
def removedC : K := max (sensCoolC i + dehumC i) 0
/-- electricity use per footprint, before the division by `nFloor` -/
def coolConsumpC : K := removedC i / i.copAdj
def evapEff : K := 1
def sensWasteC : K :=
  match i.cond with
  | .air => removedC i + coolConsumpC i
  | .water => removedC i + coolConsumpC i * (1 - evapEff)
def latWasteC : K :=
  match i.cond with
  | .air => 0
  | .water => removedC i + coolConsumpC i * evapEff

/-! ### heating branch -/

def heatCapTot : K := i.heatCap * nFloor i
def qheatH : K := min (sensHeat0 i) (heatCapTot i)
/-- fuel use per footprint, before the division by `nFloor` -/
def heatConsumpFp : K := qheatH i / i.heateff
def sensWasteH : K := heatConsumpFp i - qheatH i

/-- State of the HVAC variables after the branch block (all per building footprint except
    `sensHeat` and `heatConsump` in the heating branch, which the code already divides there). -/
structure Hv (K : Type) where
  sensCool : K
  sensHeat : K
  dehum : K
  qhvac : K
  qheat : K
  qdehum : K
  coolConsump : K
  heatConsump : K
  sensWaste : K
  latWaste : K

def hvac : Hv K :=
  match branch i with
  | .cool =>
    { sensCool := sensCoolC i, sensHeat := 0, dehum := dehumC i, qhvac := qhvacC i, qheat := 0,
      qdehum := qdehumC i, coolConsump := coolConsumpC i, heatConsump := 0,
      sensWaste := sensWasteC i, latWaste := latWasteC i }
  | .heat =>
    { sensCool := 0, sensHeat := qheatH i / nFloor i, dehum := 0, qhvac := 0, qheat := qheatH i,
      qdehum := 0, coolConsump := 0, heatConsump := heatConsumpFp i / nFloor i,
      sensWaste := sensWasteH i, latWaste := i.latWaste0 }
  | .idle =>
    { sensCool := sensCool0 i, sensHeat := sensHeat0 i, dehum := 0, qhvac := 0, qheat := 0,
      qdehum := 0, coolConsump := 0, heatConsump := 0, sensWaste := 0, latWaste := i.latWaste0 }

/-! ### indoor balance -/

def qTot : K := intHeat i + winTrans i + (hvac i).qheat - (hvac i).sensCool

def h1 : K :=
  i.tWall * wallArea i * zacWall +
  i.tMass * massArea i * zacMass +
  i.tCeil * zacCeil i +
  i.canTemp * winArea i * i.uValue +
  i.canTemp * volInfil i * dens i * i.cp +
  i.canTemp * volVent i * dens i * i.cp

def h2 : K :=
  wallArea i * zacWall +
  massArea i * zacMass +
  zacCeil i +
  winArea i * i.uValue +
  volInfil i * dens i * i.cp +
  volVent i * dens i * i.cp

def indoorTempNew : K := (h1 i + qTot i) / h2 i

def humDen : K := dens i * i.lv * i.bldHeight
def indoorHumNew : K :=
  i.indoorHum + i.dt / humDen i * (qlIntload i + qlInfil i + qlVent i - (hvac i).qdehum)

def cpH2O : K := 4200
def tHot : K := 49 + 27315 / 100
/-- service-hot-water heat per footprint `volSWH * CpH20 * (T_hot - waterTemp)` -/
def swhHeat : K := volSWH i * cpH2O * (tHot - i.waterTemp)

end defs

/-- Attributes of the building after `BEMCalc` (same names as the Python attributes). -/
structure BemOut (K : Type) where
  nFloor : K
  intHeat : K
  sensCoolDemand : K   -- per floor area (divided by `nFloor` at the end)
  sensHeatDemand : K
  dehumDemand : K      -- per footprint
  Qhvac : K
  Qheat : K
  coolConsump : K      -- per floor area
  heatConsump : K      -- per floor area
  sensWaste : K
  latWaste : K
  indoorTemp : K
  indoorHum : K
  indoorRhum : K
  fluxWall : K
  fluxRoof : K
  fluxMass : K
  fluxSolar : K
  fluxWindow : K
  fluxInterior : K
  fluxInfil : K
  fluxVent : K
  elecTotal : K
  gasTotal : K

/-- The arithmetic of `BEMCalc` as a total function (meaningful when `guards = none`). -/
def bemCore (phi : K → K → K → K) (i : BemIn K) : BemOut K :=
  let hv := hvac i
  let nF := nFloor i
  let coolConsump := hv.coolConsump / nF
  { nFloor := nF
    intHeat := intHeat i
    sensCoolDemand := hv.sensCool / nF
    sensHeatDemand := hv.sensHeat
    dehumDemand := hv.dehum
    Qhvac := hv.qhvac
    Qheat := hv.qheat
    coolConsump := coolConsump
    heatConsump := hv.heatConsump
    sensWaste := hv.sensWaste + (1 / i.heateff - 1) * swhHeat i + i.gas * (1 - i.heateff) * nF
    latWaste := hv.latWaste
    indoorTemp := indoorTempNew i
    indoorHum := indoorHumNew i
    indoorRhum := phi (indoorTempNew i) (indoorHumNew i) i.pres
    fluxWall := zacWall * (i.indoorTemp - i.tWall)
    fluxRoof := zacCeil i * (i.indoorTemp - i.tCeil)
    fluxMass := zacMass * (i.indoorTemp - i.tMass) + intHeat i * i.intHeatFRad / massArea i
    fluxSolar := winTrans i / nF
    fluxWindow := winArea i * i.uValue * (i.canTemp - i.indoorTemp) / nF
    fluxInterior := intHeat i * i.intHeatFRad * (1 - i.intHeatFLat) / nF
    fluxInfil := volInfil i * dens i * i.cp * (i.canTemp - i.indoorTemp) / nF
    fluxVent := volVent i * dens i * i.cp * (i.canTemp - i.indoorTemp) / nF
    elecTotal := coolConsump + i.elec + i.light
    gasTotal := i.gas + swhHeat i / nF / i.heateff + hv.heatConsump }

/-- Error classes of `BEMCalc`. -/
inductive Err where
  | zerodiv | fatal
deriving Repr, DecidableEq

/-- zero divisors that can only be met inside the HVAC branch taken -/
def branchGuard (i : BemIn K) : Prop :=
  match branch i with
  | .cool => coolDen i = 0 ∨ (limited i ∧ totDemand i = 0) ∨ i.copAdj = 0
  | .heat => i.heateff = 0
  | .idle => False

instance (i : BemIn K) : Decidable (branchGuard i) := by
  unfold branchGuard; cases branch i <;> infer_instance

/-- The exceptions of `BEMCalc`, in program order: zero divisors met before the temperature
    check, the check itself, zero divisors met after it (`nFloor ≥ 1` and `massArea ≥ 1` can
    never vanish and are not listed). -/
def guards (i : BemIn K) : Option Err :=
  if i.floorHeight = 0 ∨ densDen i = 0 ∨ i.bldDensity = 0 then some .zerodiv
  else if ¬ tempsOk i then some .fatal
  else if branchGuard i then some .zerodiv
  else if h2 i = 0 ∨ humDen i = 0 ∨ i.heateff = 0 then some .zerodiv
  else none

/-- `Building.BEMCalc`: exception class or the new attribute values. -/
def bemCalc (phi : K → K → K → K) (i : BemIn K) : Except Err (BemOut K) :=
  match guards i with
  | some e => .error e
  | none => .ok (bemCore phi i)

end Uwg.Hvac
