/-
`UWG._read_epw` — interpretation of the header of the rural EPW file (uwg/uwg.py):

    self.lat = float(self._header[0][6]); self.lon = float(self._header[0][7]); self.gmt = float(self._header[0][8])
    soilData = self._header[3]
    self.nSoil = int(soilData[1])
    for i in range(self.nSoil):
        self.depth_soil[i][0] = float(soilData[2 + (i * 16)])
        for j in range(12):
            self.Tsoil[i][j] = float(soilData[6 + (i * 16) + j]) + 273.15

The model indexes the cells at the same absolute positions and in the same order, so the first failing
access decides the exception class (`IndexError` / `ValueError`) exactly as in Python. Numbers are the exact
decimal values of the cells (`Uwg.C06.parseFloat`, the finite part of Python's `float` grammar).
Core Lean + the C06 token model only.
-/
import UwgVerif.Model.NumTok

namespace Uwg.Epw
open Uwg.C06

inductive Err where
  | index   -- IndexError: a row or a cell that is not there
  | value   -- ValueError: text that `float` / `int` refuses
  deriving DecidableEq, Repr

/-- Python `int(str)` for decimal text: blanks stripped, optional sign, digits (underscores between digits) -/
def parseInt (s : Str) : Option Int :=
  let s0 := splitSign (strip s)
  let a := scanDigits false s0.2
  if a.1 = [] ∨ a.2 ≠ [] then none
  else some (if s0.1 then -(natOfDigits a.1 : Int) else (natOfDigits a.1 : Int))

def cellAt (r : List Str) (i : Nat) : Except Err Str :=
  match r[i]? with
  | some c => .ok c
  | none => .error .index

def floatAt (r : List Str) (i : Nat) : Except Err Rat := do
  let c ← cellAt r i
  match parseFloat c with
  | some q => .ok q
  | none => .error .value

def intAt (r : List Str) (i : Nat) : Except Err Int := do
  let c ← cellAt r i
  match parseInt c with
  | some n => .ok n
  | none => .error .value

structure Site where
  lat : Rat
  lon : Rat
  gmt : Rat
  deriving DecidableEq, Repr

/-- one ground-temperature record as read: depth (m) and twelve monthly temperatures (K) -/
structure GRec where
  depth : Rat
  months : List Rat
  deriving DecidableEq, Repr

structure Ground where
  nSoil : Int
  recs : List GRec
  deriving DecidableEq, Repr

def readSite (loc : List Str) : Except Err Site := do
  let lat ← floatAt loc 6
  let lon ← floatAt loc 7
  let gmt ← floatAt loc 8
  return ⟨lat, lon, gmt⟩

/-- the months `j, j+1, …` (k of them) of the record starting at cell `b` -/
def readMonths (g : List Str) (b : Nat) : Nat → Nat → Except Err (List Rat)
  | _, 0 => .ok []
  | j, k + 1 => do
    let t ← floatAt g (6 + b + j)
    let rest ← readMonths g b (j + 1) k
    return (t + 27315 / 100) :: rest

/-- the records `i, i+1, …` (k of them); record `i` starts at cell `2 + 16 i` (here: offset `b = 16 i`) -/
def readRecs (g : List Str) : Nat → Nat → Except Err (List GRec)
  | _, 0 => .ok []
  | b, k + 1 => do
    let d ← floatAt g (2 + b)
    let ms ← readMonths g b 0 12
    let rest ← readRecs g (b + 16) k
    return ⟨d, ms⟩ :: rest

def readGround (g : List Str) : Except Err Ground := do
  let n ← intAt g 1
  let rs ← readRecs g 0 n.toNat
  return ⟨n, rs⟩

def rowAt (hdr : List (List Str)) (i : Nat) : Except Err (List Str) :=
  match hdr[i]? with
  | some r => .ok r
  | none => .error .index

/-- `_read_epw` on the eight header rows (statement order of the Python code) -/
def readHeader (hdr : List (List Str)) : Except Err (Site × Ground) := do
  let loc ← rowAt hdr 0
  let site ← readSite loc
  let g ← rowAt hdr 3
  let ground ← readGround g
  return (site, ground)

/-! ### the layout of a ground-temperature line, as the EPW data dictionary defines it -/

/-- a record as written: depth, three soil-property cells, twelve monthly cells -/
structure GText where
  depth : Str
  p1 : Str
  p2 : Str
  p3 : Str
  months : List Str

def GText.cells (r : GText) : List Str := r.depth :: r.p1 :: r.p2 :: r.p3 :: r.months

/-- `GROUND TEMPERATURES,<count>,<record>,<record>,…,<anything>` -/
def groundLine (label count : Str) (recs : List GText) (trailing : List Str) : List Str :=
  label :: count :: (recs.flatMap GText.cells ++ trailing)

/-- every cell of a list read as a number -/
def parseAll : List Str → Option (List Rat)
  | [] => some []
  | c :: cs =>
    match parseFloat c, parseAll cs with
    | some v, some vs => some (v :: vs)
    | _, _ => none

/-- numeric reading of a written record, if every numeric cell is a number -/
def parseRec (r : GText) : Option GRec :=
  match parseFloat r.depth, parseAll r.months with
  | some d, some ms => some ⟨d, ms.map (· + 27315 / 100)⟩
  | _, _ => none

def parseRecs : List GText → Option (List GRec)
  | [] => some []
  | r :: rs =>
    match parseRec r, parseRecs rs with
    | some v, some vs => some (v :: vs)
    | _, _ => none

end Uwg.Epw
