/-
C06 — JSON-like value tree shared by the parameter/serialisation model and the `.uwg` reader model.
Core Lean only. Strings are `List Char` (see DESIGN 2.6).

Python value ↦ `J`:
  None ↦ null, bool ↦ bool, int ↦ num (int n), float ↦ num (flt q) (q the exact value of the double;
  the tie only ever feeds doubles whose shortest repr is the decimal that was written, so q is that decimal),
  str ↦ str, list/tuple ↦ list (JSON has no tuples; the harness canonicalises both to `list`), dict ↦ obj.
-/

namespace Uwg.C06

abbrev Str := List Char

/-- `cs! "abc"` is the literal `['a','b','c']` (so that no `String` function has to be unfolded in proofs). -/
macro "cs!" s:str : term => do
  let elems := s.getString.toList.toArray.map (fun c => (Lean.Syntax.mkCharLit c : Lean.TSyntax `term))
  `([$elems,*])

/-- Python exception classes distinguished by the check. -/
inductive Err
  | assert    -- AssertionError
  | value     -- ValueError
  | index     -- IndexError
  | type      -- TypeError
  | key       -- KeyError
  | attr      -- AttributeError
  | exc       -- plain `Exception` (raised by the repaired reader / by the `Cannot reset` guards)
  deriving DecidableEq, Repr

/-- A Python number: `int` or `float` (exact value). `10` and `10.0` are different `Num`s with equal `val`. -/
inductive Num
  | int (n : Int)
  | flt (q : Rat)
  deriving DecidableEq, Repr

def Num.val : Num → Rat
  | .int n => (n : Rat)
  | .flt q => q

inductive J
  | null
  | bool (b : Bool)
  | num (x : Num)
  | str (s : Str)
  | list (xs : List J)
  | obj (kvs : List (Str × J))
  deriving Repr

mutual
def J.decEq : (a b : J) → Decidable (a = b)
  | .null, .null => isTrue rfl
  | .bool a, .bool b =>
      if h : a = b then isTrue (by rw [h]) else isFalse (by intro h'; cases h'; exact h rfl)
  | .num a, .num b =>
      if h : a = b then isTrue (by rw [h]) else isFalse (by intro h'; cases h'; exact h rfl)
  | .str a, .str b =>
      if h : a = b then isTrue (by rw [h]) else isFalse (by intro h'; cases h'; exact h rfl)
  | .list a, .list b =>
      match J.decEqList a b with
      | isTrue h => isTrue (by rw [h])
      | isFalse h => isFalse (by intro h'; cases h'; exact h rfl)
  | .obj a, .obj b =>
      match J.decEqObj a b with
      | isTrue h => isTrue (by rw [h])
      | isFalse h => isFalse (by intro h'; cases h'; exact h rfl)
  | .null, .bool _ | .null, .num _ | .null, .str _ | .null, .list _ | .null, .obj _
  | .bool _, .null | .bool _, .num _ | .bool _, .str _ | .bool _, .list _ | .bool _, .obj _
  | .num _, .null | .num _, .bool _ | .num _, .str _ | .num _, .list _ | .num _, .obj _
  | .str _, .null | .str _, .bool _ | .str _, .num _ | .str _, .list _ | .str _, .obj _
  | .list _, .null | .list _, .bool _ | .list _, .num _ | .list _, .str _ | .list _, .obj _
  | .obj _, .null | .obj _, .bool _ | .obj _, .num _ | .obj _, .str _ | .obj _, .list _ =>
      isFalse (by intro h; cases h)
def J.decEqList : (a b : List J) → Decidable (a = b)
  | [], [] => isTrue rfl
  | [], _ :: _ => isFalse (by intro h; cases h)
  | _ :: _, [] => isFalse (by intro h; cases h)
  | x :: xs, y :: ys =>
      match J.decEq x y, J.decEqList xs ys with
      | isTrue h1, isTrue h2 => isTrue (by rw [h1, h2])
      | isFalse h, _ => isFalse (by intro h'; cases h'; exact h rfl)
      | _, isFalse h => isFalse (by intro h'; cases h'; exact h rfl)
def J.decEqObj : (a b : List (Str × J)) → Decidable (a = b)
  | [], [] => isTrue rfl
  | [], _ :: _ => isFalse (by intro h; cases h)
  | _ :: _, [] => isFalse (by intro h; cases h)
  | (k, x) :: xs, (k', y) :: ys =>
      if hk : k = k' then
        match J.decEq x y, J.decEqObj xs ys with
        | isTrue h1, isTrue h2 => isTrue (by rw [hk, h1, h2])
        | isFalse h, _ => isFalse (by intro h'; cases h'; exact h rfl)
        | _, isFalse h => isFalse (by intro h'; cases h'; exact h rfl)
      else isFalse (by intro h'; cases h'; exact hk rfl)
end

instance : DecidableEq J := J.decEq

instance {ε α : Type} [DecidableEq ε] [DecidableEq α] : DecidableEq (Except ε α)
  | .ok a, .ok b => if h : a = b then isTrue (by rw [h]) else isFalse (by intro h'; cases h'; exact h rfl)
  | .error a, .error b =>
    if h : a = b then isTrue (by rw [h]) else isFalse (by intro h'; cases h'; exact h rfl)
  | .ok _, .error _ => isFalse (by intro h; cases h)
  | .error _, .ok _ => isFalse (by intro h; cases h)

/-- Association-list lookup by key equality (first hit), the way every model below reads a dict
    or an attribute table. Written out so that proofs never depend on a `BEq` instance. -/
def alookup {β : Type} (k : Str) : List (Str × β) → Option β
  | [] => none
  | (k', v) :: rest => if k = k' then some v else alookup k rest

/-- Python `d[k] = v` on an insertion-ordered dict: replace in place, else append. -/
def aset {β : Type} (k : Str) (v : β) : List (Str × β) → List (Str × β)
  | [] => [(k, v)]
  | (k', v') :: rest => if k = k' then (k', v) :: rest else (k', v') :: aset k v rest

/-- `data[k]` : `KeyError` if absent, `TypeError` if `data` is not a dict. -/
def J.get (k : Str) : J → Except Err J
  | .obj kvs => match alookup k kvs with
                | some v => .ok v
                | none => .error .key
  | _ => .error .type

/-- `k in data` for a dict. -/
def J.has (k : Str) : J → Bool
  | .obj kvs => (alookup k kvs).isSome
  | _ => false

/-- Number view used by comparisons `lo <= value <= hi`: Python `bool` is an `int`. -/
def numView : J → Option Rat
  | .num x => some x.val
  | .bool true => some 1
  | .bool false => some 0
  | _ => none

/-- ASCII `str.lower()` / `str.upper()` (the generators only produce ASCII). -/
def lower (s : Str) : Str := s.map Char.toLower
def upper (s : Str) : Str := s.map Char.toUpper

end Uwg.C06
