/-
Function symbols for the transcendental operations uwg takes from libm.

Kernels that use `exp`, `log`, `**` with a non-integral exponent, `sqrt` or trigonometry are
written generically over a field `K` and take a `Sym K`. Two interpretations are used:

* `stubQ : Sym ℚ` — fixed rational stand-ins, *the same table as `harness/fracexec.py`*
  (`StubMath`), used only to execute the model against the real source with exact comparison;
* `Uwg.realSym : Sym ℝ` (in `Model/SymbolsReal.lean`) — the real functions, used by theorems.
-/
import Mathlib.Algebra.Order.Field.Rat

namespace Uwg

structure Sym (K : Type) where
  exp : K → K
  /-- natural logarithm; Python raises `ValueError` for arguments ≤ 0 — models guard explicitly -/
  log : K → K
  /-- `a ** b` / `pow(a, b)` for a non-integral exponent -/
  rpow : K → K → K
  /-- Python raises `ValueError` for negative arguments — models guard explicitly -/
  sqrt : K → K
  cos : K → K
  sin : K → K
  tan : K → K
  acos : K → K
  asin : K → K
  pi : K

/-- The rational stub table shared with `harness/fracexec.py`. -/
def stubQ : Sym ℚ where
  exp x := 1 + x / 100
  log x := x - 1
  rpow a b := a * b + 1
  sqrt x := (x + 1) / 2
  cos x := 1 - x * x / 2
  sin x := x
  tan x := x
  acos x := 1 - x
  asin x := x
  pi := 355 / 113

end Uwg
