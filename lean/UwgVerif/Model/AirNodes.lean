/-
Models of the two remaining air-node updates of uwg (the indoor node is `Model/Hvac.lean`):

* `UCMDef.UCModel(BEM, T_ubl, forc, parameter)` (uwg/UCMDef.py) — canyon air temperature
  `canTemp = (H1 + Q) / H2` over road, boundary layer and, per building archetype, window /
  wall / ventilation / infiltration terms, plus the derived fluxes and the 200..350 K check;
* `UBLDef.ublmodel(UCM, RSM, rural, forc, parameter, simTime)` and `UBLDef.nightforc`
  (uwg/UBLDef.py) — boundary-layer temperature: daytime forced / convective relaxation towards
  the rural profile value at the reference height, night-time along-wind cell recursion and mean.

The code is mirrored as it is: same operations and branch structure; Python's exceptions are
error classes (`zerodiv`, `index`, `fatal`) listed by `…Guards` in program order; the arithmetic
itself is total so that theorems can speak about it.  `dens`, `uExch`, `treeSensHeat`, … of the
canyon object are inputs.  The only transcendental operation (`x ** (1/3)` in the circulation
velocity) is a parameter `rpow`.
-/
import Mathlib.Algebra.Order.Field.Basic

namespace Uwg.Air
variable {K : Type} [Field K] [LinearOrder K] [IsStrictOrderedRing K]

inductive Err where
  | zerodiv | index | fatal
deriving Repr, DecidableEq

/-! ## Urban canyon: `UCMDef.UCModel` -/

/-- What `UCModel` reads of one `BEM[j]`. -/
structure Bld (K : Type) where
  frac : K
  indoorTemp : K      -- `building.indoor_temp`
  tWall : K           -- `wall.layerTemp[0]`
  glazingRatio : K
  uValue : K
  vent : K
  nFloor : K
  infil : K
  sensWaste : K
  solRec : K          -- `wall.solRec`
  shgc : K
  tRoof : K           -- `roof.layerTemp[0]`
  roofSens : K        -- `roof.sens`
  flArea : K
  elecTotal : K       -- `building.ElecTotal`
  gasTotal : K        -- `building.GasTotal`

/-- What `UCModel` reads of the canyon object, the forcing and the parameters. -/
structure UcmIn (K : Type) where
  pres : K
  forcHum : K
  cp : K
  tUbl : K
  canTemp : K         -- old canyon temperature (enters only through the air density)
  canHum : K
  tRoad : K           -- `road.layerTemp[0]`
  aeroCond : K        -- `road.aeroCond` (`h_conv`)
  roadArea : K
  roofArea : K
  facArea : K
  uExch : K
  sensAnthrop : K
  treeSensHeat : K
  bldHeight : K
  hMix : K
  bldDensity : K
  verToHor : K
  qRoof0 : K          -- `Q_roof` on entry (it is accumulated, `urbflux` resets it)

section ucm
variable (u : UcmIn K)

def densDen : K := 1000 * (287042 / 1000000) * u.canTemp * (1 + 1607858 / 1000000 * u.canHum)
def dens : K := u.pres / densDen u
def densUblDen : K := 1000 * (287042 / 1000000) * u.tUbl * (1 + 1607858 / 1000000 * u.forcHum)
def densUbl : K := u.pres / densUblDen u

/-- exchange coefficient road surface ↔ canyon air -/
def wRoad : K := u.aeroCond * u.roadArea
/-- exchange coefficient boundary layer ↔ canyon air -/
def wUbl : K := u.roadArea * u.uExch * u.cp * densUbl u

def aWall (b : Bld K) : K := (1 - b.glazingRatio) * u.facArea
def aWindow (b : Bld K) : K := b.glazingRatio * u.facArea
def wWin (b : Bld K) : K := aWindow u b * b.uValue
def wWall (b : Bld K) : K := aWall u b * u.aeroCond
def wVent (b : Bld K) : K := u.roofArea * b.vent * b.nFloor * u.cp * dens u
def wInfil (b : Bld K) : K := u.roofArea * b.infil * u.bldHeight / 3600 * u.cp * dens u

/-- the building's contribution to `H1` -/
def bldH1 (b : Bld K) : K :=
  b.frac * (b.indoorTemp * aWindow u b * b.uValue + b.tWall * aWall u b * u.aeroCond +
    b.indoorTemp * u.roofArea * b.vent * b.nFloor * u.cp * dens u +
    b.indoorTemp * u.roofArea * b.infil * u.bldHeight / 3600 * u.cp * dens u)

/-- the building's contribution to `H2` -/
def bldH2 (b : Bld K) : K :=
  b.frac * (aWindow u b * b.uValue + aWall u b * u.aeroCond +
    u.roofArea * b.vent * b.nFloor * u.cp * dens u +
    u.roofArea * b.infil * u.bldHeight / 3600 * u.cp * dens u)

/-- the building's heat sources: HVAC waste heat mixed into the canyon and window-reflected sun -/
def bldQ (b : Bld K) : K :=
  b.frac * (u.roofArea * b.sensWaste * u.hMix + aWindow u b * b.solRec * (1 - b.shgc))

def sumH1 : List (Bld K) → K
  | [] => 0
  | b :: bs => bldH1 u b + sumH1 bs
def sumH2 : List (Bld K) → K
  | [] => 0
  | b :: bs => bldH2 u b + sumH2 bs
def sumQ : List (Bld K) → K
  | [] => 0
  | b :: bs => bldQ u b + sumQ bs

def ucH1 (bs : List (Bld K)) : K := u.tRoad * u.aeroCond * u.roadArea + u.tUbl * u.roadArea * u.uExch * u.cp * densUbl u + sumH1 u bs
def ucH2 (bs : List (Bld K)) : K := u.aeroCond * u.roadArea + u.roadArea * u.uExch * u.cp * densUbl u + sumH2 u bs
def ucQ (bs : List (Bld K)) : K := (u.roofArea + u.roadArea) * (u.sensAnthrop + u.treeSensHeat) + sumQ u bs

/-- new canyon temperature `(H1 + Q) / H2` -/
def canTempNew (bs : List (Bld K)) : K := (ucH1 u bs + ucQ u bs) / ucH2 u bs

def sumWallTemp : List (Bld K) → K
  | [] => 0
  | b :: bs => b.frac * b.tWall + sumWallTemp bs
def sumRoofTemp : List (Bld K) → K
  | [] => 0
  | b :: bs => b.frac * b.tRoof + sumRoofTemp bs
/-- first-loop part of `Q_ubl` -/
def sumQubl : List (Bld K) → K
  | [] => 0
  | b :: bs => b.frac * u.bldDensity * (b.roofSens + b.sensWaste * (1 - u.hMix)) + sumQubl bs

/-- second loop: `Q_window` (two statements per building) -/
def sumQwindow (tCan : K) : List (Bld K) → K
  | [] => 0
  | b :: bs =>
    b.frac * u.verToHor * b.glazingRatio * b.uValue * (b.indoorTemp - tCan) +
    b.frac * u.verToHor * b.glazingRatio * b.solRec * (1 - b.shgc) + sumQwindow tCan bs
def sumQvent (tCan : K) : List (Bld K) → K
  | [] => 0
  | b :: bs =>
    b.frac * u.bldDensity * u.cp * dens u * (b.vent * b.nFloor + b.infil * u.bldHeight / 3600) *
      (b.indoorTemp - tCan) + sumQvent tCan bs
def sumQhvac : List (Bld K) → K
  | [] => 0
  | b :: bs => b.frac * u.bldDensity * b.sensWaste * u.hMix + sumQhvac bs
def sumQroof : List (Bld K) → K
  | [] => 0
  | b :: bs => b.frac * u.bldDensity * b.roofSens + sumQroof bs
def sumElec : List (Bld K) → K
  | [] => 0
  | b :: bs => b.flArea * b.elecTotal / 1000000 + sumElec bs
def sumGas : List (Bld K) → K
  | [] => 0
  | b :: bs => b.flArea * b.gasTotal / 1000000 + sumGas bs

end ucm

/-- Attributes of the canyon object after `UCModel`. -/
structure UcmOut (K : Type) where
  canTemp : K
  qRoad : K
  qUbl : K
  qWall : K
  qTraffic : K
  qWindow : K
  qVent : K
  qHvac : K
  qRoof : K
  elecTotal : K
  gasTotal : K
  sensHeat : K
  wallTemp : K
  roofTemp : K

def ucCore (u : UcmIn K) (bs : List (Bld K)) : UcmOut K :=
  let tc := canTempNew u bs
  let wallTemp := sumWallTemp bs
  let qRoad := u.aeroCond * (u.tRoad - tc) * (1 - u.bldDensity)
  let qUbl := sumQubl u bs + u.uExch * u.cp * dens u * (tc - u.tUbl) * (1 - u.bldDensity)
  let qWall := u.aeroCond * (wallTemp - tc) * u.verToHor
  let qWindow := sumQwindow u tc bs
  let qVent := sumQvent u tc bs
  let qHvac := sumQhvac u bs
  let qRoof := u.qRoof0 + sumQroof u bs
  { canTemp := tc, qRoad := qRoad, qUbl := qUbl, qWall := qWall, qTraffic := u.sensAnthrop,
    qWindow := qWindow, qVent := qVent, qHvac := qHvac, qRoof := qRoof,
    elecTotal := sumElec bs, gasTotal := sumGas bs,
    sensHeat := qWall + qRoad + qVent + qWindow + qHvac + u.sensAnthrop + u.treeSensHeat + qRoof,
    wallTemp := wallTemp, roofTemp := sumRoofTemp bs }

/-- `UCModel`: zero divisors (two air densities, `H2`), then the 200..350 K check at the end. -/
def ucGuards (u : UcmIn K) (bs : List (Bld K)) : Option Err :=
  if densDen u = 0 ∨ densUblDen u = 0 then some .zerodiv
  else if ucH2 u bs = 0 then some .zerodiv
  else if canTempNew u bs > 350 ∨ canTempNew u bs < 200 then some .fatal
  else none

def ucModel (u : UcmIn K) (bs : List (Bld K)) : Except Err (UcmOut K) :=
  match ucGuards u bs with
  | some e => .error e
  | none => .ok (ucCore u bs)

/-! ## Urban boundary layer: `UBLDef.ublmodel`, `UBLDef.nightforc` -/

/-- `Σ_{iz < n} xs[iz] * ys[iz]` -/
def dot2 : Nat → List K → List K → K
  | n + 1, x :: xs, y :: ys => x * y + dot2 n xs ys
  | _, _, _ => 0

/-- `Σ_{iz < n} xs[iz] * ys[iz] * zs[iz]` -/
def dot3 : Nat → List K → List K → List K → K
  | n + 1, x :: xs, y :: ys, z :: zs => x * y * z + dot3 n xs ys zs
  | _, _, _, _ => 0

/-- What the boundary-layer routines read of `RSM`. -/
structure Rsm (K : Type) where
  nzref : Nat
  nzfor : Nat
  densityProfC : List K
  dz : List K
  z : List K
  tempProf : List K
  windProf : List K

/-- `1 ≤ nzref, nzfor` and every list long enough for the indices used. Python raises IndexError
    when a list is too short; `nzref = 0` / `nzfor = 0` (never produced by `RSMDef`) would index
    from the end in Python and is excluded here rather than mirrored. -/
def Rsm.wf (r : Rsm K) : Prop :=
  1 ≤ r.nzref ∧ 1 ≤ r.nzfor ∧
  r.nzref ≤ r.densityProfC.length ∧ r.nzref ≤ r.dz.length ∧ r.nzref ≤ r.z.length ∧
  r.nzref ≤ r.tempProf.length ∧ r.nzref ≤ r.windProf.length ∧
  r.nzfor ≤ r.densityProfC.length ∧ r.nzfor ≤ r.dz.length ∧ r.nzfor ≤ r.z.length ∧
  r.nzfor ≤ r.tempProf.length ∧ r.nzfor ≤ r.windProf.length

instance (r : Rsm K) : Decidable r.wf := by unfold Rsm.wf; infer_instance

structure UblIn (K : Type) where
  -- UCM
  sensHeat : K
  qUbl : K
  -- rural, parameter, forc
  ruralSens : K
  cp : K
  circCoeff : K
  g : K
  dayThreshold : K
  windMin : K
  wind : K
  dir : K
  dif : K
  -- simTime
  secDay : K
  dt : K
  -- UBL (self)
  dayBLHeight : K
  nightBLHeight : K
  orthLength : K
  urbArea : K
  perimeter : K
  paralLength : K
  charLength : K
  ublTemp : K
  cells : List K       -- `ublTempdx`
  /-- `int(charLength) // int(paralLength)`, `none` when `int(paralLength) = 0`
      (computed from the rationals by `loopCount`) -/
  count : Option Nat
  rsm : Rsm K

section ubl
variable (rpow : K → K → K) (b : UblIn K)

def refDensDen : K := b.rsm.z.getD (b.rsm.nzref - 1) 0 + b.rsm.dz.getD (b.rsm.nzref - 1) 0 / 2
def forDensDen : K := b.rsm.z.getD (b.rsm.nzfor - 1) 0 + b.rsm.dz.getD (b.rsm.nzfor - 1) 0 / 2
/-- `refDens = Σ_{iz<nzref} densityProfC[iz] * dz[iz] / (z[nzref-1] + dz[nzref-1]/2)` -/
def refDens : K := dot2 b.rsm.nzref b.rsm.densityProfC b.rsm.dz / refDensDen b

def heatDif : K := max (b.sensHeat - b.ruralSens) 0
def vWind : K := max b.wind b.windMin
def hourU : K := b.secDay / 3600
def sunlight : K := b.dir + b.dif
def nearNoon : Prop := -(1 / 10000000000 : K) < hourU b - 12 ∧ hourU b - 12 < 1 / 10000000000
instance : Decidable (nearNoon b) := by unfold nearNoon; infer_instance

def isDay : Prop :=
  (sunlight b > b.dayThreshold ∧ (hourU b < 12 ∨ nearNoon b)) ∨
  (sunlight b > b.dayThreshold ∧ hourU b > 12) ∨ b.sensHeat > 150
instance : Decidable (isDay b) := by unfold isDay; infer_instance

/-! ### day -/
def eqTemp : K := b.rsm.tempProf.getD (b.rsm.nzref - 1) 0
def eqWind : K := b.rsm.windProf.getD (b.rsm.nzref - 1) 0
def csurfDay : K := b.qUbl * b.dt / (b.dayBLHeight * refDens b * b.cp)
def uCirc : K :=
  b.circCoeff * rpow (b.g * heatDif b / b.cp / refDens b / eqTemp b * b.dayBLHeight) (1 / 3)
def forced : Prop := vWind b > uCirc rpow b
instance : Decidable (forced rpow b) := by unfold forced; infer_instance
def advCoefDay : K :=
  if forced rpow b then b.orthLength * eqWind b * b.dt / b.urbArea * (14 / 10)
  else b.perimeter * uCirc rpow b * b.dt / b.urbArea * (14 / 10)
/-- daytime boundary-layer temperature -/
def ublDay : K := (csurfDay b + advCoefDay rpow b * eqTemp b + b.ublTemp) / (1 + advCoefDay rpow b)

/-! ### night -/
def csurfNight : K := b.qUbl * b.dt / (b.nightBLHeight * refDens b * b.cp)
def intAdv1 : K := dot3 b.rsm.nzfor b.rsm.windProf b.rsm.tempProf b.rsm.dz
def intAdv2 : K := dot2 b.rsm.nzfor b.rsm.windProf b.rsm.dz
def advCoef1 : K := 14 / 10 * b.dt / b.paralLength / b.nightBLHeight * intAdv1 b
def advCoef2 : K := 14 / 10 * b.dt / b.paralLength / b.nightBLHeight * intAdv2 b

end ubl

/-- The cell recursion of `nightforc` from cell 1 on: each cell relaxes towards its *updated*
    upwind neighbour. -/
def nightCells (csurf a2 : K) : K → List K → List K
  | _, [] => []
  | prev, c :: cs =>
    (csurf + a2 * prev + c) / (1 + a2) :: nightCells csurf a2 ((csurf + a2 * prev + c) / (1 + a2)) cs

def listSum : List K → K
  | [] => 0
  | x :: xs => x + listSum xs

/-- `UBLDef.nightforc` on its arithmetic arguments: `(ublTemp, ublTempdx)`.
    `n` is the loop bound `int(charLength) // int(paralLength)`; cells from index `n` on are
    neither updated nor summed. `none`: IndexError (no cell, or `n` larger than the list). -/
def nightforc (cells : List K) (n : Nat) (csurf a1 a2 paralLength charLength : K) :
    Option (K × List K) :=
  match cells with
  | [] => none
  | c0 :: rest =>
    if n - 1 > rest.length then none
    else
      let c0' := (csurf + a1 + c0) / (1 + a2)
      let upd := nightCells csurf a2 c0' (rest.take (n - 1))
      some ((c0' + listSum upd) / charLength * paralLength, c0' :: upd ++ rest.drop (n - 1))

structure UblOut (K : Type) where
  ublTemp : K
  cells : List K

section ubl2
variable (rpow : K → K → K) (b : UblIn K)

def ublCore : UblOut K :=
  if isDay b then { ublTemp := ublDay rpow b, cells := b.cells.map (fun _ => ublDay rpow b) }
  else
    match nightforc b.cells (b.count.getD 0) (csurfNight b) (advCoef1 b) (advCoef2 b)
        b.paralLength b.charLength with
    | some (t, cs) => { ublTemp := t, cells := cs }
    | none => { ublTemp := b.ublTemp, cells := b.cells }

/-- Exceptions of `ublmodel`, in program order (one class per stage). -/
def ublGuards : Option Err :=
  if ¬ b.rsm.wf then some .index
  else if refDensDen b = 0 ∨ forDensDen b = 0 then some .zerodiv
  else if isDay b then
    if b.dayBLHeight * refDens b * b.cp = 0 ∨ b.cp = 0 ∨ refDens b = 0 ∨ eqTemp b = 0 ∨
        b.urbArea = 0 ∨ 1 + advCoefDay rpow b = 0 then some .zerodiv
    else none
  else
    if b.nightBLHeight * refDens b * b.cp = 0 ∨ b.paralLength = 0 ∨ b.nightBLHeight = 0 then
      some .zerodiv
    else if b.cells = [] then some .index
    else if 1 + advCoef2 b = 0 then some .zerodiv
    else match b.count with
      | none => some .zerodiv
      | some n =>
        if n - 1 > b.cells.length - 1 then
          -- the loop divides by `1 + advCoef2` (non-zero here) before it runs off the list
          some .index
        else if b.charLength = 0 then some .zerodiv
        else none

def ublModel : Except Err (UblOut K) :=
  match ublGuards rpow b with
  | some e => .error e
  | none => .ok (ublCore rpow b)

end ubl2

/-- `int(charLength) // int(paralLength)` for rationals (`int()` truncates towards zero;
    `//` is floor division of integers; ZeroDivisionError ↦ `none`). -/
def loopCount (charLength paralLength : Rat) : Option Nat :=
  let c : Int := charLength.num.tdiv charLength.den
  let p : Int := paralLength.num.tdiv paralLength.den
  if p = 0 then none else some (c.fdiv p).toNat

end Uwg.Air
