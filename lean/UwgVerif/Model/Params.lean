/-
C06 — model of the UWG parameter object and of every (de)serialisation route except the `.uwg` file
reader (that one is `Model/Reader.lean`):

  * validators of `utilities.py`, the property setters of `UWG` (driven by the regenerated table
    `Gen/ParamTable.lean`), `UWG.__init__`, `from_dict`, `from_param_args`, `to_dict`,
    `_check_reference_data`;
  * `Material`, `Element`, `Building`, `SchDef`, `BEMDef`: constructor validation, `from_dict`, `to_dict`.

Everything mirrors the Python code as it is: a setter that stores the value unchanged (`float_in_range`
returns its argument) stores the `J` unchanged, so `10` stays an `int` and `10.0` a `float`.

Not modelled (the generators stay away from it, see harness/props/c06.py):
  * `int('12')` parsing of digit strings handed to an integer parameter (modelled as ValueError);
  * non-finite floats; non-ASCII text; `str` rows/days where a list is expected.
Core Lean only.
-/
import UwgVerif.Gen.ParamTable

namespace Uwg.C06
open Uwg.Gen

/-! ### reference sets of `utilities.py` -/

def REF_ZONES : List Str :=
  [cs! "1A", cs! "1B", cs! "2A", cs! "2B", cs! "3A", cs! "3B-CA", cs! "3B", cs! "3C", cs! "4A", cs! "4B",
   cs! "4C", cs! "5A", cs! "5B", cs! "5C", cs! "6A", cs! "6B", cs! "7", cs! "8"]

def REF_ERAS : List Str := [cs! "pre80", cs! "pst80", cs! "new"]

def REF_BLDTYPES : List Str :=
  [cs! "fullservicerestaurant", cs! "hospital", cs! "largehotel", cs! "largeoffice", cs! "medoffice",
   cs! "midriseapartment", cs! "outpatient", cs! "primaryschool", cs! "quickservicerestaurant",
   cs! "secondaryschool", cs! "smallhotel", cs! "smalloffice", cs! "standaloneretail", cs! "stripmall",
   cs! "supermarket", cs! "warehouse"]

/-! ### validators (`utilities.py`) -/

/-- Python `int(float)` truncates toward zero. -/
def truncRat (q : Rat) : Int := Int.tdiv q.num q.den

/-- `int(value)` -/
def pyInt : J → Except Err Int
  | .num (.int n) => .ok n
  | .num (.flt q) => .ok (truncRat q)
  | .bool true => .ok 1
  | .bool false => .ok 0
  | .str _ => .error .value
  | _ => .error .type

def inRange (lo : Int) (hi : Option Int) (x : Rat) : Bool :=
  decide ((lo : Rat) ≤ x) && (match hi with | some h => decide (x ≤ (h : Rat)) | none => true)

/-- `float_in_range(value, lo, hi)`: `assert lo <= value <= hi`; returns `value` itself. -/
def checkRange (lo : Int) (hi : Option Int) (v : J) : Except Err J :=
  match numView v with
  | none => .error .type
  | some x => if inRange lo hi x then .ok v else .error .assert

/-- `float_in_range_excl_incl(value, mi=lo)`: `assert lo < value <= inf`. -/
def checkExclMin (lo : Int) (v : J) : Except Err J :=
  match numView v with
  | none => .error .type
  | some x => if (lo : Rat) < x then .ok v else .error .assert

/-- `int_in_range(value, lo, hi)`: `number = int(value)`; assert; returns `number`. -/
def checkIntRange (lo : Int) (hi : Option Int) (v : J) : Except Err J :=
  match pyInt v with
  | .error e => .error e
  | .ok n =>
    if decide (lo ≤ n) && (match hi with | some h => decide (n ≤ h) | none => true)
    then .ok (.num (.int n)) else .error .assert

def isNumber : J → Bool
  | .num _ => true
  | .bool _ => true
  | _ => false

/-- one day of `SchDef.check_week_validity`: `len(day) == 24`, every value an int/float -/
def weekDay : J → Except Err Unit
  | .list xs => if xs.length = 24 ∧ xs.all isNumber then .ok () else .error .assert
  | .str _ => .error .assert
  | .obj _ => .error .assert
  | _ => .error .type

def weekDays : List J → Except Err Unit
  | [] => .ok ()
  | d :: ds => match weekDay d with
               | .error e => .error e
               | .ok () => weekDays ds

/-- `SchDef.check_week_validity(week, name)`; returns `week` itself. -/
def checkWeek (v : J) : Except Err J :=
  match v with
  | .list days =>
    if days.length = 3 then
      match weekDays days with
      | .error e => .error e
      | .ok () => .ok v
    else .error .assert
  | _ => .error .assert

/-- one row of the `bld` setter; returns the fraction -/
def bldRow : J → Except Err Rat
  | .list [t, e, f] =>
    match t, e with
    | .str _, .str es =>
      if lower es ∈ REF_ERAS then
        match numView f with
        | none => .error .type
        | some x => if (0 : Rat) ≤ x ∧ x ≤ 1 then .ok x else .error .assert
      else .error .assert
    | _, _ => .error .assert
  | .list _ => .error .assert
  | _ => .error .type

def bldRows : List J → Rat → Except Err Rat
  | [], tot => .ok tot
  | r :: rs, tot => match bldRow r with
                    | .error e => .error e
                    | .ok x => bldRows rs (tot + x)

def absRat (q : Rat) : Rat := if q < 0 then -q else q

/-- the `bld` setter: rows checked in order, then `abs(total_frac - 1.0) < 1e-2`; stores `value` itself -/
def normBld (v : J) : Except Err J :=
  match v with
  | .list rows =>
    match bldRows rows 0 with
    | .error e => .error e
    | .ok tot => if absRat (tot - 1) < (1 : Rat) / 100 then .ok v else .error .assert
  | _ => .error .assert

/-- state-independent part of a `UWG` property setter: the value that gets stored -/
def norm : Kind → J → Except Err J
  | .intRange lo hi, v => checkIntRange lo (some hi) v
  | .intMin lo, v => checkIntRange lo none v
  | .fltRange lo hi, v => checkRange lo (some hi) v
  | .fltMin lo, v => checkRange lo none v
  | .fltExcl lo, v => checkExclMin lo v
  | .boolNum, v =>
    match v with
    | .bool b => .ok (.bool b)
    | .num x => .ok (.bool (decide (x.val ≠ 0)))
    | _ => .error .assert
  | .zone, v =>
    match v with
    | .str s => if upper s ∈ REF_ZONES then .ok (.str (upper s)) else .error .assert
    | _ => .error .assert
  | .bld, v => normBld v
  | .sch, v => checkWeek v
  | .cover _ _, v => checkRange 0 (some 1) v
  | .opt k, v =>
    match v with
    | .null => .ok .null
    | _ => norm k v
  | .unknown, _ => .error .exc

/-! ### the UWG object: attribute table + custom reference vectors -/

/-- attribute store of a `UWG` instance (`self._x`), keyed by parameter name -/
abbrev St := List (Str × J)

/-- `UWG.__init__`: the optional parameters start as `None`, nothing else is set -/
def initSt : St := initNone.map (fun n => (n, J.null))

def kindOf (n : Str) : Kind := (alookup n setterKinds).getD .unknown

/-- the property setter `self.<name> = v` -/
def setParam (k : Kind) (name : Str) (st : St) (v : J) : Except Err St :=
  match k with
  | .cover a b =>
    match alookup a st, alookup b st with
    | some x, some y =>
      -- both attributes exist: `assert self.a + self.b + value <= 1`
      match numView x, numView y, numView v with
      | some x, some y, some z =>
        if x + y + z ≤ 1 then (norm k v).map (fun v' => aset name v' st) else .error .assert
      | _, _, _ => .error .type
    | _, _ => (norm k v).map (fun v' => aset name v' st)   -- AttributeError: pass
  | _ => (norm k v).map (fun v' => aset name v' st)

/-- `for attr in names: setattr(model, attr, src(attr))` -/
def runSetters (src : Str → Except Err J) : List Str → St → Except Err St
  | [], st => .ok st
  | n :: ns, st =>
    match src n with
    | .error e => .error e
    | .ok v =>
      match setParam (kindOf n) n st v with
      | .error e => .error e
      | .ok st' => runSetters src ns st'

/-- `getattr(self, attr)` for every name of a list (AttributeError if never set) -/
def getAttrs (st : St) : List Str → Except Err (List (Str × J))
  | [] => .ok []
  | n :: ns =>
    match alookup n st with
    | none => .error .attr
    | some v => match getAttrs st ns with
                | .error e => .error e
                | .ok r => .ok ((n, v) :: r)

/-! ### Material -/

structure Material where
  name : J
  thermalcond : J
  volheat : J
  deriving DecidableEq

def Material.make (thermalcond volheat name : J) : Except Err Material :=
  match checkExclMin 0 thermalcond with
  | .error e => .error e
  | .ok tc => match checkExclMin 0 volheat with
              | .error e => .error e
              | .ok vh => .ok ⟨name, tc, vh⟩

/-- `assert data['type'] == T` -/
def checkType (t : Str) (d : J) : Except Err Unit :=
  match d.get (cs! "type") with
  | .error e => .error e
  | .ok ty => if ty = .str t then .ok () else .error .assert

def Material.fromDict (d : J) : Except Err Material := do
  checkType (cs! "Material") d
  let tc ← d.get (cs! "thermalcond")
  let vh ← d.get (cs! "volheat")
  let nm ← d.get (cs! "name")
  Material.make tc vh nm

def Material.toDict (m : Material) : J :=
  .obj [(cs! "type", .str (cs! "Material")), (cs! "name", m.name),
        (cs! "thermalcond", m.thermalcond), (cs! "volheat", m.volheat)]

def Material.fromDicts : List J → Except Err (List Material)
  | [] => .ok []
  | d :: ds => match Material.fromDict d with
               | .error e => .error e
               | .ok m => match Material.fromDicts ds with
                          | .error e => .error e
                          | .ok ms => .ok (m :: ms)

/-! ### Element -/

structure Element where
  albedo : J
  emissivity : J
  thick : J                 -- `layer_thickness_lst`, stored as given
  mats : List Material
  vegcoverage : J
  tInit : J
  horizontal : Bool
  name : J
  deriving DecidableEq

/-- `all(v > 0 for v in value)` -/
def allPositive : List J → Except Err Unit
  | [] => .ok ()
  | v :: vs => match numView v with
               | none => .error .type
               | some x => if (0 : Rat) < x then allPositive vs else .error .assert

def Element.make (albedo emissivity thick : J) (mats : List Material)
    (vegcoverage tInit horizontal name : J) : Except Err Element :=
  match thick with
  | .list ts =>
    if ts.length ≠ mats.length then .error .assert else
    match checkRange 0 none albedo with
    | .error e => .error e
    | .ok al => match checkRange 0 none emissivity with
      | .error e => .error e
      | .ok em => match allPositive ts with
        | .error e => .error e
        | .ok () => match checkRange 0 (some 1) vegcoverage with
          | .error e => .error e
          | .ok vc => match checkRange 0 none tInit with
            | .error e => .error e
            | .ok ti => match pyInt horizontal with
              | .error e => .error e
              | .ok h => .ok ⟨al, em, thick, mats, vc, ti, decide (h ≠ 0), name⟩
  | _ => .error .type

def Element.fromDict (d : J) : Except Err Element := do
  checkType (cs! "Element") d
  let ml ← d.get (cs! "material_lst")
  let mats ← (match ml with
              | .list ms => Material.fromDicts ms
              | _ => .error .type)
  let al ← d.get (cs! "albedo")
  let em ← d.get (cs! "emissivity")
  let th ← d.get (cs! "layer_thickness_lst")
  let vc ← d.get (cs! "vegcoverage")
  let ti ← d.get (cs! "t_init")
  let ho ← d.get (cs! "horizontal")
  let nm ← d.get (cs! "name")
  Element.make al em th mats vc ti ho nm

def Element.toDict (e : Element) : J :=
  .obj [(cs! "type", .str (cs! "Element")), (cs! "albedo", e.albedo), (cs! "emissivity", e.emissivity),
        (cs! "layer_thickness_lst", e.thick),
        (cs! "material_lst", .list (e.mats.map Material.toDict)),
        (cs! "vegcoverage", e.vegcoverage), (cs! "t_init", e.tInit),
        (cs! "horizontal", .bool e.horizontal), (cs! "name", e.name)]

/-! ### Building -/

structure Building where
  floorHeight : J
  intHeatNight : J
  intHeatDay : J            -- plain attribute, never validated
  intHeatFrad : J
  intHeatFlat : J
  infil : J
  vent : J
  glazingRatio : J
  uValue : J
  shgc : J
  condtype : Str
  cop : J
  coolcap : J
  heateff : J
  initialTemp : J
  heatCap : J               -- plain attribute, `999` unless overwritten
  deriving DecidableEq

def CONDTYPES : List Str := [cs! "AIR", cs! "WATER"]

/-- the `condtype` setter: `value.upper()` (AttributeError on a non-string), assert membership -/
def checkCondtype : J → Except Err Str
  | .str s => if upper s ∈ CONDTYPES then .ok (upper s) else .error .assert
  | _ => .error .attr

def Building.make (floorHeight intHeatNight intHeatDay intHeatFrad intHeatFlat infil vent
    glazingRatio uValue shgc condtype cop coolcap heateff initialTemp : J) : Except Err Building := do
  let fh ← checkRange 0 none floorHeight
  let ihn ← checkRange 0 none intHeatNight
  let ifr ← checkRange 0 (some 1) intHeatFrad
  let ifl ← checkRange 0 (some 1) intHeatFlat
  let inf ← checkRange 0 none infil
  let ve ← checkRange 0 none vent
  let gr ← checkRange 0 (some 1) glazingRatio
  let uv ← checkRange 0 none uValue
  let sh ← checkRange 0 (some 1) shgc
  let ct ← checkCondtype condtype
  let cop' ← checkRange 0 none cop
  let cc ← checkRange 0 none coolcap
  let he ← checkRange 0 none heateff
  let it ← checkRange 0 none initialTemp
  pure ⟨fh, ihn, intHeatDay, ifr, ifl, inf, ve, gr, uv, sh, ct, cop', cc, he, it, .num (.int 999)⟩

def Building.fromDict (d : J) : Except Err Building := do
  checkType (cs! "Building") d
  let a1 ← d.get (cs! "floor_height")
  let a2 ← d.get (cs! "int_heat_night")
  let a3 ← d.get (cs! "int_heat_day")
  let a4 ← d.get (cs! "int_heat_frad")
  let a5 ← d.get (cs! "int_heat_flat")
  let a6 ← d.get (cs! "infil")
  let a7 ← d.get (cs! "vent")
  let a8 ← d.get (cs! "glazing_ratio")
  let a9 ← d.get (cs! "u_value")
  let a10 ← d.get (cs! "shgc")
  let a11 ← d.get (cs! "condtype")
  let a12 ← d.get (cs! "cop")
  let a13 ← d.get (cs! "coolcap")
  let a14 ← d.get (cs! "heateff")
  let a15 ← d.get (cs! "initial_temp")
  let b ← Building.make a1 a2 a3 a4 a5 a6 a7 a8 a9 a10 a11 a12 a13 a14 a15
  -- `if 'heat_cap' in data and data['heat_cap'] is not None: bld.heat_cap = data['heat_cap']`
  match d.get (cs! "heat_cap") with
  | .ok .null => pure b
  | .ok hc => pure { b with heatCap := hc }
  | .error _ => pure b

def Building.toDict (b : Building) : J :=
  .obj [(cs! "type", .str (cs! "Building")), (cs! "floor_height", b.floorHeight),
        (cs! "int_heat_night", b.intHeatNight), (cs! "int_heat_day", b.intHeatDay),
        (cs! "int_heat_frad", b.intHeatFrad), (cs! "int_heat_flat", b.intHeatFlat),
        (cs! "infil", b.infil), (cs! "vent", b.vent), (cs! "glazing_ratio", b.glazingRatio),
        (cs! "u_value", b.uValue), (cs! "shgc", b.shgc), (cs! "condtype", .str b.condtype),
        (cs! "cop", b.cop), (cs! "coolcap", b.coolcap), (cs! "heateff", b.heateff),
        (cs! "initial_temp", b.initialTemp), (cs! "heat_cap", b.heatCap)]

/-! ### SchDef -/

structure SchDef where
  elec : J
  gas : J
  light : J
  occ : J
  cool : J
  heat : J
  swh : J
  qElec : J
  qGas : J
  qLight : J
  nOcc : J
  vent : J
  vSwh : J
  bldtype : Str
  builtera : Str
  deriving DecidableEq

/-- the `bldtype` setters: `assert isinstance(value, str), '...'.format(value.lower())` — on a
    non-string the *message* raises AttributeError -/
def checkBldtype : J → Except Err Str
  | .str s => .ok s
  | _ => .error .attr

/-- the `builtera` setters (exact, case-sensitive membership) -/
def checkBuiltera : J → Except Err Str
  | .str s => if s ∈ REF_ERAS then .ok s else .error .assert
  | _ => .error .attr

def SchDef.make (elec gas light occ cool heat qElec qGas qLight nOcc vent bldtype builtera swh vSwh : J) :
    Except Err SchDef := do
  let el ← checkWeek elec
  let ga ← checkWeek gas
  let li ← checkWeek light
  let oc ← checkWeek occ
  let co ← checkWeek cool
  let he ← checkWeek heat
  let qe ← checkRange 0 none qElec
  let qg ← checkRange 0 none qGas
  let ql ← checkRange 0 none qLight
  let no ← checkRange 0 none nOcc
  let ve ← checkRange 0 none vent
  let vs ← checkRange 0 none vSwh
  let sw ← checkWeek swh
  let bt ← checkBldtype bldtype
  let be ← checkBuiltera builtera
  pure ⟨el, ga, li, oc, co, he, sw, qe, qg, ql, no, ve, vs, bt, be⟩

def SchDef.fromDict (d : J) : Except Err SchDef := do
  checkType (cs! "SchDef") d
  let a1 ← d.get (cs! "elec")
  let a2 ← d.get (cs! "gas")
  let a3 ← d.get (cs! "light")
  let a4 ← d.get (cs! "occ")
  let a5 ← d.get (cs! "cool")
  let a6 ← d.get (cs! "heat")
  let a7 ← d.get (cs! "swh")
  let a8 ← d.get (cs! "q_elec")
  let a9 ← d.get (cs! "q_gas")
  let a10 ← d.get (cs! "q_light")
  let a11 ← d.get (cs! "n_occ")
  let a12 ← d.get (cs! "vent")
  let a13 ← d.get (cs! "v_swh")
  let a14 ← d.get (cs! "bldtype")
  let a15 ← d.get (cs! "builtera")
  SchDef.make a1 a2 a3 a4 a5 a6 a8 a9 a10 a11 a12 a14 a15 a7 a13

def SchDef.toDict (s : SchDef) : J :=
  .obj [(cs! "type", .str (cs! "SchDef")), (cs! "elec", s.elec), (cs! "gas", s.gas),
        (cs! "light", s.light), (cs! "occ", s.occ), (cs! "cool", s.cool), (cs! "heat", s.heat),
        (cs! "swh", s.swh), (cs! "q_elec", s.qElec), (cs! "q_gas", s.qGas), (cs! "q_light", s.qLight),
        (cs! "n_occ", s.nOcc), (cs! "vent", s.vent), (cs! "v_swh", s.vSwh),
        (cs! "bldtype", .str s.bldtype), (cs! "builtera", .str s.builtera)]

/-! ### BEMDef -/

structure BEMDef where
  building : Building
  mass : Element
  wall : Element
  roof : Element
  bldtype : Str
  builtera : Str
  deriving DecidableEq

def BEMDef.fromDict (d : J) : Except Err BEMDef := do
  checkType (cs! "BEMDef") d
  let b ← d.get (cs! "building")
  let b ← Building.fromDict b
  let m ← d.get (cs! "mass")
  let m ← Element.fromDict m
  let w ← d.get (cs! "wall")
  let w ← Element.fromDict w
  let r ← d.get (cs! "roof")
  let r ← Element.fromDict r
  let bt ← d.get (cs! "bldtype")
  let be ← d.get (cs! "builtera")
  let bt ← checkBldtype bt
  let be ← checkBuiltera be
  pure ⟨b, m, w, r, bt, be⟩

def BEMDef.toDict (x : BEMDef) : J :=
  .obj [(cs! "type", .str (cs! "BEMDef")), (cs! "building", x.building.toDict),
        (cs! "mass", x.mass.toDict), (cs! "wall", x.wall.toDict), (cs! "roof", x.roof.toDict),
        (cs! "bldtype", .str x.bldtype), (cs! "builtera", .str x.builtera)]

def SchDef.fromDicts : List J → Except Err (List SchDef)
  | [] => .ok []
  | d :: ds => match SchDef.fromDict d with
               | .error e => .error e
               | .ok m => match SchDef.fromDicts ds with
                          | .error e => .error e
                          | .ok ms => .ok (m :: ms)

def BEMDef.fromDicts : List J → Except Err (List BEMDef)
  | [] => .ok []
  | d :: ds => match BEMDef.fromDict d with
               | .error e => .error e
               | .ok m => match BEMDef.fromDicts ds with
                          | .error e => .error e
                          | .ok ms => .ok (m :: ms)

/-! ### UWG -/

structure UWG where
  st : St
  refBem : Option (List BEMDef)
  refSch : Option (List SchDef)

/-- pairwise `assert ref_bem.bldtype == ref_sch.bldtype` / `builtera` over `zip` -/
def refPairs : List BEMDef → List SchDef → Bool
  | b :: bs, s :: ss => decide (b.bldtype = s.bldtype) && decide (b.builtera = s.builtera) && refPairs bs ss
  | _, _ => true

/-- `_check_reference_data` on two lists -/
def checkRef (bem : List BEMDef) (sch : List SchDef) : Except Err Unit :=
  if sch.length ≠ bem.length then .error .assert
  else if refPairs bem sch then .ok () else .error .assert

/-- Python truthiness of an optional list attribute -/
def truthy {α : Type} : Option (List α) → Bool
  | some (_ :: _) => true
  | _ => false

/-- `UWG.to_dict(include_refDOE)` -/
def UWG.toDict (incl : Bool) (m : UWG) : Except Err J :=
  match getAttrs m.st paramList with
  | .error e => .error e
  | .ok ps =>
    let base := (cs! "type", J.str (cs! "UWG")) :: ps
    if incl && truthy m.refBem && truthy m.refSch then
      .ok (.obj (base ++ [(cs! "ref_sch_vector", .list ((m.refSch.getD []).map SchDef.toDict)),
                          (cs! "ref_bem_vector", .list ((m.refBem.getD []).map BEMDef.toDict))]))
    else .ok (.obj base)

/-- `'k' in data and data['k'] is not None` -/
def presentNotNone (k : Str) (d : J) : Bool :=
  match d.get k with
  | .ok .null => false
  | .ok _ => true
  | .error _ => false

/-- the reference-vector tail of `UWG.from_dict`: both present (and not None) or neither -/
def UWG.refsFromDict (d : J) : Except Err (Option (List BEMDef) × Option (List SchDef)) :=
  let hasS := presentNotNone (cs! "ref_sch_vector") d
  let hasB := presentNotNone (cs! "ref_bem_vector") d
  if hasS != hasB then .error .assert
  else if hasS && hasB then do
    let sv ← d.get (cs! "ref_sch_vector")
    let schs ← (match sv with
                | .list xs => SchDef.fromDicts xs
                | _ => .error .type)
    let bv ← d.get (cs! "ref_bem_vector")
    let bems ← (match bv with
                | .list xs => BEMDef.fromDicts xs
                | _ => .error .type)
    checkRef bems schs
    pure (some bems, some schs)
  else pure (none, none)

/-- `UWG.from_dict(data)` -/
def UWG.fromDict (d : J) : Except Err UWG := do
  checkType (cs! "UWG") d
  let st ← runSetters (fun n => d.get n) paramList initSt
  let r ← UWG.refsFromDict d
  pure ⟨st, r.1, r.2⟩

/-- source of the attribute assignments made after `from_param_args` (`m.shgc = 0.3`, ...) -/
def extraSrc (extra : List (Str × J)) (n : Str) : Except Err J :=
  match alookup n extra with
  | some v => .ok v
  | none => .error .key

/-- the `refcheck` of `from_param_args`: both vectors or neither, then `_check_reference_data` -/
def kwRefCheck : Option (List BEMDef) → Option (List SchDef) → Except Err Unit
  | none, none => .ok ()
  | some b, some s => checkRef b s
  | _, _ => .error .assert

/-- `UWG.from_param_args(**kw)` followed by plain attribute assignment of the optional overrides
    listed in `extra` (the keyword route has no arguments for them). `kw` must bind every name of
    `kwargsOrder` (Python fills the defaults before the body runs; the harness passes all of them). -/
def UWG.fromKwargs (kw : J) (extra : List (Str × J)) (refBem : Option (List BEMDef))
    (refSch : Option (List SchDef)) : Except Err UWG :=
  match runSetters (fun n => kw.get n) kwargsOrder initSt with
  | .error e => .error e
  | .ok sa =>
    match kwRefCheck refBem refSch with
    | .error e => .error e
    | .ok () =>
      match runSetters (extraSrc extra) (extra.map (·.1)) sa with
      | .error e => .error e
      | .ok sb => .ok ⟨sb, refBem, refSch⟩

/-- the parameter record of a UWG object: the attribute values in `PARAMETER_LIST` order -/
def UWG.record (m : UWG) : Except Err (List (Str × J)) := getAttrs m.st paramList

end Uwg.C06
