/-
Model of `Element.Conduction` (uwg/element.py): one Crank–Nicolson step (fimp = fexp = 1/2) of
1-D conduction through a layered element, with either a flux boundary (`bc = 1`) or a fixed
deep temperature (`bc = 2`) at the inner face.
-/
import UwgVerif.Model.Tridiag

namespace Uwg
variable {K : Type} [Field K]

/-- One layer: thickness `d`, conductivity `k`, volumetric heat capacity `c`, temperature `t`. -/
structure Layer (K : Type) where
  d : K
  k : K
  c : K
  t : K
deriving Repr

/-- Heat capacity per unit area of a layer (`hcp[j] = hc[j] * d[j]`). -/
def Layer.hcp (l : Layer K) : K := l.c * l.d

/-- Interface conductance between two adjacent layers (`tcp[j] = 2 / (d[j-1]/tc[j-1] + d[j]/tc[j])`). -/
def tcp (l l' : Layer K) : K := 2 / (l.d / l.k + l'.d / l'.k)

/-- Inner boundary condition. -/
inductive BC (K : Type) where
  | flux (flx2 : K)      -- bc = 1
  | deep (temp2 : K)     -- bc = 2
deriving Repr

/-- The generic row of the conduction system for a layer with interface conductances `gin`
    (towards the outer neighbour, whose old temperature is `tprev`) and `gout` (towards the
    inner neighbour, old temperature `tnext`), and external heat supply `extra` (W m-2). -/
def condRow (dt gin gout tprev tnext extra : K) (l : Layer K) : Row K :=
  { a := (1/2) * (-gin)
    b := l.hcp / dt + (1/2) * (gin + gout)
    c := (1/2) * (-gout)
    y := l.hcp / dt * l.t + (1/2) * (gin * tprev - gin * l.t - gout * l.t + gout * tnext) + extra }

/-- Rows of the system, top-down. `gin`, `tprev`, `extra` describe the interface above the head
    layer (`0, 0, flx1` for the first layer). -/
def condRows (dt : K) (bc : BC K) (gin tprev extra : K) : List (Layer K) → List (Row K)
  | [] => []
  | [l] =>
    match bc with
    | .flux flx2 => [condRow dt gin 0 tprev 0 (extra + flx2) l]
    | .deep temp2 => [{ a := 0, b := 1, c := 0, y := temp2 }]
  | l :: l' :: rest =>
    let g := tcp l l'
    condRow dt gin g tprev l'.t extra l :: condRows dt bc g l.t 0 (l' :: rest)

/-- `Element.Conduction(dt, flx1, bc, temp2, flx2)`; `none` where the Python raises IndexError
    (fewer than two layers). -/
def conduction (dt flx1 : K) (bc : BC K) (ls : List (Layer K)) : Option (List K) :=
  if ls.length < 2 then none else some (solve (condRows dt bc 0 0 flx1 ls))

/-- Heat stored per unit area relative to the old temperatures: `Σ c_j d_j (x_j − t_j)`. -/
def storedChange : List (Layer K) → List K → K
  | l :: ls, x :: xs => l.hcp * (x - l.t) + storedChange ls xs
  | _, _ => 0

end Uwg
