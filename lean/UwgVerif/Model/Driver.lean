/-
Model of the step loop of `UWG.simulate` (`uwg/uwg.py`) as far as time, row selection and recording are
concerned, over `Nat`, core Lean only. The physics of a step does not influence any of these quantities
and is left out (the correspondence check runs the real `simulate` with the physics stubbed).

Mirrored code:

* `SimParam.__init__`: `nt = int(round(24*3600*days / dt + 1))`, `timeInitial = int(julian*24) + 8`,
  `timeFinal = int(julian*24 + 24*days - 1 + 8)`; `Weather` reads file rows `timeInitial .. timeFinal`
  (8 header rows included in the count);
* `simulate`: `N = 24*days`, `n = 0`, `for it in range(1, nt)`: ground temperature looked up with the month
  *before* the clock advances; `update_date()`; `ceil_time_step = -(-(it*dt)//3600) - 1`; the ten forcing
  fields are read at that index (`IndexError` if the window has fewer rows); day type from the advanced
  clock; schedules read at `(dayType-1, hourDay)`; `if secDay % timePrint == 0 and n < N:` record slot `n`
  and increment `n` (`timePrint = dtweather = 3600`);
* `write_epw`: slot `iJ` is written to data row `iJ + timeInitial - 8`.
-/
import UwgVerif.Model.Clock

namespace Uwg

/-- `SimParam.nt`. Exact whenever `dt` divides `86400·days` (guaranteed by the constructor's guard
`3600 % dt = 0`); then the float quotient is an integer and `round` is the identity. -/
def nt (dt days : Nat) : Nat := days * 86400 / dt + 1

/-- `ceil_time_step = -(-(it*dt)//3600) - 1`, i.e. `⌈it·dt/3600⌉ − 1`, in integers. Exact for
`it·dt ≥ 1` (Python yields −1 for `it·dt = 0`; the loop starts at `it = 1`). -/
def rowIdx (dt it : Nat) : Nat := (it * dt + 3599) / 3600 - 1

/-- `SimParam.timeInitial` (index into the file *including* its 8 header rows). -/
def timeInitial (M D : Nat) : Nat := (Clock.init M D).julian * 24 + 8

/-- `SimParam.timeFinal`. -/
def timeFinal (M D days : Nat) : Nat := (Clock.init M D).julian * 24 + 24 * days + 8 - 1

/-- Number of rural rows `Weather` hands to the loop: `len(climate_data[HI:HF+1])` with Python slice
semantics, for a file of 8 header rows and `fileRows` data rows. -/
def windowRows (M D days fileRows : Nat) : Nat :=
  min (timeFinal M D days + 1) (fileRows + 8) - min (timeInitial M D) (fileRows + 8)

/-- Data row (0-based, header excluded) that `write_epw` overwrites with record slot `n`. -/
def writeRow (M D n : Nat) : Nat := n + timeInitial M D - 8

/-- What is observable about one pass through the loop body. -/
structure StepTrace where
  it : Nat
  row : Nat          -- ceil_time_step
  secDay : Nat
  hourDay : Nat
  month : Nat
  day : Nat
  julian : Nat
  dayType : Nat
  nBefore : Nat      -- record counter when the step starts
  recorded : Bool    -- the record branch was taken (slot = nBefore)
  monthBefore : Nat  -- month used for the ground-temperature look-up (before `update_date`)
deriving DecidableEq, Repr

inductive DrvErr
  | zerodiv | timestep | index
deriving DecidableEq, Repr

/-- One pass through the loop body: `rows` = number of rural rows in the window (`len(forcIP.temp)`),
`N` = number of record slots. Returns the advanced clock, the record counter and the observation. -/
def drvStep (dt N rows it : Nat) (c : Clock) (n : Nat) : Except DrvErr (Clock × Nat × StepTrace) :=
  match Clock.update dt c with
  | none => .error .timestep
  | some c' =>
    let row := rowIdx dt it
    if rows ≤ row then .error .index
    else
      let rec_ : Bool := decide (c'.secDay % 3600 = 0) && decide (n < N)
      .ok (c', if rec_ then n + 1 else n,
        { it := it, row := row, secDay := c'.secDay, hourDay := c'.hourDay, month := c'.month,
          day := c'.day, julian := c'.julian, dayType := dayType c'.julian, nBefore := n,
          recorded := rec_, monthBefore := c.month })

/-- `steps` passes starting with loop index `it`. -/
def drvLoop (dt N rows : Nat) : Nat → Nat → Clock → Nat → Except DrvErr (List StepTrace)
  | 0, _, _, _ => .ok []
  | steps + 1, it, c, n =>
    match drvStep dt N rows it c n with
    | .error e => .error e
    | .ok (c', n', tr) =>
      match drvLoop dt N rows steps (it + 1) c' n' with
      | .error e => .error e
      | .ok rest => .ok (tr :: rest)

/-- Parameters of a run: timestep, start date, number of days, rural rows available in the window. -/
structure DrvCfg where
  dt : Nat
  M : Nat
  D : Nat
  days : Nat
  rows : Nat

/-- `SimParam(...)` followed by the loop `for it in range(1, nt)` of `simulate`. -/
def driver (cfg : DrvCfg) : Except DrvErr (List StepTrace) :=
  match Clock.create cfg.dt cfg.M cfg.D with
  | .error .zerodiv => .error .zerodiv
  | .error .timestep => .error .timestep
  | .ok c0 => drvLoop cfg.dt (24 * cfg.days) cfg.rows (nt cfg.dt cfg.days - 1) 1 c0 0

/-- Record events `(slot n, loop index it, forcing row)` in the order taken. -/
def records (tr : List StepTrace) : List (Nat × Nat × Nat) :=
  tr.filterMap fun t => if t.recorded then some (t.nBefore, t.it, t.row) else none

/-! ### Data flow into the records and the written file -/

/-- A rural row as far as `simulate` reads it: wind speed and the remaining forcing values. -/
structure Rural (W : Type) where
  wind : W
  other : List W
deriving DecidableEq, Repr

/-- The forcing copied from a rural row: every value verbatim, the wind raised to the minimum wind. -/
def forcing {W : Type} [Max W] (windMin : W) (r : Rural W) : Rural W :=
  { r with wind := max r.wind windMin }

/-- Contents of `WeatherData` after the run, as (slot, stored forcing) in the order stored; the forcing is
the one read at the step's `ceil_time_step` (`none` cannot occur in an `.ok` run: the index was checked). -/
def weatherData {W : Type} [Max W] (windMin : W) (rural : List (Rural W)) (tr : List StepTrace) :
    List (Nat × Option (Rural W)) :=
  (records tr).map fun r => (r.1, (rural[r.2.2]?).map (forcing windMin))

/-- EPW stamp convention (hour-ending): data row `k` of an hourly non-leap file carries the month and day
of day `k / 24` of the year and the hour number `k % 24 + 1` (1..24). -/
def stamp (k : Nat) : Nat × Nat × Nat := ((monthDay (k / 24)).1, (monthDay (k / 24)).2, k % 24 + 1)

end Uwg
