/-
Helper lemmas for C01: decimal digits, round-half-even, `fmtFixed`, the patch loop of `write_epw`.
Core Lean only.
-/
import UwgVerif.Model.Csv

namespace Uwg.Csv

/-! ### digits -/

theorem digitChar_isDigit : ∀ d, d < 10 → (digitChar d).isDigit = true := by decide

theorem digitChar_val : ∀ d, d < 10 → (digitChar d).toNat - 48 = d := by decide

theorem natDigits_lt (n : Nat) (h : n < 10) : natDigits n = [digitChar n] := by
  rw [natDigits]; simp [h]

theorem natDigits_ge (n : Nat) (h : ¬ n < 10) :
    natDigits n = natDigits (n / 10) ++ [digitChar (n % 10)] := by
  rw [natDigits]; simp [h]

theorem natDigits_ne_nil (n : Nat) : natDigits n ≠ [] := by
  by_cases h : n < 10
  · simp [natDigits_lt n h]
  · simp [natDigits_ge n h]

theorem natDigits_isDigit (n : Nat) : ∀ c ∈ natDigits n, c.isDigit = true := by
  induction n using Nat.strongRecOn with
  | _ n ih =>
    by_cases h : n < 10
    · intro c hc
      rw [natDigits_lt n h] at hc
      simp only [List.mem_cons, List.mem_nil_iff, or_false] at hc
      subst hc; exact digitChar_isDigit n h
    · intro c hc
      rw [natDigits_ge n h, List.mem_append] at hc
      rcases hc with hc | hc
      · exact ih (n / 10) (by omega) c hc
      · simp only [List.mem_cons, List.mem_nil_iff, or_false] at hc
        subst hc; exact digitChar_isDigit _ (by omega)

theorem decValue_snoc (l : List Char) (x : Char) :
    decValue (l ++ [x]) = decValue l * 10 + (x.toNat - 48) := by
  simp [decValue, List.foldl_append]

theorem decValue_natDigits (n : Nat) : decValue (natDigits n) = n := by
  induction n using Nat.strongRecOn with
  | _ n ih =>
    by_cases h : n < 10
    · rw [natDigits_lt n h]
      have := decValue_snoc [] (digitChar n)
      simp only [List.nil_append] at this
      rw [this, digitChar_val n h]; simp [decValue]
    · rw [natDigits_ge n h, decValue_snoc, ih (n / 10) (by omega), digitChar_val _ (by omega)]
      omega

theorem fixedDigits_length (k m : Nat) : (fixedDigits k m).length = k := by
  induction k generalizing m with
  | zero => rfl
  | succ k ih => simp [fixedDigits, ih]

theorem fixedDigits_isDigit (k m : Nat) : ∀ c ∈ fixedDigits k m, c.isDigit = true := by
  induction k generalizing m with
  | zero => intro c hc; simp [fixedDigits] at hc
  | succ k ih =>
    intro c hc
    simp only [fixedDigits, List.mem_append, List.mem_cons, List.mem_nil_iff, or_false] at hc
    rcases hc with hc | hc
    · exact ih _ c hc
    · subst hc; exact digitChar_isDigit _ (by omega)

theorem decValue_append_fixed (l : List Char) (k m : Nat) :
    decValue (l ++ fixedDigits k m) = decValue l * 10 ^ k + m % 10 ^ k := by
  induction k generalizing m with
  | zero => simp [fixedDigits, Nat.mod_one]
  | succ k ih =>
    simp only [fixedDigits]
    rw [← List.append_assoc, decValue_snoc, ih, digitChar_val _ (by omega)]
    have e : m % 10 ^ (k + 1) = m % 10 + 10 * (m / 10 % 10 ^ k) := by
      rw [Nat.pow_succ, Nat.mul_comm (10 ^ k) 10, Nat.mod_mul]
    rw [e, Nat.pow_succ, Nat.add_mul, Nat.mul_assoc, Nat.mul_comm (10 ^ k) 10]
    omega

/-! ### rounding -/

theorem roundHalfEven_spec (a den : Nat) (hden : 0 < den) :
    2 * (roundHalfEven a den * den) ≤ 2 * a + den ∧ 2 * a ≤ 2 * (roundHalfEven a den * den) + den ∧
    (2 * (a % den) = den → roundHalfEven a den % 2 = 0) := by
  have hdm := Nat.div_add_mod a den
  have hlt := Nat.mod_lt a hden
  unfold roundHalfEven
  simp only
  have hm : (a / den + 1) * den = den * (a / den) + den := by
    rw [Nat.add_mul, Nat.one_mul, Nat.mul_comm]
  have hm' : a / den * den = den * (a / den) := Nat.mul_comm _ _
  split
  · rename_i h
    rw [hm]
    refine ⟨by omega, by omega, ?_⟩
    intro ht; omega
  · rename_i h
    rw [hm']
    refine ⟨by omega, by omega, ?_⟩
    intro ht; omega

/-! ### fmtFixed -/

/-- Characters that `fmtFixed` can produce. -/
def okChar (c : Char) : Prop := c.isDigit = true ∨ c = '-' ∨ c = '.'

theorem okChar_ne_nl {c : Char} (h : okChar c) : c ≠ '\n' ∧ c ≠ '\r' ∧ c ≠ ',' ∧ c ≠ '"' := by
  rcases h with h | h | h
  · refine ⟨?_, ?_, ?_, ?_⟩ <;> (intro e; subst e; revert h; decide)
  · subst h; decide
  · subst h; decide

theorem fmtFixed_eq (num : Int) (den p : Nat) :
    fmtFixed num den p =
      (if num < 0 then ['-'] else []) ++ natDigits (fmtScaled num den p / 10 ^ p) ++
        (if p = 0 then [] else '.' :: fixedDigits p (fmtScaled num den p % 10 ^ p)) := by
  unfold fmtFixed
  by_cases h : num < 0 <;> simp [h]

theorem fmtFixed_okChar (num : Int) (den p : Nat) : ∀ c ∈ fmtFixed num den p, okChar c := by
  intro c hc
  rw [fmtFixed_eq] at hc
  simp only [List.mem_append] at hc
  rcases hc with (hc | hc) | hc
  · split at hc
    · simp only [List.mem_cons, List.mem_nil_iff, or_false] at hc
      exact Or.inr (Or.inl hc)
    · simp at hc
  · exact Or.inl (natDigits_isDigit _ c hc)
  · split at hc
    · simp at hc
    · simp only [List.mem_cons] at hc
      rcases hc with hc | hc
      · exact Or.inr (Or.inr hc)
      · exact Or.inl (fixedDigits_isDigit _ _ c hc)

/-! ### the patch loop -/

/-- The row after one iteration of the patch loop. -/
def patched (p : Nat) (r : Row) (x : Res) : Row :=
  (((r.set 6 (fmtFrac x.tdb p)).set 7 (fmtFrac x.tdp p)).set 8 (fmtFrac x.rh p)).set 21 (fmtFrac x.wind p)

theorem patchRow_eq (p : Nat) (r : Row) (x : Res) :
    patchRow p r x = if 21 < r.length then some (patched p r x) else none := by
  unfold patchRow setCol patched
  by_cases h : 21 < r.length
  · have h6 : 6 < r.length := by omega
    have h7 : 7 < r.length := by omega
    have h8 : 8 < r.length := by omega
    simp [h, h6, h7, h8, List.length_set]
  · rw [if_neg h]
    by_cases h6 : 6 < r.length
    · by_cases h7 : 7 < r.length
      · by_cases h8 : 8 < r.length
        · simp [h, h6, h7, h8, List.length_set]
        · simp [h6, h7, h8, List.length_set]
      · simp [h6, h7, List.length_set]
    · simp [h6]

theorem patched_length (p : Nat) (r : Row) (x : Res) : (patched p r x).length = r.length := by
  simp [patched, List.length_set]

theorem patched_get (p : Nat) (r : Row) (x : Res) (h : 21 < r.length) (j : Nat) :
    (patched p r x)[j]? =
      if j = 6 then some (fmtFrac x.tdb p) else if j = 7 then some (fmtFrac x.tdp p)
      else if j = 8 then some (fmtFrac x.rh p) else if j = 21 then some (fmtFrac x.wind p)
      else r[j]? := by
  have h6 : 6 < r.length := by omega
  have h7 : 7 < r.length := by omega
  have h8 : 8 < r.length := by omega
  simp only [patched, List.getElem?_set, List.length_set]
  by_cases e21 : j = 21
  · subst e21; simp [h]
  · by_cases e8 : j = 8
    · subst e8; simp [h8]
    · by_cases e7 : j = 7
      · subst e7; simp [h7]
      · by_cases e6 : j = 6
        · subst e6; simp [h6]
        · have a1 : ¬ 21 = j := fun e => e21 e.symm
          have a2 : ¬ 8 = j := fun e => e8 e.symm
          have a3 : ¬ 7 = j := fun e => e7 e.symm
          have a4 : ¬ 6 = j := fun e => e6 e.symm
          simp [a1, a2, a3, a4, e21, e8, e7, e6]

theorem mem_patched {p : Nat} {r : Row} {x : Res} {c : Cell} (h : c ∈ patched p r x) :
    c ∈ r ∨ c = fmtFrac x.tdb p ∨ c = fmtFrac x.tdp p ∨ c = fmtFrac x.rh p ∨ c = fmtFrac x.wind p := by
  unfold patched at h
  rcases List.mem_or_eq_of_mem_set h with h | h
  · rcases List.mem_or_eq_of_mem_set h with h | h
    · rcases List.mem_or_eq_of_mem_set h with h | h
      · rcases List.mem_or_eq_of_mem_set h with h | h
        · exact Or.inl h
        · exact Or.inr (Or.inl h)
      · exact Or.inr (Or.inr (Or.inl h))
    · exact Or.inr (Or.inr (Or.inr (Or.inl h)))
  · exact Or.inr (Or.inr (Or.inr (Or.inr h)))

/-- Row `i` after the whole patch loop, as a function of the input. -/
def patchAt (p : Nat) (rows : List Row) (s : Nat) (res : List Res) (i : Nat) : Option Row :=
  if s ≤ i ∧ i < s + res.length then
    rows[i]?.bind fun r => res[i - s]?.map fun x => patched p r x
  else rows[i]?

theorem patchRows_spec (p : Nat) (res : List Res) : ∀ (rows : List Row) (s : Nat),
    s + res.length ≤ rows.length →
    (∀ i r, s ≤ i → i < s + res.length → rows[i]? = some r → 21 < r.length) →
    ∃ rows', patchRows p rows s res = some rows' ∧ rows'.length = rows.length ∧
      ∀ i, rows'[i]? = patchAt p rows s res i := by
  induction res with
  | nil =>
    intro rows s _ _
    refine ⟨rows, rfl, rfl, ?_⟩
    intro i
    have : ¬ (s ≤ i ∧ i < s + ([] : List Res).length) := by
      simp only [List.length_nil]; omega
    unfold patchAt
    rw [if_neg this]
  | cons x xs ih =>
    intro rows s hw h22
    simp only [List.length_cons] at hw h22
    have hs : s < rows.length := by omega
    have hr : rows[s]? = some rows[s] := List.getElem?_eq_getElem hs
    have hlen : 21 < (rows[s]).length := h22 s _ (Nat.le_refl _) (by omega) hr
    have hw1 : (s + 1) + xs.length ≤ (rows.set s (patched p rows[s] x)).length := by
      rw [List.length_set]; omega
    have h221 : ∀ i r, s + 1 ≤ i → i < s + 1 + xs.length →
        (rows.set s (patched p rows[s] x))[i]? = some r → 21 < r.length := by
      intro i r h1 h2 h3
      have hne : ¬ s = i := by omega
      rw [List.getElem?_set, if_neg hne] at h3
      exact h22 i r (by omega) (by omega) h3
    obtain ⟨rows', h1, h2, h3⟩ := ih (rows.set s (patched p rows[s] x)) (s + 1) hw1 h221
    refine ⟨rows', ?_, ?_, ?_⟩
    · simp only [patchRows, hr, patchRow_eq, hlen, if_true, Option.bind_some]
      exact h1
    · rw [h2, List.length_set]
    · intro i
      rw [h3 i]
      unfold patchAt
      simp only [List.length_cons]
      by_cases hlt : i < s
      · have c1 : ¬ (s + 1 ≤ i ∧ i < s + 1 + xs.length) := by omega
        have c2 : ¬ (s ≤ i ∧ i < s + (xs.length + 1)) := by omega
        have hne : ¬ s = i := by omega
        rw [if_neg c1, if_neg c2, List.getElem?_set, if_neg hne]
      · by_cases heq : i = s
        · subst heq
          have c1 : ¬ (i + 1 ≤ i ∧ i < i + 1 + xs.length) := by omega
          have c2 : (i ≤ i ∧ i < i + (xs.length + 1)) := by omega
          rw [if_neg c1, if_pos c2, List.getElem?_set]
          simp [hs]
        · have hgt : s + 1 ≤ i := by omega
          have hne : ¬ s = i := by omega
          by_cases hin : i < s + 1 + xs.length
          · have c1 : (s + 1 ≤ i ∧ i < s + 1 + xs.length) := ⟨hgt, hin⟩
            have c2 : (s ≤ i ∧ i < s + (xs.length + 1)) := by omega
            rw [if_pos c1, if_pos c2, List.getElem?_set, if_neg hne]
            have e : i - s = (i - (s + 1)) + 1 := by omega
            rw [e, List.getElem?_cons_succ]
          · have c1 : ¬ (s + 1 ≤ i ∧ i < s + 1 + xs.length) := by omega
            have c2 : ¬ (s ≤ i ∧ i < s + (xs.length + 1)) := by omega
            rw [if_neg c1, if_neg c2, List.getElem?_set, if_neg hne]

end Uwg.Csv
