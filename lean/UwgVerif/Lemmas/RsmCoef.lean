import UwgVerif.Model.RsmCoef
import Mathlib.Tactic.Positivity
import Mathlib.Tactic.Linarith

/-!
Helper lemmas for the second part of C16 (`Props/C16Coef.lean`): what a *returned* value of the
monadic model of `dissipation_bougeault`, `length_bougeault`, `diffusion_coefficient` and of the
profile part of `vdm` looks like.
-/

set_option linter.unusedSectionVars false

namespace Uwg.Rsm
open Uwg

/-! ### the exception monad -/
section Basic
variable {α β σ ι : Type}

theorem bind_ok {x : R α} {f : α → R β} {b : β} :
    (x >>= f) = Except.ok b ↔ ∃ a, x = Except.ok a ∧ f a = Except.ok b := by
  cases x with
  | error e => simp [bind, Except.bind]
  | ok a => simp [bind, Except.bind]

theorem pure_ok {a b : α} : (pure a : R α) = Except.ok b ↔ a = b := by
  simp [pure, Except.pure]

theorem idx_ok {l : List α} {i : Nat} {v : α} : idx l i = Except.ok v ↔ l[i]? = some v := by
  unfold idx
  split <;> simp_all

theorem idx_mem {l : List α} {i : Nat} {v : α} (h : idx l i = Except.ok v) : v ∈ l :=
  List.mem_of_getElem? (idx_ok.mp h)

theorem idx_lt {l : List α} {i : Nat} {v : α} (h : idx l i = Except.ok v) : i < l.length := by
  have := idx_ok.mp h
  exact (List.getElem?_eq_some_iff.mp this).1

theorem idxPred_mem {l : List α} {n : Nat} {v : α} (h : idxPred l n = Except.ok v) : v ∈ l := by
  unfold idxPred at h
  split at h
  · split at h
    · rename_i w hw
      cases h
      exact List.mem_of_getLast? hw
    · cases h
  · exact idx_mem h

theorem setC_ok {l l' : List α} {i : Nat} {v : α} :
    setC l i v = Except.ok l' ↔ i < l.length ∧ l' = l.set i v := by
  unfold setC
  split
  · rename_i h
    constructor
    · intro h'; cases h'; exact ⟨h, rfl⟩
    · rintro ⟨_, rfl⟩; rfl
  · rename_i h
    constructor
    · intro h'; cases h'
    · rintro ⟨h', _⟩; exact absurd h' h

theorem foldE_inv {f : σ → ι → R σ} (P : σ → Prop)
    (hf : ∀ s i s', P s → f s i = Except.ok s' → P s') :
    ∀ (l : List ι) (s s' : σ), P s → foldE f s l = Except.ok s' → P s' := by
  intro l
  induction l with
  | nil => intro s s' hs h; simp only [foldE] at h; cases h; exact hs
  | cons i is ih =>
    intro s s' hs h
    simp only [foldE] at h
    split at h
    · cases h
    · rename_i s1 h1
      exact ih s1 s' (hf s i s1 hs h1) h

theorem mapE_forall {f : ι → R β} (Q : β → Prop) :
    ∀ (l : List ι) (bs : List β), (∀ i b, i ∈ l → f i = Except.ok b → Q b) →
      mapE f l = Except.ok bs → ∀ b ∈ bs, Q b := by
  intro l
  induction l with
  | nil => intro bs _ h; simp only [mapE] at h; cases h; simp
  | cons i is ih =>
    intro bs hq h
    simp only [mapE] at h
    split at h
    · cases h
    · rename_i b hb
      split at h
      · cases h
      · rename_i bs' hbs
        cases h
        intro x hx
        rcases List.mem_cons.mp hx with rfl | hx
        · exact hq i _ (List.mem_cons_self) hb
        · exact ih bs' (fun j c hj hc => hq j c (List.mem_cons_of_mem _ hj) hc) hbs x hx

theorem mapE_length {f : ι → R β} :
    ∀ (l : List ι) (bs : List β), mapE f l = Except.ok bs → bs.length = l.length := by
  intro l
  induction l with
  | nil => intro bs h; simp only [mapE] at h; cases h; rfl
  | cons i is ih =>
    intro bs h
    simp only [mapE] at h
    split at h
    · cases h
    · split at h
      · cases h
      · rename_i bs' hbs
        cases h
        simp [ih bs' hbs]

theorem mapE_getElem? {f : ι → R β} :
    ∀ (l : List ι) (bs : List β), mapE f l = Except.ok bs →
      ∀ (k : Nat) (i : ι), l[k]? = some i → ∃ b, f i = Except.ok b ∧ bs[k]? = some b := by
  intro l
  induction l with
  | nil => intro bs _ k i hk; simp at hk
  | cons j js ih =>
    intro bs h k i hk
    simp only [mapE] at h
    split at h
    · cases h
    · rename_i b hb
      split at h
      · cases h
      · rename_i bs' hbs
        cases h
        cases k with
        | zero =>
          simp only [List.getElem?_cons_zero, Option.some.injEq] at hk
          subst hk
          exact ⟨b, hb, by simp⟩
        | succ k =>
          simp only [List.getElem?_cons_succ] at hk
          obtain ⟨b', hb', hk'⟩ := ih bs' hbs k i hk
          exact ⟨b', hb', by simpa using hk'⟩

/-- What `storeLoop` returns: the length is unchanged, entries outside the index list are
    untouched, every entry in the index list holds the value `f` computes for it. -/
theorem storeLoop_spec {f : Nat → R α} :
    ∀ (is : List Nat) (l l' : List α), storeLoop f l is = Except.ok l' →
      l'.length = l.length ∧
      (∀ j, j ∉ is → l'[j]? = l[j]?) ∧
      (∀ j, j ∈ is → ∃ v, f j = Except.ok v ∧ l'[j]? = some v) := by
  intro is
  induction is with
  | nil =>
    intro l l' h
    simp only [storeLoop] at h
    cases h
    simp
  | cons i is ih =>
    intro l l' h
    simp only [storeLoop] at h
    split at h
    · cases h
    · rename_i v hv
      split at h
      · cases h
      · rename_i l1 hl1
        obtain ⟨hi, rfl⟩ := setC_ok.mp hl1
        obtain ⟨hlen, hout, hin⟩ := ih _ _ h
        refine ⟨by simpa using hlen, ?_, ?_⟩
        · intro j hj
          have hji : j ≠ i := fun e => hj (e ▸ List.mem_cons_self)
          have hjis : j ∉ is := fun e => hj (List.mem_cons_of_mem _ e)
          rw [hout j hjis, List.getElem?_set_ne (Ne.symm hji)]
        · intro j hj
          by_cases hjis : j ∈ is
          · exact hin j hjis
          · rcases List.mem_cons.mp hj with rfl | hj'
            · refine ⟨v, hv, ?_⟩
              rw [hout j hjis, List.getElem?_set_self hi]
            · exact absurd hj' hjis

end Basic

variable {K : Type} [Field K] [LinearOrder K] [IsStrictOrderedRing K]

theorem pdiv_ok {a b c : K} : pdiv a b = Except.ok c ↔ b ≠ 0 ∧ c = a / b := by
  unfold pdiv
  split
  · rename_i h
    constructor
    · intro h'; cases h'
    · rintro ⟨h', _⟩; exact absurd h h'
  · rename_i h
    constructor
    · intro h'; cases h'; exact ⟨h, rfl⟩
    · rintro ⟨_, rfl⟩; rfl

theorem psqrt_ok {s : Sym K} {x y : K} : psqrt s x = Except.ok y ↔ 0 ≤ x ∧ y = s.sqrt x := by
  unfold psqrt
  split
  · rename_i h
    constructor
    · intro h'; cases h'
    · rintro ⟨h', _⟩; exact absurd h (not_lt.mpr h')
  · rename_i h
    constructor
    · intro h'; cases h'; exact ⟨not_lt.mp h, rfl⟩
    · rintro ⟨_, rfl⟩; rfl

theorem plog_ok {s : Sym K} {x y : K} : plog s x = Except.ok y ↔ 0 < x ∧ y = s.log x := by
  unfold plog
  split
  · rename_i h
    constructor
    · intro h'; cases h'
    · rintro ⟨h', _⟩; exact absurd h (not_le.mpr h')
  · rename_i h
    constructor
    · intro h'; cases h'; exact ⟨not_le.mp h, rfl⟩
    · rintro ⟨_, rfl⟩; rfl

/-! ### `te`, the two scans, the length scales -/

theorem teProfile_spec {sym : Sym K} {P : Param K} {rho tempRur heatRur ustar lengthRur : K}
    {nz : Nat} {z te : List K}
    (h : teProfile sym P rho tempRur heatRur ustar lengthRur nz z = Except.ok te) :
    te.length = nz ∧ ∀ x ∈ te, 1 / 100 ≤ x := by
  unfold teProfile at h
  split at h
  · simp only [bind_ok] at h
    obtain ⟨a, _, b, _, c, _, d, _, h⟩ := h
    refine ⟨by simpa using mapE_length _ _ h, mapE_forall _ _ _ ?_ h⟩
    intro i x _ hx
    simp only [bind_ok, pure_ok] at hx
    obtain ⟨ziz, _, q, _, rfl⟩ := hx
    exact le_max_right _ _
  · cases h
    refine ⟨by simp, ?_⟩
    intro x hx
    simp only [List.mem_map] at hx
    obtain ⟨_, _, rfl⟩ := hx
    exact le_max_right _ _

theorem upStep_len {sym : Sym K} {beta : K} {dz te pt : List K} {iz izz : Nat} {st st' : Scan K}
    (h : upStep sym beta dz te pt iz st izz = Except.ok st') :
    st'.len = st.len ∨ 1 ≤ st'.len := by
  unfold upStep at h
  simp only [bind_ok] at h
  obtain ⟨dzA, _, dzB, _, ptiz, _, ptA, _, ptB, _, teiz, _, h⟩ := h
  split at h
  · simp only [bind_ok, pure_ok] at h
    obtain ⟨bbb, _, tl, _, rfl⟩ := h
    exact Or.inr (le_max_left _ _)
  · simp only [pure_ok] at h
    subst h
    exact Or.inl rfl

theorem dnStep_len {sym : Sym K} {beta : K} {dz te pt : List K} {iz j : Nat} {st st' : Scan K}
    (h : dnStep sym beta dz te pt iz st j = Except.ok st') :
    st'.len = st.len ∨ 1 ≤ st'.len := by
  unfold dnStep at h
  simp only [bind_ok] at h
  obtain ⟨dzA, _, dzB, _, ptiz, _, ptA, _, ptB, _, teiz, _, h⟩ := h
  split at h
  · simp only [bind_ok, pure_ok] at h
    obtain ⟨bbb, _, tl, _, rfl⟩ := h
    exact Or.inr (le_max_left _ _)
  · simp only [pure_ok] at h
    subst h
    exact Or.inl rfl

/-- A scan either leaves the start value of the length or ends with a value `≥ 1`. -/
theorem scan_len {f : Scan K → Nat → R (Scan K)}
    (hf : ∀ s i s', f s i = Except.ok s' → s'.len = s.len ∨ 1 ≤ s'.len)
    (l : List Nat) (s s' : Scan K) (h : foldE f s l = Except.ok s') :
    s'.len = s.len ∨ 1 ≤ s'.len := by
  refine foldE_inv (fun t => t.len = s.len ∨ 1 ≤ t.len) ?_ l s s' (Or.inl rfl) h
  intro t i t' ht hti
  rcases hf t i t' hti with e | e
  · rw [e]; exact ht
  · exact Or.inr e

/-- `dissipation_bougeault` at one level: `dlu[iz]` is its start value
    `z[nz] - z[iz] - dz[iz]/2` or a value `≥ 1`; `dld[iz]` is `z[iz] + dz[iz]/2` or `≥ 1`. -/
theorem dissipAt_spec {sym : Sym K} {g : K} {nz iz : Nat} {z dz te pt : List K} {r : K × K}
    (h : dissipAt sym g nz z dz te pt iz = Except.ok r) :
    (r.1 = z.getD nz 0 - z.getD iz 0 - dz.getD iz 0 / 2 ∨ 1 ≤ r.1) ∧
    (r.2 = z.getD iz 0 + dz.getD iz 0 / 2 ∨ 1 ≤ r.2) := by
  unfold dissipAt at h
  simp only [bind_ok, pure_ok] at h
  obtain ⟨znz, h1, ziz, h2, dziz, h3, ptiz, _, beta, _, up, hup, dn, hdn, rfl⟩ := h
  have e1 : z.getD nz 0 = znz := by simp [List.getD_eq_getElem?_getD, idx_ok.mp h1]
  have e2 : z.getD iz 0 = ziz := by simp [List.getD_eq_getElem?_getD, idx_ok.mp h2]
  have e3 : dz.getD iz 0 = dziz := by simp [List.getD_eq_getElem?_getD, idx_ok.mp h3]
  rw [e1, e2, e3]
  exact ⟨scan_len (fun s i s' => upStep_len) _ _ _ hup, scan_len (fun s i s' => dnStep_len) _ _ _ hdn⟩

/-- The hypotheses on the vertical grid under which the start values of the two length scales and
    the cap `dlg` are non-negative: the top of every cell `iz < nz` lies below the centre of cell
    `nz`, and cell tops and the mid-points between cell centres lie at non-negative height. -/
structure GridOK (nz : Nat) (z dz : List K) : Prop where
  up : ∀ i, i < nz → 0 ≤ z.getD nz 0 - z.getD i 0 - dz.getD i 0 / 2
  down : ∀ i, i < nz → 0 ≤ z.getD i 0 + dz.getD i 0 / 2
  mid : ∀ i, i < nz → 0 ≤ (z.getD i 0 + z.getD (i + 1) 0) / 2

theorem dissipation_nonneg {sym : Sym K} {g : K} {nz : Nat} {z dz te pt : List K}
    {r : List K × List K} (hg : GridOK nz z dz)
    (h : dissipation sym g nz z dz te pt = Except.ok r) :
    r.1.length = nz ∧ r.2.length = nz ∧ (∀ u ∈ r.1, 0 ≤ u) ∧ (∀ d ∈ r.2, 0 ≤ d) := by
  unfold dissipation at h
  simp only [bind_ok, pure_ok] at h
  obtain ⟨rows, hrows, rfl⟩ := h
  have hl := mapE_length _ _ hrows
  have hq := mapE_forall (fun (p : K × K) => 0 ≤ p.1 ∧ 0 ≤ p.2) _ _ (by
    intro i p hi hp
    have hi' : i < nz := List.mem_range.mp hi
    obtain ⟨h1, h2⟩ := dissipAt_spec hp
    constructor
    · rcases h1 with e | e
      · rw [e]; exact hg.up i hi'
      · linarith
    · rcases h2 with e | e
      · rw [e]; exact hg.down i hi'
      · linarith) hrows
  refine ⟨by simpa using hl, by simpa using hl, ?_, ?_⟩
  · intro u hu
    simp only [List.mem_map] at hu
    obtain ⟨p, hp, rfl⟩ := hu
    exact (hq p hp).1
  · intro d hd
    simp only [List.mem_map] at hd
    obtain ⟨p, hp, rfl⟩ := hd
    exact (hq p hp).2

theorem lengthBougeault_nonneg {sym : Sym K} {nz : Nat} {dld dlu z : List K}
    {r : List K × List K × List K}
    (hz : ∀ i, i < nz → 0 ≤ (z.getD i 0 + z.getD (i + 1) 0) / 2)
    (hd : ∀ d ∈ dld, 0 ≤ d) (hu : ∀ u ∈ dlu, 0 ≤ u)
    (h : lengthBougeault sym nz dld dlu z = Except.ok r) :
    r.2.2.length = nz ∧ ∀ k ∈ r.2.2, 0 ≤ k := by
  unfold lengthBougeault at h
  simp only [bind_ok, pure_ok] at h
  obtain ⟨dlg, hdlg, rows, hrows, rfl⟩ := h
  have hgl : dlg.length = nz := by simpa using mapE_length _ _ hdlg
  have hgq := mapE_forall (fun (x : K) => 0 ≤ x) _ _ (by
    intro i x hi hx
    have hi' : i < nz := List.mem_range.mp hi
    simp only [bind_ok, pure_ok] at hx
    obtain ⟨a, ha, b, hb, rfl⟩ := hx
    have e1 : z.getD i 0 = a := by simp [List.getD_eq_getElem?_getD, idx_ok.mp ha]
    have e2 : z.getD (i + 1) 0 = b := by simp [List.getD_eq_getElem?_getD, idx_ok.mp hb]
    have := hz i hi'
    rwa [e1, e2] at this) hdlg
  have hrl := mapE_length _ _ hrows
  have hq := mapE_forall (fun (t : K × K × K) => 0 ≤ t.2.2) _ _ (by
    intro p t hp ht
    have hp2 : 0 ≤ p.2 := hgq p.2 (List.of_mem_zip hp).2
    unfold lengthAt at ht
    simp only [bind_ok, pure_ok] at ht
    obtain ⟨d, hd', u, hu', s, _, rfl⟩ := ht
    exact le_min (hu u (idx_mem hu')) (le_min (hd d (idx_mem hd')) hp2)) hrows
  refine ⟨by simp [hrl, hgl], ?_⟩
  intro k hk
  simp only [List.mem_map] at hk
  obtain ⟨t, ht, rfl⟩ := hk
  exact hq t ht

/-- `diffusion_coefficient`, when it returns: `te` has `nz` entries, all `≥ 0.01`; `Kt` has
    `nz + 1` entries, all `≥ 0` on an admissible grid when `sqrt` is non-negative on `[0, ∞)`. -/
theorem diffusionCoefficient_spec {sym : Sym K} {P : Param K} {rho z0 disp tempRur heatRur uref : K}
    {z dz th : List K} {nz : Nat} {out : CoefOut K}
    (h : diffusionCoefficient sym P rho z dz z0 disp tempRur heatRur nz uref th = Except.ok out) :
    (out.te.length = nz ∧ ∀ x ∈ out.te, 1 / 100 ≤ x) ∧ out.kt.length = nz + 1 ∧
    ((∀ x, 0 ≤ x → 0 ≤ sym.sqrt x) → GridOK nz z dz → ∀ k ∈ out.kt, 0 ≤ k) := by
  unfold diffusionCoefficient at h
  simp only [bind_ok, pure_ok] at h
  obtain ⟨x, _, lg, _, ustar, _, a, _, b, _, c, _, te, hte, dl, hdl, lb, hlb, kt0, hkt0, last,
    hlast, rfl⟩ := h
  have hT := teProfile_spec hte
  have hk0 : kt0.length = nz := by simpa using mapE_length _ _ hkt0
  refine ⟨hT, by simp [hk0], ?_⟩
  intro hsq hg
  obtain ⟨_, _, hu, hd⟩ := dissipation_nonneg hg hdl
  obtain ⟨_, hk⟩ := lengthBougeault_nonneg hg.mid hd hu hlb
  have hq := mapE_forall (fun (v : K) => 0 ≤ v) _ _ (by
    intro i v _ hv
    unfold ktAt at hv
    simp only [bind_ok, pure_ok] at hv
    obtain ⟨k, hk', t, ht', s, hs, rfl⟩ := hv
    obtain ⟨ht0, rfl⟩ := psqrt_ok.mp hs
    have h1 := hk k (idx_mem hk')
    have h2 := hsq t ht0
    positivity) hkt0
  have hlast' : 0 ≤ last := by
    have := idxPred_mem hlast
    rcases List.mem_append.mp this with m | m
    · exact hq last m
    · simp only [List.mem_singleton] at m; rw [m]
  intro k hk'
  rcases List.mem_append.mp hk' with m | m
  · exact hq k m
  · simp only [List.mem_singleton] at m; rw [m]; exact hlast'

/-! ### the profile part of `vdm` -/

theorem getD_of_idx {l : List K} {i : Nat} {v : K} (h : idx l i = Except.ok v) :
    l.getD i 0 = v := by
  simp [List.getD_eq_getElem?_getD, idx_ok.mp h]

theorem getD_of_getElem? {l : List K} {i : Nat} {v : K} (h : l[i]? = some v) :
    l.getD i 0 = v := by
  simp [List.getD_eq_getElem?_getD, h]

/-- Entries `k ≤ i < n` of a pressure profile of length `n` are positive. -/
def PInv (n k : Nat) (pres : List K) : Prop :=
  pres.length = n ∧ ∀ i, k ≤ i → i < n → 0 < pres.getD i 0

theorem presStep_inv {sym : Sym K} {P : Param K} {fpres : K} {temp dz pres pres' : List K}
    {n m : Nat} (hpow : ∀ a b : K, 0 < a → 0 < b → 0 < sym.rpow a b)
    (hr : 0 < P.r) (hcp : 0 < P.cp) (hg : 0 ≤ P.g) (hf : 0 < fpres)
    (ht : ∀ i, i < n → 0 < temp.getD i 0) (hdz : ∀ i, i < n → 0 < dz.getD i 0)
    (hm : m + 1 < n) (hinv : PInv n (m + 1) pres)
    (h : presStep sym P fpres temp dz pres (m + 1) = Except.ok pres') : PInv n m pres' := by
  unfold presStep at h
  simp only [bind_ok] at h
  obtain ⟨p, hp, k1, hk1, gc, hgc, k2, hk2, t1, ht1, i1, hi1, t0, ht0, i0, hi0, dzi, hdzi, k3, hk3,
    e, he, h⟩ := h
  obtain ⟨_, rfl⟩ := pdiv_ok.mp hk1
  obtain ⟨_, rfl⟩ := pdiv_ok.mp hgc
  obtain ⟨_, rfl⟩ := pdiv_ok.mp hk2
  obtain ⟨_, rfl⟩ := pdiv_ok.mp hi1
  obtain ⟨_, rfl⟩ := pdiv_ok.mp hi0
  obtain ⟨_, rfl⟩ := pdiv_ok.mp hk3
  obtain ⟨_, rfl⟩ := pdiv_ok.mp he
  obtain ⟨_, rfl⟩ := setC_ok.mp h
  have hp0 : 0 < p := by
    have := hinv.2 (m + 1) le_rfl hm
    rwa [getD_of_idx hp] at this
  have ht1' : 0 < t1 := by
    have := ht (m + 1) hm
    rwa [getD_of_idx ht1] at this
  have ht0' : 0 < t0 := by
    have := ht (m + 1 - 1) (by omega)
    rwa [getD_of_idx ht0] at this
  have hdzi' : 0 < dzi := by
    have := hdz (m + 1) hm
    rwa [getD_of_idx hdzi] at this
  have hk : 0 < P.r / P.cp := div_pos hr hcp
  have hA : 0 < sym.rpow p (P.r / P.cp) := hpow _ _ hp0 hk
  have hB : 0 < sym.rpow fpres (P.r / P.cp) := hpow _ _ hf hk
  have hgc' : 0 ≤ P.g / P.cp := div_nonneg hg hcp.le
  have hbase : 0 < sym.rpow p (P.r / P.cp) +
      P.g / P.cp * sym.rpow fpres (P.r / P.cp) * (1 / t1 + 1 / t0) * (1 / 2) * dzi := by
    have : 0 ≤ P.g / P.cp * sym.rpow fpres (P.r / P.cp) * (1 / t1 + 1 / t0) * (1 / 2) * dzi := by
      positivity
    linarith
  have hnew := hpow _ (1 / (P.r / P.cp)) hbase (by positivity)
  refine ⟨by simp [hinv.1], ?_⟩
  intro i hi hin
  simp only [Nat.add_sub_cancel]
  by_cases him : i = m
  · subst him
    rw [List.getD_eq_getElem?_getD, List.getElem?_set_self (by rw [hinv.1]; omega)]
    simpa using hnew
  · rw [List.getD_eq_getElem?_getD, List.getElem?_set_ne (by omega), ← List.getD_eq_getElem?_getD]
    exact hinv.2 i (by omega) hin

theorem presLoop_inv {sym : Sym K} {P : Param K} {fpres : K} {temp dz : List K} {n : Nat}
    (hpow : ∀ a b : K, 0 < a → 0 < b → 0 < sym.rpow a b)
    (hr : 0 < P.r) (hcp : 0 < P.cp) (hg : 0 ≤ P.g) (hf : 0 < fpres)
    (ht : ∀ i, i < n → 0 < temp.getD i 0) (hdz : ∀ i, i < n → 0 < dz.getD i 0) :
    ∀ (m : Nat) (pres pres' : List K), m < n → PInv n m pres →
      foldE (presStep sym P fpres temp dz) pres (List.range' 1 m).reverse = Except.ok pres' →
      PInv n 0 pres' := by
  intro m
  induction m with
  | zero =>
    intro pres pres' _ hinv h
    simp only [List.range'_zero, List.reverse_nil, foldE] at h
    cases h
    exact hinv
  | succ m ih =>
    intro pres pres' hm hinv h
    rw [List.range'_concat, List.reverse_append] at h
    simp only [List.reverse_cons, List.reverse_nil, List.nil_append, List.singleton_append,
      foldE] at h
    split at h
    · cases h
    · rename_i pres1 h1
      have e : 1 + 1 * m = m + 1 := by omega
      rw [e] at h1
      exact ih pres1 pres' (by omega) (presStep_inv hpow hr hcp hg hf ht hdz hm hinv h1) h

/-- Hypotheses under which the profile part of `vdm` produces positive pressures and densities:
    positive gas constants, non-negative gravity, positive forcing temperature and pressure,
    positive old potential temperatures above the lowest level, a positive old top pressure,
    positive grid spacings, and the list lengths the constructor establishes. -/
structure VdmHyp (P : Param K) (nzref : Nat) (dz : List K) (F : Forc K) (st : VdmState K) :
    Prop where
  nz_ge : 1 ≤ nzref
  r_pos : 0 < P.r
  cp_pos : 0 < P.cp
  g_nonneg : 0 ≤ P.g
  ftemp_pos : 0 < F.temp
  fpres_pos : 0 < F.pres
  len_temp : st.tempProf.length = nzref
  len_pres : st.presProf.length = nzref
  len_treal : st.tempRealProf.length = nzref
  len_dC : st.densityProfC.length = nzref
  len_dS : st.densityProfS.length = nzref + 1
  temp_pos : ∀ i, 1 ≤ i → i < nzref → 0 < st.tempProf.getD i 0
  ptop_pos : 0 < st.presProf.getD (nzref - 1) 0
  dz_pos : ∀ i, i ≤ nzref → 0 < dz.getD i 0

/-- Every entry of a list of length `n` that was completely overwritten by a `storeLoop` over
    `range n` satisfies what the stored values satisfy. -/
theorem storeLoop_range_forall {f : Nat → R K} {l l' : List K} {n : Nat} (Q : K → Prop)
    (hl : l.length = n) (h : storeLoop f l (List.range n) = Except.ok l')
    (hq : ∀ j v, j < n → f j = Except.ok v → Q v) : l'.length = n ∧ ∀ x ∈ l', Q x := by
  obtain ⟨hlen, _, hin⟩ := storeLoop_spec _ _ _ h
  refine ⟨by rw [hlen, hl], ?_⟩
  intro x hx
  obtain ⟨j, hj⟩ := List.mem_iff_getElem?.mp hx
  have hjn : j < n := by
    have := (List.getElem?_eq_some_iff.mp hj).1
    omega
  obtain ⟨v, hv, hv'⟩ := hin j (List.mem_range.mpr hjn)
  rw [hj] at hv'
  cases hv'
  exact hq j x hjn hv

theorem getD_pos_of_forall {l : List K} {n i : Nat} (hl : l.length = n) (h : ∀ x ∈ l, 0 < x)
    (hi : i < n) : 0 < l.getD i 0 := by
  have hi' : i < l.length := by omega
  rw [List.getD_eq_getElem?_getD, List.getElem?_eq_getElem hi']
  exact h _ (List.getElem_mem hi')

/-- The profile part of `vdm`, when it returns: the potential temperature keeps its old values
    above the lowest level, which takes the forcing temperature; all list lengths are kept; all
    pressures, real temperatures and densities (centres and interfaces) are positive. -/
theorem vdmProfiles_spec {sym : Sym K} {P : Param K} {nzref : Nat} {dz : List K} {F : Forc K}
    {st : VdmState K} {r : List K × List K × List K × List K × List K}
    (hpow : ∀ a b : K, 0 < a → 0 < b → 0 < sym.rpow a b) (H : VdmHyp P nzref dz F st)
    (h : vdmProfiles sym P nzref dz F st = Except.ok r) :
    r.1 = st.tempProf.set 0 F.temp ∧
    (r.2.1.length = nzref ∧ ∀ x ∈ r.2.1, 0 < x) ∧
    (r.2.2.1.length = nzref ∧ ∀ x ∈ r.2.2.1, 0 < x) ∧
    (r.2.2.2.1.length = nzref ∧ ∀ x ∈ r.2.2.2.1, 0 < x) ∧
    (r.2.2.2.2.length = nzref + 1 ∧ ∀ x ∈ r.2.2.2.2, 0 < x) := by
  unfold vdmProfiles at h
  simp only [bind_ok, pure_ok] at h
  obtain ⟨temp, htemp, pres, hpres, treal, htreal, dC, hdC, c0, hc0, dS0, hdS0, dS1, hdS1, cl, hcl,
    dS, hdS, rfl⟩ := h
  obtain ⟨_, rfl⟩ := setC_ok.mp htemp
  have n1 := H.nz_ge
  -- temperatures
  have ht : ∀ i, i < nzref → 0 < (st.tempProf.set 0 F.temp).getD i 0 := by
    intro i hi
    by_cases h0 : i = 0
    · subst h0
      rw [List.getD_eq_getElem?_getD, List.getElem?_set_self (by rw [H.len_temp]; omega)]
      simpa using H.ftemp_pos
    · rw [List.getD_eq_getElem?_getD, List.getElem?_set_ne (by omega), ← List.getD_eq_getElem?_getD]
      exact H.temp_pos i (by omega) hi
  -- pressures
  have hP : PInv nzref 0 pres := by
    refine presLoop_inv hpow H.r_pos H.cp_pos H.g_nonneg H.fpres_pos ht
      (fun i hi => H.dz_pos i (by omega)) (nzref - 1) st.presProf pres (by omega) ?_ hpres
    refine ⟨H.len_pres, ?_⟩
    intro i hi hin
    have : i = nzref - 1 := by omega
    rw [this]; exact H.ptop_pos
  have hk : 0 < P.r / P.cp := div_pos H.r_pos H.cp_pos
  have hPall : ∀ x ∈ pres, 0 < x := by
    intro x hx
    obtain ⟨j, hj⟩ := List.mem_iff_getElem?.mp hx
    have hjn : j < nzref := by
      have := (List.getElem?_eq_some_iff.mp hj).1
      rw [hP.1] at this; exact this
    have := hP.2 j (Nat.zero_le _) hjn
    rwa [getD_of_getElem? hj] at this
  -- real temperatures
  obtain ⟨hTl, hT⟩ := storeLoop_range_forall (fun x => 0 < x) H.len_treal htreal (by
    intro j v hj hv
    unfold realVal at hv
    simp only [bind_ok, pure_ok] at hv
    obtain ⟨t, ht', p, hp', q, hq, k, hk', rfl⟩ := hv
    obtain ⟨_, rfl⟩ := pdiv_ok.mp hq
    obtain ⟨_, rfl⟩ := pdiv_ok.mp hk'
    have h1 : 0 < t := by
      have := ht j hj
      rwa [getD_of_idx ht'] at this
    have h2 : 0 < p := hPall p (idx_mem hp')
    exact mul_pos h1 (hpow _ _ (div_pos h2 H.fpres_pos) hk))
  -- densities at cell centres
  obtain ⟨hCl, hC⟩ := storeLoop_range_forall (fun x => 0 < x) H.len_dC hdC (by
    intro j v hj hv
    unfold densCVal at hv
    simp only [bind_ok] at hv
    obtain ⟨p, hp', a, ha, t, ht', hv⟩ := hv
    obtain ⟨_, rfl⟩ := pdiv_ok.mp ha
    obtain ⟨_, rfl⟩ := pdiv_ok.mp hv
    exact div_pos (div_pos (hPall p (idx_mem hp')) H.r_pos) (hT t (idx_mem ht')))
  -- densities at interfaces
  obtain ⟨h0l, rfl⟩ := setC_ok.mp hdS0
  obtain ⟨hS1len, hS1out, hS1in⟩ := storeLoop_spec _ _ _ hdS1
  obtain ⟨hnl, rfl⟩ := setC_ok.mp hdS
  have hS1len' : dS1.length = nzref + 1 := by rw [hS1len]; simp [H.len_dS]
  refine ⟨rfl, ⟨hP.1, hPall⟩, ⟨hTl, hT⟩, ⟨hCl, hC⟩, by simp [hS1len'], ?_⟩
  intro x hx
  obtain ⟨j, hj⟩ := List.mem_iff_getElem?.mp hx
  have hjn : j < nzref + 1 := by
    have := (List.getElem?_eq_some_iff.mp hj).1
    simpa [hS1len'] using this
  by_cases hjtop : j = nzref
  · subst hjtop
    rw [List.getElem?_set_self (by omega)] at hj
    cases hj
    exact hC _ (idxPred_mem hcl)
  · rw [List.getElem?_set_ne (by omega)] at hj
    by_cases hj0 : j = 0
    · subst hj0
      rw [hS1out 0 (by simp), List.getElem?_set_self (by omega)] at hj
      cases hj
      exact hC _ (idx_mem hc0)
    · obtain ⟨v, hv, hv'⟩ := hS1in j (by
        rw [List.mem_range'_1]; omega)
      rw [hj] at hv'
      cases hv'
      unfold densSVal at hv
      simp only [bind_ok] at hv
      obtain ⟨c1, hc1, z0, hz0, c0', hc0', z1, hz1, hv⟩ := hv
      obtain ⟨_, rfl⟩ := pdiv_ok.mp hv
      have p1 := hC c1 (idx_mem hc1)
      have p0 := hC c0' (idx_mem hc0')
      have q0 : 0 < z0 := by
        have := H.dz_pos (j - 1) (by omega)
        rwa [getD_of_idx hz0] at this
      have q1 : 0 < z1 := by
        have := H.dz_pos j (by omega)
        rwa [getD_of_idx hz1] at this
      positivity

/-! ### index-level description of `Kt` -/

/-- `length_bougeault`, when it returns: `dld[iz]` becomes `min(dld[iz], (z[iz]+z[iz+1])/2)` and
    `dlk[iz] = min(dlu[iz], new dld[iz])` for every `iz < nz`. -/
theorem lengthBougeault_spec {sym : Sym K} {nz : Nat} {dld dlu z : List K}
    {r : List K × List K × List K} (h : lengthBougeault sym nz dld dlu z = Except.ok r) :
    ∀ i, i < nz →
      r.1.getD i 0 = min (dld.getD i 0) ((z.getD i 0 + z.getD (i + 1) 0) / 2) ∧
      r.2.2.getD i 0 = min (dlu.getD i 0) (r.1.getD i 0) := by
  unfold lengthBougeault at h
  simp only [bind_ok, pure_ok] at h
  obtain ⟨dlg, hdlg, rows, hrows, rfl⟩ := h
  have hgl : dlg.length = nz := by simpa using mapE_length _ _ hdlg
  have hrl : rows.length = nz := by
    have := mapE_length _ _ hrows
    simpa [hgl] using this
  intro i hi
  obtain ⟨gI, hgI, hgI'⟩ := mapE_getElem? _ _ hdlg i i (by simp [hi])
  simp only [bind_ok, pure_ok] at hgI
  obtain ⟨a, ha, b, hb, rfl⟩ := hgI
  obtain ⟨t, ht, ht'⟩ := mapE_getElem? _ _ hrows i (i, (a + b) / 2) (by
    rw [List.getElem?_zip_eq_some]
    exact ⟨by simp [hi], hgI'⟩)
  unfold lengthAt at ht
  simp only [bind_ok, pure_ok] at ht
  obtain ⟨d, hd, u, hu, s, _, rfl⟩ := ht
  have e1 : (List.map (fun x => x.1) rows ++ List.drop nz dld).getD i 0 =
      min d ((a + b) / 2) := by
    rw [List.getD_eq_getElem?_getD, List.getElem?_append_left (by simp [hrl, hi])]
    simp [ht']
  have e2 : (List.map (fun x => x.2.2) rows).getD i 0 = min u (min d ((a + b) / 2)) := by
    rw [List.getD_eq_getElem?_getD]
    simp [ht']
  dsimp only
  rw [e1, e2, getD_of_idx hd, getD_of_idx hu, getD_of_idx ha, getD_of_idx hb]
  exact ⟨rfl, rfl⟩

/-- `diffusion_coefficient`, when it returns, index by index: with `dlu`, `dld` the length
    profiles it leaves on the object, `Kt[iz] = 0.4 * min(dlu[iz], dld[iz]) * sqrt(te[iz])` and
    `dld[iz] ≤ (z[iz] + z[iz+1])/2` for `iz < nz`; `Kt[nz] = Kt[nz-1]` for `nz ≥ 1`. -/
theorem diffusionCoefficient_formula {sym : Sym K} {P : Param K}
    {rho z0 disp tempRur heatRur uref : K} {z dz th : List K} {nz : Nat} {out : CoefOut K}
    (h : diffusionCoefficient sym P rho z dz z0 disp tempRur heatRur nz uref th = Except.ok out) :
    (∀ i, i < nz →
      out.kt.getD i 0 =
        2 / 5 * min (out.dlu.getD i 0) (out.dld.getD i 0) * sym.sqrt (out.te.getD i 0) ∧
      out.dld.getD i 0 ≤ (z.getD i 0 + z.getD (i + 1) 0) / 2) ∧
    (1 ≤ nz → out.kt.getD nz 0 = out.kt.getD (nz - 1) 0) := by
  unfold diffusionCoefficient at h
  simp only [bind_ok, pure_ok] at h
  obtain ⟨x, _, lg, _, ustar, _, a, _, b, _, c, _, te, hte, dl, hdl, lb, hlb, kt0, hkt0, last,
    hlast, rfl⟩ := h
  have hk0 : kt0.length = nz := by simpa using mapE_length _ _ hkt0
  have hspec := lengthBougeault_spec hlb
  constructor
  · intro i hi
    obtain ⟨v, hv, hv'⟩ := mapE_getElem? _ _ hkt0 i i (by simp [hi])
    unfold ktAt at hv
    simp only [bind_ok, pure_ok] at hv
    obtain ⟨k, hk, t, ht, s, hs, rfl⟩ := hv
    obtain ⟨_, rfl⟩ := psqrt_ok.mp hs
    obtain ⟨s1, s2⟩ := hspec i hi
    dsimp only
    constructor
    · rw [List.getD_eq_getElem?_getD, List.getElem?_append_left (by omega), hv']
      rw [← s2, getD_of_idx hk, getD_of_idx ht]
      rfl
    · rw [s1]; exact min_le_right _ _
  · intro h1
    dsimp only
    obtain ⟨m, rfl⟩ : ∃ m, nz = m + 1 := ⟨nz - 1, by omega⟩
    simp only [idxPred] at hlast
    have hm : m < kt0.length := by omega
    have e : (kt0 ++ [0])[m]? = kt0[m]? := List.getElem?_append_left hm
    have hl := idx_ok.mp hlast
    rw [e] at hl
    rw [List.getD_eq_getElem?_getD, List.getElem?_append_right (by omega)]
    simp only [Nat.add_sub_cancel]
    rw [List.getD_eq_getElem?_getD, List.getElem?_append_left hm, hl]
    simp [hk0]

end Uwg.Rsm
