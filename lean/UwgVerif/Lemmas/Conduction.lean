import UwgVerif.Model.Conduction
import UwgVerif.Lemmas.Tridiag
import Mathlib.Tactic.Positivity

namespace Uwg
variable {K : Type} [Field K]

/-- Uniqueness: any solution of a system with non-vanishing pivots is the one `fwd ∘ elim` returns. -/
theorem sat_unique (rs : List (Row K)) (hp : Pivots rs) (xprev : K) (xs : List K)
    (h : Sat xprev rs xs) : xs = fwd xprev (elim rs) := by
  induction rs generalizing xprev xs with
  | nil =>
    cases xs with
    | nil => simp [elim, fwd]
    | cons x xs => simp [Sat] at h
  | cons r rs ih =>
    cases xs with
    | nil => simp [Sat] at h
    | cons x xs =>
      obtain ⟨heq, hsat⟩ := h
      have hp' := hp.tail
      have hxs := ih hp' x xs hsat
      have hpr := hp
      unfold Pivots at hpr
      unfold elim at hpr ⊢
      split
      · rename_i he
        have : rs = [] := by
          cases rs with
          | nil => rfl
          | cons q qs => exact absurd he (elim_ne_nil q qs)
        subst this
        rw [he] at hpr
        have hb : r.b ≠ 0 := hpr r (by simp)
        cases xs with
        | nil =>
          simp only [fwd, List.cons.injEq, and_true]
          simp only [List.headD_nil, mul_zero, add_zero] at heq
          field_simp
          linear_combination heq
        | cons x' xs' => simp [Sat] at hsat
      · rename_i r' rs' he
        rw [he] at hpr hxs
        have hb' : r'.b ≠ 0 := hpr r' (by simp)
        have hb : r.b - r.c * r'.a / r'.b ≠ 0 :=
          hpr { r with b := r.b - r.c * r'.a / r'.b, y := r.y - r.c * r'.y / r'.b } (by simp)
        simp only [fwd] at hxs ⊢
        have hx : x = (r.y - r.c * r'.y / r'.b - r.a * xprev) / (r.b - r.c * r'.a / r'.b) := by
          rw [hxs] at heq
          simp only [List.headD_cons] at heq
          rw [eq_div_iff hb]
          field_simp at heq ⊢
          linear_combination heq
        rw [← hx]
        rw [hxs]

theorem sat_unique_solve (rs : List (Row K)) (hp : Pivots rs) (xs : List K)
    (h : Sat 0 rs xs) : xs = solve rs := sat_unique rs hp 0 xs h

theorem condRows_ne_nil (dt : K) (bc : BC K) (gin tprev extra : K) (l : Layer K)
    (ls : List (Layer K)) : condRows dt bc gin tprev extra (l :: ls) ≠ [] := by
  cases ls with
  | nil => cases bc <;> simp [condRows]
  | cons l' rest => simp [condRows]

theorem condRows_length (dt : K) (bc : BC K) (gin tprev extra : K) (ls : List (Layer K)) :
    (condRows dt bc gin tprev extra ls).length = ls.length := by
  induction ls generalizing gin tprev extra with
  | nil => simp [condRows]
  | cons l ls ih =>
    cases ls with
    | nil => cases bc <;> simp [condRows]
    | cons l' rest => simp only [condRows, List.length_cons]; rw [ih]; simp

/-- Telescoping lemma, flux boundary: the stored-energy change of the listed layers equals
    `dt` × (heat supplied from outside + conductive inflow through the interface above). -/
theorem energy_flux_aux (dt flx2 : K) (hdt : dt ≠ 0) (rest : List (Layer K)) :
    ∀ (l : Layer K) (gin tprev extra xprev x : K) (xs : List K),
      Sat xprev (condRows dt (.flux flx2) gin tprev extra (l :: rest)) (x :: xs) →
      storedChange (l :: rest) (x :: xs) =
        dt * (extra + flx2 + (1/2) * gin * ((xprev - x) + (tprev - l.t))) := by
  induction rest with
  | nil =>
    intro l gin tprev extra xprev x xs h
    simp only [condRows, Sat] at h
    cases xs with
    | cons x' xs' => simp [Sat] at h
    | nil =>
      obtain ⟨heq, _⟩ := h
      simp only [condRow, List.headD_nil, mul_zero, add_zero, Layer.hcp] at heq
      simp only [storedChange, Layer.hcp, add_zero]
      field_simp at heq ⊢
      linear_combination heq
  | cons l' rest' ih =>
    intro l gin tprev extra xprev x xs h
    simp only [condRows] at h
    cases xs with
    | nil =>
      obtain ⟨_, h2⟩ := h
      have := condRows_ne_nil dt (.flux flx2) (tcp l l') l.t 0 l' rest'
      cases hc : condRows dt (.flux flx2) (tcp l l') l.t 0 (l' :: rest') with
      | nil => exact absurd hc this
      | cons q qs => rw [hc] at h2; simp [Sat] at h2
    | cons x' xs' =>
      obtain ⟨heq, hsat⟩ := h
      have ih' := ih l' (tcp l l') l.t 0 x x' xs' hsat
      simp only [storedChange] at ih' ⊢
      rw [ih']
      simp only [condRow, List.headD_cons, Layer.hcp] at heq
      simp only [Layer.hcp]
      field_simp at heq ⊢
      linear_combination heq

/-- Conductive heat flow (W m-2, Crank–Nicolson mean of old and new profile) from the
    second-to-last layer into the last (deep) layer. -/
def deepFlux : List (Layer K) → List K → K
  | [l, l'], [x, x'] => tcp l l' * ((1/2) * (x - x') + (1/2) * (l.t - l'.t))
  | _ :: l' :: l'' :: ls, _ :: x' :: xs => deepFlux (l' :: l'' :: ls) (x' :: xs)
  | _, _ => 0

/-- Telescoping lemma, deep-temperature boundary. -/
theorem energy_deep_aux (dt temp2 : K) (hdt : dt ≠ 0) (rest : List (Layer K)) :
    ∀ (l l' : Layer K) (gin tprev extra xprev x : K) (xs : List K),
      Sat xprev (condRows dt (.deep temp2) gin tprev extra (l :: l' :: rest)) (x :: xs) →
      storedChange ((l :: l' :: rest).dropLast) (x :: xs) =
        dt * (extra + (1/2) * gin * ((xprev - x) + (tprev - l.t))
              - deepFlux (l :: l' :: rest) (x :: xs)) ∧
      (x :: xs).getLast? = some temp2 := by
  induction rest with
  | nil =>
    intro l l' gin tprev extra xprev x xs h
    simp only [condRows, Sat] at h
    cases xs with
    | nil => simp [Sat] at h
    | cons x' xs' =>
      cases xs' with
      | cons x'' xs'' => simp [Sat] at h
      | nil =>
        obtain ⟨heq, hlast, _⟩ := h
        simp only [List.headD_nil, mul_zero, add_zero, zero_mul, zero_add, one_mul] at hlast
        simp only [condRow, List.headD_cons, Layer.hcp] at heq
        refine ⟨?_, by simp [hlast]⟩
        simp only [List.dropLast, storedChange, deepFlux, Layer.hcp, add_zero]
        field_simp at heq ⊢
        linear_combination heq
  | cons l'' rest' ih =>
    intro l l' gin tprev extra xprev x xs h
    simp only [condRows] at h
    cases xs with
    | nil =>
      obtain ⟨_, h2⟩ := h
      simp [Sat] at h2
    | cons x' xs' =>
      obtain ⟨heq, hsat⟩ := h
      have ih' := ih l' l'' (tcp l l') l.t 0 x x' xs'
        (by simpa only [condRows] using hsat)
      obtain ⟨ihE, ihL⟩ := ih'
      refine ⟨?_, ?_⟩
      · have hdl : (l :: l' :: l'' :: rest').dropLast = l :: (l' :: l'' :: rest').dropLast := by
          simp [List.dropLast]
        rw [hdl]
        simp only [storedChange]
        rw [ihE]
        simp only [deepFlux]
        simp only [condRow, List.headD_cons, Layer.hcp] at heq
        simp only [Layer.hcp]
        field_simp at heq ⊢
        linear_combination heq
      · rw [List.getLast?_cons_cons]; exact ihL

section Ordered
variable [LinearOrder K] [IsStrictOrderedRing K]

/-- Physical admissibility of a layering. -/
def PosLayers (ls : List (Layer K)) : Prop := ∀ l ∈ ls, 0 < l.d ∧ 0 < l.k ∧ 0 < l.c

theorem tcp_pos {l l' : Layer K} (h : 0 < l.d ∧ 0 < l.k ∧ 0 < l.c)
    (h' : 0 < l'.d ∧ 0 < l'.k ∧ 0 < l'.c) : 0 < tcp l l' := by
  unfold tcp
  obtain ⟨hd, hk, _⟩ := h
  obtain ⟨hd', hk', _⟩ := h'
  positivity

theorem condRow_mrow (dt gin gout tprev tnext extra : K) (l : Layer K) (hdt : 0 < dt)
    (hl : 0 < l.d ∧ 0 < l.k ∧ 0 < l.c) (hgin : 0 ≤ gin) (hgout : 0 ≤ gout) :
    MRow (condRow dt gin gout tprev tnext extra l) := by
  obtain ⟨hd, hk, hc⟩ := hl
  have hh : 0 < l.hcp / dt := by unfold Layer.hcp; positivity
  unfold MRow condRow
  simp only
  refine ⟨by linarith, by linarith, by linarith, by linarith⟩

/-- Every conduction system over physically admissible layers consists of `MRow`s. -/
theorem condRows_mrows (dt : K) (bc : BC K) (hdt : 0 < dt) (ls : List (Layer K)) :
    ∀ (gin tprev extra : K), 0 ≤ gin → PosLayers ls →
      ∀ r ∈ condRows dt bc gin tprev extra ls, MRow r := by
  induction ls with
  | nil => intro _ _ _ _ _ r hr; simp [condRows] at hr
  | cons l ls ih =>
    intro gin tprev extra hgin hpos r hr
    have hl := hpos l (by simp)
    cases ls with
    | nil =>
      cases bc with
      | flux flx2 =>
        simp only [condRows, List.mem_singleton] at hr
        subst hr
        exact condRow_mrow dt gin 0 tprev 0 _ l hdt hl hgin le_rfl
      | deep temp2 =>
        simp only [condRows, List.mem_singleton] at hr
        subst hr
        unfold MRow; simp
    | cons l' rest =>
      have hl' := hpos l' (by simp)
      have hg := tcp_pos hl hl'
      simp only [condRows, List.mem_cons] at hr
      rcases hr with rfl | hr
      · exact condRow_mrow dt gin _ tprev _ _ l hdt hl hgin hg.le
      · exact ih (tcp l l') l.t 0 hg.le (fun q hq => hpos q (List.mem_cons_of_mem _ hq)) r
          (by simpa only [condRows, List.mem_cons] using hr)

end Ordered
end Uwg
