import UwgVerif.Model.Diffusion
import UwgVerif.Lemmas.Conduction
import Mathlib.Tactic.Positivity

/-!
Helper lemmas for C16.

* `elim_erow`, `fwd_bounded`, `solve_bounded`: the discrete maximum principle, proved along the
  solver itself. If every row `(a, b, c | y)` has `a, c ≤ 0`, row sum `s = a+b+c ≥ 0`, `b+c > 0`
  and `m·s ≤ y ≤ M·s`, then after the bottom-up elimination every row `(a, b' | y')` satisfies
  `a ≤ 0 < b'`, `a + b' ≥ 0`, `m·(a+b') ≤ y' ≤ M·(a+b')`, i.e. the forward substitution
  `x = (y' + |a|·xprev)/b'` is a convex combination of `xprev` and a value in `[m, M]`.
* `interior_top`, `interior_telescope`: top boundary row and the telescoping heat sum.
* guard lemmas for `pyChecks` / `firstErr` / `solveChecked`, and the index plumbing between the
  level list and the raw input lists.
-/

namespace Uwg
variable {K : Type} [Field K]

/-! ### shape of `elim` -/

theorem elim_cons_shape (r : Row K) (rs : List (Row K)) :
    ∃ r'', elim (r :: rs) = r'' :: elim rs ∧ r''.a = r.a := by
  cases h : elim rs with
  | nil => exact ⟨r, by simp [elim, h], rfl⟩
  | cons r' rs' =>
    exact ⟨{ r with b := r.b - r.c * r'.a / r'.b, y := r.y - r.c * r'.y / r'.b },
      by simp [elim, h], rfl⟩

theorem elim_eq_nil {rs : List (Row K)} (h : elim rs = []) : rs = [] := by
  cases rs with
  | nil => rfl
  | cons q qs => exact absurd h (elim_ne_nil q qs)

/-! ### the maximum principle along the solver -/

section Ordered
variable [LinearOrder K] [IsStrictOrderedRing K]

/-- Row of an M-matrix system whose right-hand side lies between `m` and `M` times the row sum. -/
def BRow (m M : K) (r : Row K) : Prop :=
  MRow r ∧ m * (r.a + r.b + r.c) ≤ r.y ∧ r.y ≤ M * (r.a + r.b + r.c)

/-- The same invariant for an eliminated row (no upper entry any more). -/
def ERow (m M : K) (r : Row K) : Prop :=
  r.a ≤ 0 ∧ 0 < r.b ∧ 0 ≤ r.a + r.b ∧ m * (r.a + r.b) ≤ r.y ∧ r.y ≤ M * (r.a + r.b)

theorem elim_erow (m M : K) (rs : List (Row K)) (h : ∀ r ∈ rs, BRow m M r)
    (hlast : ∀ t, rs.getLast? = some t → t.c = 0) : ∀ r ∈ elim rs, ERow m M r := by
  induction rs with
  | nil => simp [elim]
  | cons r rs ih =>
    obtain ⟨⟨ha, hc, hd, hbc⟩, hlo, hhi⟩ := h r (by simp)
    unfold elim
    split
    · rename_i he
      have hnil := elim_eq_nil he
      subst hnil
      have hc0 : r.c = 0 := hlast r (by simp)
      intro q hq
      simp only [List.mem_singleton] at hq
      subst hq
      rw [hc0] at hd hbc hlo hhi
      simp only [add_zero] at hd hbc hlo hhi
      exact ⟨ha, hbc, hd, hlo, hhi⟩
    · rename_i r' rs' he
      have hlast' : ∀ t, rs.getLast? = some t → t.c = 0 := by
        cases rs with
        | nil => simp [elim] at he
        | cons q qs => intro t ht; exact hlast t (by rw [List.getLast?_cons_cons]; exact ht)
      have ih' := ih (fun q hq => h q (List.mem_cons_of_mem _ hq)) hlast'
      rw [he] at ih'
      obtain ⟨ha', hb', hab', hlo', hhi'⟩ := ih' r' (by simp)
      intro q hq
      simp only [List.mem_cons] at hq
      rcases hq with rfl | rfl | hq
      · -- the freshly eliminated row
        obtain ⟨t, ht⟩ : ∃ t, t = -r.c / r'.b := ⟨_, rfl⟩
        have ht0 : 0 ≤ t := by rw [ht]; exact div_nonneg (by linarith) hb'.le
        have hbt : r'.b * t = -r.c := by rw [ht]; field_simp
        have eb : r.b - r.c * r'.a / r'.b = r.b + t * r'.a := by rw [ht]; ring
        have ey : r.y - r.c * r'.y / r'.b = r.y + t * r'.y := by rw [ht]; ring
        show r.a ≤ 0 ∧ 0 < r.b - r.c * r'.a / r'.b ∧ 0 ≤ r.a + (r.b - r.c * r'.a / r'.b) ∧
          m * (r.a + (r.b - r.c * r'.a / r'.b)) ≤ r.y - r.c * r'.y / r'.b ∧
          r.y - r.c * r'.y / r'.b ≤ M * (r.a + (r.b - r.c * r'.a / r'.b))
        rw [eb, ey]
        -- t * a' ≥ -(b' t) = c
        have hta : r.c ≤ t * r'.a := by
          have : 0 ≤ t * (r'.a + r'.b) := mul_nonneg ht0 hab'
          nlinarith
        have h1 : m * (r'.a + r'.b) * t ≤ r'.y * t := mul_le_mul_of_nonneg_right hlo' ht0
        have h2 : r'.y * t ≤ M * (r'.a + r'.b) * t := mul_le_mul_of_nonneg_right hhi' ht0
        have e1 : m * (r.a + (r.b + t * r'.a)) =
            m * (r.a + r.b + r.c) + m * (r'.a + r'.b) * t := by linear_combination (-m) * hbt
        have e2 : M * (r.a + (r.b + t * r'.a)) =
            M * (r.a + r.b + r.c) + M * (r'.a + r'.b) * t := by linear_combination (-M) * hbt
        refine ⟨ha, by linarith, by linarith, ?_, ?_⟩
        · rw [e1]; linarith
        · rw [e2]; linarith
      · exact ih' _ (by simp)
      · exact ih' q (by simp [hq])

theorem fwd_bounded (m M : K) (rs : List (Row K)) (h : ∀ r ∈ rs, ERow m M r) :
    ∀ xprev, m ≤ xprev → xprev ≤ M → ∀ x ∈ fwd xprev rs, m ≤ x ∧ x ≤ M := by
  induction rs with
  | nil => intro _ _ _ x hx; simp [fwd] at hx
  | cons r rs ih =>
    intro xprev hm hM x hx
    obtain ⟨ha, hb, hab, hlo, hhi⟩ := h r (by simp)
    have hx0 : m ≤ (r.y - r.a * xprev) / r.b ∧ (r.y - r.a * xprev) / r.b ≤ M := by
      rw [le_div_iff₀ hb, div_le_iff₀ hb]
      have p1 : 0 ≤ (-r.a) * (xprev - m) := mul_nonneg (by linarith) (by linarith)
      have p2 : 0 ≤ (-r.a) * (M - xprev) := mul_nonneg (by linarith) (by linarith)
      constructor <;> nlinarith
    simp only [fwd, List.mem_cons] at hx
    rcases hx with rfl | hx
    · exact hx0
    · exact ih (fun q hq => h q (List.mem_cons_of_mem _ hq)) _ hx0.1 hx0.2 x hx

/-- Maximum principle for `invert`: M-matrix rows, first row without lower entry (Dirichlet),
    last row without upper entry. -/
theorem solve_bounded (m M : K) (r : Row K) (rs : List (Row K)) (ha0 : r.a = 0)
    (h : ∀ q ∈ r :: rs, BRow m M q) (hlast : ∀ t, (r :: rs).getLast? = some t → t.c = 0) :
    ∀ x ∈ solve (r :: rs), m ≤ x ∧ x ≤ M := by
  have he := elim_erow m M (r :: rs) h hlast
  obtain ⟨r'', hshape, ha''⟩ := elim_cons_shape r rs
  unfold solve
  rw [hshape] at he ⊢
  obtain ⟨_, hb, _, hlo, hhi⟩ := he r'' (by simp)
  rw [ha'', ha0] at hlo hhi
  simp only [zero_add] at hlo hhi
  have hx0 : m ≤ (r''.y - r''.a * 0) / r''.b ∧ (r''.y - r''.a * 0) / r''.b ≤ M := by
    rw [le_div_iff₀ hb, div_le_iff₀ hb]
    constructor <;> linarith
  intro x hx
  simp only [fwd, List.mem_cons] at hx
  rcases hx with rfl | hx
  · exact hx0
  · exact fwd_bounded m M (elim rs) (fun q hq => he q (List.mem_cons_of_mem _ hq)) _
      hx0.1 hx0.2 x hx

end Ordered

/-! ### rows of the diffusion system -/

theorem interiorRows_length (dt : K) (ls : List (Level K)) :
    ∀ g, (interiorRows dt g ls).length = ls.length := by
  induction ls with
  | nil => intro g; simp [interiorRows]
  | cons l ls ih =>
    intro g
    cases ls with
    | nil => simp [interiorRows]
    | cons l' rest => simp only [interiorRows, List.length_cons]; rw [ih]; simp

theorem diffusionRows_length (dt : K) (ls : List (Level K)) :
    (diffusionRows dt ls).length = ls.length := by
  match ls with
  | [] => simp [diffusionRows]
  | [_] => simp [diffusionRows]
  | l0 :: l1 :: rest => simp [diffusionRows, interiorRows_length]

theorem interiorRows_getLast (dt : K) (rest : List (Level K)) :
    ∀ (l : Level K) (g : K), (interiorRows dt g (l :: rest)).getLast? = some topRow := by
  induction rest with
  | nil => intro l g; simp [interiorRows]
  | cons l' rest ih =>
    intro l g
    have := ih l' (cddzI l l')
    cases hq : interiorRows dt (cddzI l l') (l' :: rest) with
    | nil =>
      have hl := interiorRows_length dt (l' :: rest) (cddzI l l')
      rw [hq] at hl; simp at hl
    | cons q qs =>
      rw [hq] at this
      simp only [interiorRows, hq, List.getLast?_cons_cons]
      exact this

theorem diffusionRows_getLast (dt : K) (l : Level K) (rest : List (Level K)) :
    (diffusionRows dt (l :: rest)).getLast? = some topRow := by
  cases rest with
  | nil => simp [diffusionRows]
  | cons l1 rest =>
    have := interiorRows_getLast dt rest l1 (cddzI l l1)
    cases hq : interiorRows dt (cddzI l l1) (l1 :: rest) with
    | nil =>
      have hl := interiorRows_length dt (l1 :: rest) (cddzI l l1)
      rw [hq] at hl; simp at hl
    | cons q qs =>
      rw [hq] at this
      simp only [diffusionRows, hq, List.getLast?_cons_cons]
      exact this

/-- Top boundary: in any solution of the interior rows the last two unknowns are equal
    (`xprev` is the unknown below the first listed level). -/
theorem interior_top (dt : K) (rest : List (Level K)) :
    ∀ (l : Level K) (g xprev x : K) (xs : List K),
      Sat xprev (interiorRows dt g (l :: rest)) (x :: xs) →
      (xprev :: x :: xs)[rest.length + 1]? = (xprev :: x :: xs)[rest.length]? := by
  induction rest with
  | nil =>
    intro l g xprev x xs h
    cases xs with
    | cons x' xs' => simp [interiorRows, Sat] at h
    | nil =>
      simp only [interiorRows, Sat, topRow, List.headD_nil, mul_zero, add_zero, and_true] at h
      have : x = xprev := by linear_combination h
      simp [this]
  | cons l' rest ih =>
    intro l g xprev x xs h
    simp only [interiorRows] at h
    cases xs with
    | nil =>
      obtain ⟨_, h2⟩ := h
      cases hq : interiorRows dt (cddzI l l') (l' :: rest) with
      | nil =>
        have hl := interiorRows_length dt (l' :: rest) (cddzI l l')
        rw [hq] at hl; simp at hl
      | cons q qs => rw [hq] at h2; simp [Sat] at h2
    | cons x' xs' =>
      obtain ⟨_, hsat⟩ := h
      have := ih l' (cddzI l l') x x' xs' hsat
      simpa using this

/-- Heat-content change of all listed levels but the last: `Σ da·dz·(x − co)`. -/
def interiorSum : List (Level K) → List K → K
  | l :: l' :: rest, x :: xs => l.da * l.dz * (x - l.co) + interiorSum (l' :: rest) xs
  | _, _ => 0

/-- Telescoping: the heat gained by the listed levels (all but the last, which only mirrors its
    neighbour) equals `dt` × the diffusive flux through the interface below the first of them. -/
theorem interior_telescope (dt : K) (rest : List (Level K)) :
    ∀ (l : Level K) (g xprev x : K) (xs : List K),
      (∀ q ∈ (l :: rest).dropLast, q.dz ≠ 0 ∧ q.da ≠ 0) →
      Sat xprev (interiorRows dt g (l :: rest)) (x :: xs) →
      interiorSum (l :: rest) (x :: xs) = dt * g * (xprev - x) := by
  induction rest with
  | nil =>
    intro l g xprev x xs _ h
    cases xs with
    | cons x' xs' => simp [interiorRows, Sat] at h
    | nil =>
      simp only [interiorRows, Sat, topRow, List.headD_nil, mul_zero, add_zero, and_true] at h
      simp only [interiorSum]
      linear_combination (dt * g) * h
  | cons l' rest ih =>
    intro l g xprev x xs hnz h
    simp only [interiorRows] at h
    cases xs with
    | nil =>
      obtain ⟨_, h2⟩ := h
      cases hq : interiorRows dt (cddzI l l') (l' :: rest) with
      | nil =>
        have hl := interiorRows_length dt (l' :: rest) (cddzI l l')
        rw [hq] at hl; simp at hl
      | cons q qs => rw [hq] at h2; simp [Sat] at h2
    | cons x' xs' =>
      obtain ⟨heq, hsat⟩ := h
      obtain ⟨hdz, hda⟩ := hnz l (by simp [List.dropLast])
      have hnz' : ∀ q ∈ (l' :: rest).dropLast, q.dz ≠ 0 ∧ q.da ≠ 0 := by
        intro q hq; exact hnz q (by simp only [List.dropLast_cons_cons]; exact List.mem_cons_of_mem _ hq)
      have ih' := ih l' (cddzI l l') x x' xs' hnz' hsat
      simp only [interiorSum]
      rw [ih']
      generalize cddzI l l' = g' at heq
      simp only [diffRow, List.headD_cons] at heq
      field_simp at heq
      linear_combination heq

/-! ### guard lemmas -/

theorem firstErr_eq_none (cs : List (Option PyErr)) :
    firstErr cs = none ↔ ∀ c ∈ cs, c = none := by
  induction cs with
  | nil => simp [firstErr]
  | cons c cs ih =>
    cases c with
    | none => simp [firstErr, ih]
    | some e => simp [firstErr]

section Dec
variable [DecidableEq K]

theorem needNZ_eq_none {b : K} : needNZ b = none ↔ b ≠ 0 := by
  unfold needNZ; split <;> simp_all

omit [Field K] [DecidableEq K] in
theorem needIdx_eq_none {l : List K} {i : Nat} : needIdx l i = none ↔ i < l.length := by
  unfold needIdx; split <;> simp_all

theorem solveChecked_eq_ok (rs : List (Row K)) (xs : List K) :
    solveChecked rs = .ok xs ↔ Pivots rs ∧ xs = solve rs := by
  unfold solveChecked Pivots
  split
  · rename_i h
    simp only [List.any_eq_true, decide_eq_true_eq] at h
    obtain ⟨r, hr, hb⟩ := h
    constructor
    · intro h; cases h
    · rintro ⟨hp, _⟩; exact absurd hb (hp r hr)
  · rename_i h
    simp only [List.any_eq_true, decide_eq_true_eq, not_exists, not_and] at h
    constructor
    · intro h'; cases h'; exact ⟨h, rfl⟩
    · rintro ⟨_, rfl⟩; rfl

theorem diffusion_eq_ok (nz : Nat) (dt : K) (co da daz cd dz xs : List K) :
    diffusion nz dt co da daz cd dz = .ok xs ↔
      firstErr (pyChecks nz co da daz cd dz) = none ∧
      Pivots (diffusionRows dt (mkLevels nz co da daz cd dz)) ∧
      xs = solve (diffusionRows dt (mkLevels nz co da daz cd dz)) := by
  unfold diffusion
  split
  · rename_i e he
    simp [he]
  · rename_i he
    simp [he, solveChecked_eq_ok]

/-- What a passed guard guarantees about the entries the interior rows divide by. -/
theorem checks_interior (nz : Nat) (co da daz cd dz : List K)
    (h : firstErr (pyChecks nz co da daz cd dz) = none) (i : Nat) (h1 : 1 ≤ i) (h2 : i + 2 ≤ nz) :
    dz.getD i 0 ≠ 0 ∧ da.getD i 0 ≠ 0 := by
  rw [firstErr_eq_none] at h
  have hmem : i ∈ List.range' 1 (nz - 2) := by
    rw [List.mem_range'_1]; omega
  constructor
  · apply needNZ_eq_none.mp
    apply h
    simp only [pyChecks, List.mem_append, List.mem_flatMap]
    right
    exact ⟨i, hmem, by simp⟩
  · apply needNZ_eq_none.mp
    apply h
    simp only [pyChecks, List.mem_append, List.mem_flatMap]
    right
    exact ⟨i, hmem, by simp⟩

theorem checks_nz_pos (nz : Nat) (co da daz cd dz : List K)
    (h : firstErr (pyChecks nz co da daz cd dz) = none) : 0 < nz := by
  rw [firstErr_eq_none] at h
  by_contra h0
  have : nz = 0 := by omega
  have := h (if nz = 0 then some .index else none) (by simp [pyChecks])
  simp_all

end Dec

/-! ### index plumbing between the level list and the raw lists -/

/-- Level `i` as read from the raw lists. -/
def levelAt (co da daz cd dz : List K) (i : Nat) : Level K :=
  { co := co.getD i 0, da := da.getD i 0, dz := dz.getD i 0, daz := daz.getD i 0,
    cd := cd.getD i 0 }

/-- Levels `lo, lo+1, …, lo+n-1`. -/
def levelsFrom (co da daz cd dz : List K) (lo n : Nat) : List (Level K) :=
  (List.range' lo n).map (levelAt co da daz cd dz)

theorem mkLevels_eq (nz : Nat) (co da daz cd dz : List K) :
    mkLevels nz co da daz cd dz = levelsFrom co da daz cd dz 0 nz := by
  simp [mkLevels, levelsFrom, List.range_eq_range', levelAt]

theorem levelsFrom_succ (co da daz cd dz : List K) (lo n : Nat) :
    levelsFrom co da daz cd dz lo (n + 1) =
      levelAt co da daz cd dz lo :: levelsFrom co da daz cd dz (lo + 1) n := by
  simp [levelsFrom, List.range'_succ]

theorem levelsFrom_length (co da daz cd dz : List K) (lo n : Nat) :
    (levelsFrom co da daz cd dz lo n).length = n := by
  simp [levelsFrom]

theorem mem_levelsFrom (co da daz cd dz : List K) (lo n : Nat) (l : Level K) :
    l ∈ levelsFrom co da daz cd dz lo n ↔ ∃ i, lo ≤ i ∧ i < lo + n ∧ levelAt co da daz cd dz i = l := by
  simp only [levelsFrom, List.mem_map, List.mem_range'_1]
  constructor
  · rintro ⟨i, ⟨h1, h2⟩, rfl⟩; exact ⟨i, h1, h2, rfl⟩
  · rintro ⟨i, h1, h2, rfl⟩; exact ⟨i, ⟨h1, h2⟩, rfl⟩

theorem levelsFrom_dropLast (co da daz cd dz : List K) (lo n : Nat) :
    (levelsFrom co da daz cd dz lo (n + 1)).dropLast = levelsFrom co da daz cd dz lo n := by
  simp [levelsFrom, List.range'_concat]

theorem interiorSum_levelsFrom (co da daz cd dz X : List K) (n : Nat) :
    ∀ lo, lo + n ≤ X.length →
      interiorSum (levelsFrom co da daz cd dz lo n) (X.drop lo) =
        sumFrom (fun i => da.getD i 0 * dz.getD i 0 * (X.getD i 0 - co.getD i 0)) lo (n - 1) := by
  induction n with
  | zero => intro lo _; simp [levelsFrom, interiorSum, sumFrom]
  | succ n ih =>
    intro lo hlen
    cases n with
    | zero => simp [levelsFrom, interiorSum, sumFrom]
    | succ k =>
      have hlo : lo < X.length := by omega
      rw [levelsFrom_succ, levelsFrom_succ, List.drop_eq_getElem_cons hlo]
      simp only [interiorSum]
      have := ih (lo + 1) (by omega)
      rw [levelsFrom_succ] at this
      rw [this]
      simp only [Nat.add_sub_cancel, sumFrom, levelAt]
      have hx : X.getD lo 0 = X[lo] := by simp [List.getD_eq_getElem?_getD, hlo]
      rw [hx]

/-! ### the diffusion rows are M-matrix rows with bounded right-hand sides -/

section Ordered2
variable [LinearOrder K] [IsStrictOrderedRing K]

/-- Admissible level: positive density and spacing, non-negative interface density and
    diffusion coefficient. -/
def PosLevel (l : Level K) : Prop := 0 < l.da ∧ 0 < l.dz ∧ 0 ≤ l.daz ∧ 0 ≤ l.cd

theorem cddzI_nonneg {lo up : Level K} (h : PosLevel lo) (h' : PosLevel up) :
    0 ≤ cddzI lo up := by
  obtain ⟨_, hz, _, _⟩ := h
  obtain ⟨_, hz', hdaz, hcd⟩ := h'
  unfold cddzI
  positivity

theorem topRow_brow (m M : K) : BRow m M (topRow : Row K) := by
  unfold BRow MRow topRow
  norm_num

theorem diffRow_brow (dt g g' m M : K) (l : Level K) (hdt : 0 ≤ dt) (hg : 0 ≤ g) (hg' : 0 ≤ g')
    (hl : PosLevel l) (hlo : m ≤ l.co) (hhi : l.co ≤ M) : BRow m M (diffRow dt g g' l) := by
  obtain ⟨hda, hdz, _, _⟩ := hl
  have hA : 0 ≤ g * dt / l.dz / l.da := by positivity
  have hC : 0 ≤ g' * dt / l.dz / l.da := by positivity
  have e1 : -g * dt / l.dz / l.da = -(g * dt / l.dz / l.da) := by ring
  have e2 : 1 + dt * (g + g') / l.dz / l.da =
      1 + g * dt / l.dz / l.da + g' * dt / l.dz / l.da := by ring
  have e3 : -g' * dt / l.dz / l.da = -(g' * dt / l.dz / l.da) := by ring
  unfold BRow MRow diffRow
  simp only
  rw [e1, e2, e3]
  have es : -(g * dt / l.dz / l.da) + (1 + g * dt / l.dz / l.da + g' * dt / l.dz / l.da) +
      -(g' * dt / l.dz / l.da) = 1 := by ring
  rw [es, mul_one, mul_one]
  exact ⟨⟨by linarith, by linarith, by norm_num, by linarith⟩, hlo, hhi⟩

theorem interiorRows_brows (dt m M : K) (hdt : 0 ≤ dt) (ls : List (Level K)) :
    ∀ g, 0 ≤ g → (∀ l ∈ ls, PosLevel l) → (∀ l ∈ ls.dropLast, m ≤ l.co ∧ l.co ≤ M) →
      ∀ r ∈ interiorRows dt g ls, BRow m M r := by
  induction ls with
  | nil => intro g _ _ _ r hr; simp [interiorRows] at hr
  | cons l ls ih =>
    intro g hg hpos hb r hr
    cases ls with
    | nil =>
      simp only [interiorRows, List.mem_singleton] at hr
      subst hr
      exact topRow_brow m M
    | cons l' rest =>
      have hl := hpos l (by simp)
      have hl' := hpos l' (by simp)
      have hg' := cddzI_nonneg hl hl'
      simp only [interiorRows, List.mem_cons] at hr
      rcases hr with rfl | hr
      · obtain ⟨h1, h2⟩ := hb l (by simp [List.dropLast])
        exact diffRow_brow dt g _ m M l hdt hg hg' hl h1 h2
      · exact ih (cddzI l l') hg' (fun q hq => hpos q (List.mem_cons_of_mem _ hq))
          (fun q hq => hb q (by
            simp only [List.dropLast_cons_cons]; exact List.mem_cons_of_mem _ hq)) r
          (by simpa only [interiorRows, List.mem_cons] using hr)

theorem diffusionRows_brows (dt m M : K) (hdt : 0 ≤ dt) (ls : List (Level K))
    (hpos : ∀ l ∈ ls, PosLevel l) (hb : ∀ l ∈ ls.dropLast, m ≤ l.co ∧ l.co ≤ M) :
    ∀ r ∈ diffusionRows dt ls, BRow m M r := by
  match ls, hpos, hb with
  | [], _, _ => intro r hr; simp [diffusionRows] at hr
  | [_], _, _ =>
    intro r hr
    simp only [diffusionRows, List.mem_singleton] at hr
    subst hr
    exact topRow_brow m M
  | l0 :: l1 :: rest, hpos, hb =>
    intro r hr
    simp only [diffusionRows, List.mem_cons] at hr
    rcases hr with rfl | hr
    · obtain ⟨h1, h2⟩ := hb l0 (by simp [List.dropLast])
      unfold BRow MRow
      simp only
      norm_num
      exact ⟨h1, h2⟩
    · exact interiorRows_brows dt m M hdt (l1 :: rest) _
        (cddzI_nonneg (hpos l0 (by simp)) (hpos l1 (by simp)))
        (fun q hq => hpos q (List.mem_cons_of_mem _ hq))
        (fun q hq => hb q (by
          simp only [List.dropLast_cons_cons]; exact List.mem_cons_of_mem _ hq)) r
        (by simpa only [List.mem_cons] using hr)

/-- Discrete maximum principle on the level list: every new value lies between the bounds of
    the old values of all levels but the top one. -/
theorem diffusion_levels_bounded (dt m M : K) (hdt : 0 ≤ dt) (l0 l1 : Level K)
    (rest : List (Level K)) (hpos : ∀ l ∈ l0 :: l1 :: rest, PosLevel l)
    (hb : ∀ l ∈ (l0 :: l1 :: rest).dropLast, m ≤ l.co ∧ l.co ≤ M) :
    ∀ x ∈ solve (diffusionRows dt (l0 :: l1 :: rest)), m ≤ x ∧ x ≤ M := by
  have hbr := diffusionRows_brows dt m M hdt (l0 :: l1 :: rest) hpos hb
  have hlast := diffusionRows_getLast dt l0 (l1 :: rest)
  simp only [diffusionRows] at hbr hlast ⊢
  apply solve_bounded m M _ _ rfl hbr
  intro t ht
  rw [hlast] at ht
  cases ht
  rfl

theorem exists_argmin (f : Nat → K) : ∀ n, 0 < n → ∃ j, j < n ∧ ∀ i, i < n → f j ≤ f i := by
  intro n
  induction n with
  | zero => intro h; omega
  | succ n ih =>
    intro _
    by_cases hn : n = 0
    · subst hn
      refine ⟨0, by omega, fun i hi => ?_⟩
      have hi0 : i = 0 := by omega
      subst hi0
      exact le_rfl
    · obtain ⟨j, hj, hmin⟩ := ih (by omega)
      by_cases hjn : f j ≤ f n
      · refine ⟨j, by omega, fun i hi => ?_⟩
        by_cases hin : i = n
        · subst hin; exact hjn
        · exact hmin i (by omega)
      · refine ⟨n, by omega, fun i hi => ?_⟩
        by_cases hin : i = n
        · subst hin; exact le_rfl
        · have := hmin i (by omega)
          linarith [not_le.mp hjn]

theorem exists_argmax (f : Nat → K) (n : Nat) (hn : 0 < n) :
    ∃ j, j < n ∧ ∀ i, i < n → f i ≤ f j := by
  obtain ⟨j, hj, h⟩ := exists_argmin (fun i => -f i) n hn
  exact ⟨j, hj, fun i hi => by have := h i hi; linarith⟩

end Ordered2

section Dec2
variable [DecidableEq K]

/-- With list lengths as at the call site and non-zero spacings/densities no subscript or
    division of `diffusion_equation` fails. -/
theorem checks_pass (nz : Nat) (co da daz cd dz : List K) (h1 : 1 ≤ nz)
    (hco : co.length = nz) (hda : da.length = nz) (hdaz : daz.length = nz + 1)
    (hcd : cd.length = nz + 1) (hdz : nz + 1 ≤ dz.length)
    (hdzne : ∀ i, i ≤ nz → dz.getD i 0 ≠ 0)
    (hsum : ∀ i, 1 ≤ i → i < nz → dz.getD i 0 + dz.getD (i - 1) 0 ≠ 0)
    (hdane : ∀ i, i < nz → da.getD i 0 ≠ 0) :
    firstErr (pyChecks nz co da daz cd dz) = none := by
  rw [firstErr_eq_none]
  intro c hc
  simp only [pyChecks, List.mem_append, List.mem_flatMap, List.mem_cons, List.mem_range'_1,
    List.not_mem_nil, or_false] at hc
  rcases hc with ((((h | h | h | h) | ⟨i, hi, h | h | h | h⟩) | (h | h | h | h)) | (h | h)) |
    ⟨i, hi, h | h | h | h⟩
  all_goals subst h
  all_goals first
    | (rw [needIdx_eq_none]; omega)
    | (rw [needNZ_eq_none]; first
        | exact hdzne _ (by omega)
        | exact hsum _ (by omega) (by omega)
        | exact hdane _ (by omega))
    | (simp; omega)

end Dec2

end Uwg
